"""C07 - per-element grammars with systematic mutations, and request assembly per target resource.

Everything a case contains is something a conforming HTTP server can derive from client bytes: method token,
path/query of code points <= U+00FF, header values without CR/LF (Latin-1), arbitrary body bytes (kept as a
Latin-1 string in the JSON case), HTTP/1.0 | HTTP/1.1.
"""
import base64
import hashlib
import json
import time

CHARSETS_OK = ['utf-8', 'UTF-8', 'iso-8859-1', 'latin-1', 'us-ascii', 'ascii', 'utf-16', 'cp1252', 'utf_8_sig',
               'utf-7', 'utf-32', 'cp037', 'unicode_escape', 'raw_unicode_escape']
CHARSETS_BAD = ['nosuch', 'utf-9', 'undefined', 'idna', 'punycode', 'hex', 'base64', 'rot13', 'zlib', 'bz2',
                'uu', 'quopri', 'mbcs', 'oem', 'x' * 300, 'utf-8;', 'u\xf1', '"utf-8', 'utf 8', '*', '=', "'"]
NUMBERS_BAD = ['', 'abc', '1e3', '-1', '+5', '0x10', '1.5', '1 0', '\xb2', '\xb9\xb3', '1_0', ' 7 ', '9' * 25,
               '9' * 4400, 'NaN', 'inf', '١', '1,2', '1;2', '0' * 5000]
TOKENS = ['a', 'b', 'key', 'x-1', 'n\xe4me', 'k%20x', '', ' ', 'a b', 'to', 'to', '\xd0\xba\xd0\xbb', '%E2%82%AC']
HTTP_DATES = ['Sun, 06 Nov 1994 08:49:37 GMT', 'Sunday, 06-Nov-94 08:49:37 GMT', 'Sun Nov  6 08:49:37 1994',
              'Thu, 01 Jan 2099 00:00:00 GMT', '0', 'yesterday', 'Sun, 06 Nov 1994 08:49:37', '-1',
              'Sun, 99 Nov 1994 08:49:37 GMT', 'Sun, 06 Nov 99999999999 08:49:37 GMT']


def pick(rng, xs):
    return xs[rng.randrange(len(xs))]


# --------------------------------------------------------------------------------------------------
# generic mutations on a text element
# --------------------------------------------------------------------------------------------------
SEPS = ['=', ';', ',', '-', ':', '&', '/', ' ', '"', "'", '?', '*', '.', '%']
MUTATIONS = ['truncate', 'duplicate', 'wrongsep', 'dropsep', 'badnumber', 'quote', 'dropquote', 'oversize',
             'badcharset', 'insert', 'ctl', 'encword', 'case', 'empty', 'space', 'byteclass', 'byteclass', 'many']


def mutate(rng, s, kind=None):
    """One systematic mutation of the element `s` (text, code points <= U+00FF, no CR/LF)."""
    kind = kind or pick(rng, MUTATIONS)
    n = len(s)
    if kind == 'truncate':
        return s[:rng.randrange(n + 1)] if n else s
    if kind == 'duplicate':
        if not n:
            return s
        i = rng.randrange(n)
        j = rng.randrange(i, n) + 1
        return s[:j] + s[i:j] * rng.choice([1, 1, 2, 5]) + s[j:]
    if kind in ('wrongsep', 'dropsep'):
        pos = [i for i, c in enumerate(s) if c in SEPS]
        if not pos:
            return s + pick(rng, SEPS)
        i = pick(rng, pos)
        return s[:i] + ('' if kind == 'dropsep' else pick(rng, SEPS)) + s[i + 1:]
    if kind == 'badnumber':
        # replace a maximal digit run
        runs, i = [], 0
        while i < n:
            if s[i].isdigit():
                j = i
                while j < n and s[j].isdigit():
                    j += 1
                runs.append((i, j))
                i = j
            else:
                i += 1
        if not runs:
            return s + pick(rng, NUMBERS_BAD)
        i, j = pick(rng, runs)
        return s[:i] + pick(rng, NUMBERS_BAD) + s[j:]
    if kind == 'quote':
        i = rng.randrange(n + 1)
        return s[:i] + pick(rng, ['"', '"', "'", '\\', '\\"', '<', '(']) + s[i:]
    if kind == 'dropquote':
        pos = [i for i, c in enumerate(s) if c in '"\'']
        if not pos:
            return s
        i = pick(rng, pos)
        return s[:i] + s[i + 1:]
    if kind == 'oversize':
        if not n:
            return 'A' * rng.choice([300, 5000])
        i = rng.randrange(n)
        j = min(n, i + rng.choice([1, 2, 8]))
        # (at most ~8 KB: http.cookies' pattern is quadratic, 24 KB of `=d=d=d...` keeps SimpleCookie.load busy for 10 s)
        return s[:i] + s[i:j] * rng.choice([50, 300, 1000]) + s[j:]
    if kind == 'badcharset':
        for cs in CHARSETS_OK:
            k = s.find(cs)
            if k >= 0:
                return s[:k] + pick(rng, CHARSETS_BAD + CHARSETS_OK) + s[k + len(cs):]
        return s + '; charset=' + pick(rng, CHARSETS_BAD)
    if kind == 'insert':
        i = rng.randrange(n + 1)
        return s[:i] + pick(rng, ['\xff', '\xe9', '\x00', '%', '%zz', '%ff', '%c3', '=?', '?=', '\x7f', '\t',
                                  '\x85', '\xa0', ';', ',', '=', ';;', ',,', '\x1f', '[', ']', '{', '://']) + s[i:]
    if kind == 'ctl':
        i = rng.randrange(n + 1)
        return s[:i] + chr(rng.choice([0, 1, 8, 9, 11, 12, 27, 127, 128, 159, 160, 255])) + s[i:]
    if kind == 'encword':
        return pick(rng, [s + ' ', '']) + gen_encoded_word(rng)
    if kind == 'case':
        return s.swapcase()
    if kind == 'empty':
        return ''
    if kind == 'space':
        i = rng.randrange(n + 1)
        return s[:i] + pick(rng, [' ', '  ', '\t', ' \t ']) + s[i:]
    if kind == 'many':
        # count-based limits: one item of a separator-delimited element repeated up to a few thousand times
        seps = [c for c in '&;,' if c in s] or ['&', ',', ';']
        sep = pick(rng, seps)
        items = s.split(sep)
        item = pick(rng, items)[:12]
        count = pick(rng, [99, 100, 101, 255, 256, 999, 1000, 1001, 1023, 1024, 1025, 4999])
        count = min(count, 30000 // (len(item) + 1))
        return sep.join(items + [item] * count)
    if kind == 'byteclass':
        # one token (maximal run of token characters) of the element goes through a byte class
        runs, i = [], 0
        while i < n:
            if s[i].isalnum() or s[i] in '-_.':
                j = i
                while j < n and (s[j].isalnum() or s[j] in '-_.'):
                    j += 1
                runs.append((i, j))
                i = j
            else:
                i += 1
        t = pick(rng, BYTE_CLASSES)[1]
        if len(t) > 5000:
            t = t[:5000]
        if not runs:
            return t.replace('{{orig}}', s).replace('{{ORIG}}', s.upper())
        i, j = pick(rng, runs)
        tok = s[i:j]
        if len(tok) * 300 > 20000:
            tok = tok[:40]
        return s[:i] + t.replace('{{orig}}', tok).replace('{{ORIG}}', tok.upper()) + s[j:]
    return s


def mutated(rng, s, p=0.6):
    """Mostly valid with a malformed stream: 0, 1 or 2 mutations."""
    r = rng.random()
    if r > p:
        return s
    s = mutate(rng, s)
    if r < p * 0.25:
        s = mutate(rng, s)
    return sanitize(s)


def sanitize(s):
    """What the wire format itself cannot carry inside one header value / request line."""
    return ''.join(c for c in s if c not in '\r\n' and ord(c) <= 0xFF)


# --------------------------------------------------------------------------------------------------
# element grammars
# --------------------------------------------------------------------------------------------------
def gen_encoded_word(rng):
    cs = pick(rng, ['utf-8', 'iso-8859-1', 'us-ascii', 'utf-8', 'utf-8'] + CHARSETS_BAD[:10] + ['utf-16', 'utf-7'])
    enc = pick(rng, ['q', 'Q', 'b', 'B', 'b', 'x', ''])
    if enc.lower() == 'b':
        raw = pick(rng, [b'hello', b'\xff\xfe', b'f\xc3\xbcr', b'', b'a', b'\xe9'])
        txt = base64.b64encode(raw).decode()
        txt = pick(rng, [txt, txt, txt.rstrip('='), txt[:-1], txt + '=', 'a', 'ab', 'abc', 'abcde', '!!!!', '===='])
    else:
        txt = pick(rng, ['abc', 'f=C3=BCr', '=FF=FE', '=E9', 'a_b', '=', '=F', '=ZZ', '', 'a b', '=C3'])
    w = '=?%s?%s?%s?=' % (cs, enc, txt)
    return pick(rng, [w, w, w, w + w, w + ' ' + w, 'x' + w, w + 'y', '=?' + cs + '?' + enc, '=?=', '=??=', '=???=',
                      '=?%s?%s?%s' % (cs, enc, txt), '=?%s*en?%s?%s?=' % (cs, enc, txt)])


MANY = [100, 255, 256, 999, 1000, 1001, 1024, 2000]      # count-based limits (fields, elements, parts, cookies)


def gen_qs(rng):
    kind = rng.random()
    if kind > 0.96:
        n = pick(rng, MANY)
        return pick(rng, ['&' * n, ';' * n, '&'.join('k%d=%d' % (i, i) for i in range(n)), '&'.join(['a=1'] * n), 'a=1&' * n,
                          '&'.join(['a'] * n), '=' * n, '&='.join(['x'] * n)])
    if kind < 0.15:
        return pick(rng, ['%d,%d' % (rng.randrange(1000), rng.randrange(1000)), '1,2x', '1,2=v', '1,', ',2', '1,2,3',
                          '\xb2,3', '1,\xb3', '9' * 4400 + ',1', '1,' + '9' * 5000, '1;2', ' 1,2', '1,2 ', '01,02',
                          '1%2C2', '-1,2'])
    pairs = []
    for _ in range(rng.choice([0, 1, 1, 2, 3, 6])):
        k = pick(rng, TOKENS + ['a', 'b'])
        v = pick(rng, ['1', 'v', 'x y', 'x+y', '%41', '%C3%A9', '%e9', '%ff%fe', '%', '%4', '%zz', '\xe9', '\xc3\xa9',
                       '\xe2\x82\xac', '%E2%82%AC', '\xf0\x9f\x98\x80', 'x\xe2\x80\xa8y',
                       '', 'a=b', '%00', '%u00e9', '%ED%A0%80', '%F4%90%80%80', '%C0%80', '%0d%0a'])
        pairs.append(pick(rng, [k + '=' + v, k + '=' + v, k, '=' + v, k + '==' + v]))
    return pick(rng, ['&', '&', '&', ';', '&&'])[0:2].join(pairs)


def gen_range(rng):
    def spec():
        a, b = rng.randrange(0, 150), rng.randrange(0, 150)
        return pick(rng, ['%d-%d' % (min(a, b), max(a, b)), '%d-' % a, '-%d' % b, '%d-%d' % (max(a, b) + 1, min(a, b)),
                          '-', '%d' % a, '-0', '0-0', '%d-%d' % (a + 500, a + 600), '0-99999999999999999999'])
    unit = pick(rng, ['bytes'] * 8 + ['Bytes', 'chars', '', ' bytes '])
    count = pick(rng, MANY) if rng.random() < 0.03 else rng.choice([1, 1, 1, 2, 3, 12])
    return unit + '=' + pick(rng, [', ', ',', ',', ' ,'])[0:2].join(spec() for _ in range(count))


def gen_etag_list(rng):
    tags = ['"abc"', 'W/"abc"', '*', '"x,y"', '"', 'abc', '"\xe9"', '""', '"3389b9f4f1f3bbdb0b6ee0b8b4f2f5d6"']
    return ', '.join(pick(rng, tags) for _ in range(rng.choice([1, 1, 2, 3])))


def gen_accept(rng, values):
    els = []
    for _ in range(pick(rng, MANY[:6]) if rng.random() < 0.02 else rng.choice([1, 1, 2, 3, 5])):
        v = pick(rng, values)
        r = rng.random()
        if r < 0.5:
            v += pick(rng, [';q=', '; q=', ';q =', ' ; q = ', ';Q=']) + pick(
                rng, ['0', '1', '0.5', '0.001', '1.0', '.5', '0.', '1e0', 'nan', 'inf', '-1', '2', 'x', '', '0,5', '"1"',
                      '\xb2', '1_0', ' 1', '0x1', '1;q=2', '0.5;ext=1', '0.5;', '9' * 400, '1e400', '٠'])
        elif r < 0.6:
            v += pick(rng, [';level=1', ';charset=utf-8', ';a="b,c"', ';a="b', ';q', ';=', ';;'])
        els.append(v)
    return pick(rng, [', ', ',', ', ', ' , '])[0:3].join(els)


MEDIA = ['text/html', 'application/json', 'text/*', '*/*', 'image/png', 'text', '*', '/', 'text/', '/html', 'a/b/c',
         'application/xhtml+xml', 'text/html;level=1']
CHARSET_VALUES = ['utf-8', 'iso-8859-1', '*', 'us-ascii', 'utf-16', 'nosuch', 'undefined', 'idna', 'hex', 'rot13',
                  'base64', 'punycode', 'cp037', 'utf-7', 'unicode_escape', 'x' * 200, 'utf-8 ', '', 'zlib', 'mbcs']
CODINGS = ['gzip', 'deflate', 'identity', '*', 'br', 'x-gzip', 'compress', '', 'GZIP', 'gzip;']
LANGS = ['en', 'en-US', 'de', '*', 'x' * 50, 'e\xf1']


def gen_cookie(rng):
    sid = hashlib.sha1(str(rng.random()).encode()).hexdigest()
    sidv = pick(rng, [sid, sid, sid[:10], '', '../../etc/passwd', '/abs', 'x/../../y',
                      # quoted values with the escapes http.cookies undoes: octal \\ooo and \\" (NUL, '/', LF, 0xE9 ...)
                      '"a\\000b"', '"\\057etc\\057passwd"', '"x\\057..\\057..\\057y"', '"a\\012b"', '"\\351"', '"a\\"b"',
                      '"\\\\"', '"' + sid + '\\000"', '"\\000"', '"a\\777b"', '"a\\00"', '"x/../../y"', 'x/../y', 'x/..',
                      'x/../../../../tmp/y', '/../../y', 'x/..//../y', 'x\\..\\..\\y', sid + '/../../' + sid, 'a' * 300, 'a' * 5000, 'x\x00y', '..', '.',
                      'a/b', 'a\\b', 'caf\xe9', '"' + sid + '"', sid + ';', '%2e%2e', 'con', 'a b', '\x7f'])
    parts = []
    for _ in range(pick(rng, MANY[:6]) if rng.random() < 0.02 else rng.choice([0, 1, 2])):
        parts.append(pick(rng, ['a=b', 'x="y z"', 'k=', '=v', 'novalue', 'a=b=c', 'k="unterminated', 'bad name=1',
                                'n\xe4=1', 'a,b=1', '$Version=1', 'path=/', 'expires=x', 'a=\x01', 'k[]=1', 'a:b=1',
                                'k="\\"', 'secure', 'a="b;c"', '{x}=1', 'a=(b)', 'a@b=c']))
    parts.insert(rng.randrange(len(parts) + 1), 'session_id=' + sidv)
    return pick(rng, ['; ', ';', '; ', ', ', ' '])[0:2].join(parts)


def gen_host(rng):
    return pick(rng, ['localhost:8080', 'localhost', 'example.com', '127.0.0.1:80', '[::1]:8080', '[::1', '::1]', '[',
                      ']', 'a:b:c', 'host:port', 'h\xf6st', 'a b', '', ' ', 'host/../x', 'http://evil/', 'a@b', 'a?b',
                      'a#b', 'x' * 300, 'local\x00host', '[v1.x]', 'a,b', 'host:99999999', '%41', '[::1]x', '//',
                      'a]b', 'a[b'])


def gen_basic(rng):
    up = pick(rng, ['user:pw', 'user:wrong', 'nobody:pw', 'user', ':', '', 'jos\xe9:se\xf1a', 'user:p:w', 'a' * 300 + ':b',
                    '\x00:\x00', 'user:pw\n'])
    raw = up.encode(pick(rng, ['utf-8', 'latin-1']))
    if rng.random() < 0.1:
        raw = pick(rng, [b'\xff\xfe', b'\xc3', b'\xed\xa0\x80:x', b'\xff:\xff'])
    b64 = base64.b64encode(raw).decode()
    b64 = pick(rng, [b64] * 6 + [b64.rstrip('='), b64[:-1], b64 + '=', b64[:1], '!!!!', b64 + ' x', 'Zm9v\xe9', '',
                                 b64.replace('=', '-'), ' ' + b64, b64[:3], 'a', '=' + b64, 'Zm9vOmJh cg=='])
    scheme = pick(rng, ['Basic'] * 8 + ['basic', 'BASIC', 'Basi', 'Basic:', 'Bearer', ''])
    sep = pick(rng, [' '] * 8 + ['', '  ', '\t', '='])
    return scheme + sep + b64


def md5hex(s):
    return hashlib.md5(s.encode('utf-8', 'surrogatepass')).hexdigest()


def gen_digest(rng, method, uri, realm, key, now=None):
    """A digest Authorization header computed like a real client would, then damaged field by field."""
    now = int(now if now is not None else time.time())
    user, pw = pick(rng, [('user', 'pw'), ('user', 'pw'), ('user', 'wrong'), ('nobody', 'pw'), ('jos\xe9', 'se\xf1a')])
    ts = pick(rng, [str(now)] * 6 + [str(now - 100000), 'abc', '', str(now) + 'x', '-5', '9' * 30, '\xb2', '9' * 4400,
                                     '1_0', ' ' + str(now)])
    h = md5hex('%s:%s:%s' % (ts, realm, key))
    nonce = pick(rng, ['%s:%s' % (ts, h)] * 8 + [ts, h, '%s:%s:x' % (ts, h), ':', '', '%s:%s' % (ts, h[:-1]), ts + ':'])
    qop = pick(rng, ['auth'] * 5 + [None, None, 'auth-int', 'auth-int', 'AUTH', 'auth,auth-int', 'x', ''])
    alg = pick(rng, ['MD5'] * 5 + [None, None, 'md5', 'MD5-sess', 'MD5-SESS', 'SHA-256', '', 'x'])
    nc = pick(rng, ['00000001'] * 6 + [None, '', 'x', '1'])
    cnonce = pick(rng, ['0a4f113b'] * 6 + [None, '', 'x"y'])
    ha1 = md5hex('%s:%s:%s' % (user, realm, pw))
    if alg and alg.upper() == 'MD5-SESS':
        ha1 = md5hex('%s:%s:%s' % (ha1, nonce, cnonce))
    ha2 = md5hex('%s:%s' % (method, uri))
    if qop:
        resp = md5hex('%s:%s:%s:%s:%s:%s' % (ha1, nonce, nc, cnonce, qop, ha2))
    else:
        resp = md5hex('%s:%s:%s' % (ha1, nonce, ha2))
    resp = pick(rng, [resp] * 7 + ['', 'x', resp[:-1], resp.upper()])
    fields = [('username', user, True), ('realm', pick(rng, [realm] * 6 + ['other', '']), True), ('nonce', nonce, True),
              ('uri', pick(rng, [uri] * 6 + ['/other', '', '*']), True), ('response', resp, True)]
    if alg is not None:
        fields.append(('algorithm', alg, rng.random() < 0.5))
    if qop is not None:
        fields.append(('qop', qop, rng.random() < 0.5))
    if nc is not None:
        fields.append(('nc', nc, False))
    if cnonce is not None:
        fields.append(('cnonce', cnonce, True))
    if rng.random() < 0.3:
        fields.append(('opaque', 'xyz', True))
    if rng.random() < 0.25:
        del fields[rng.randrange(len(fields))]
    if rng.random() < 0.15:
        fields.append(fields[rng.randrange(len(fields))])
    if rng.random() < 0.3:
        rng.shuffle(fields)
    items = []
    for k, v, q in fields:
        items.append('%s="%s"' % (k, v) if q else '%s=%s' % (k, v))
    hdr = pick(rng, ['Digest '] * 8 + ['digest ', 'Digest', 'Digest  ', 'DIGEST ']) + pick(rng, [', ', ',', ', ']).join(items)
    # utf-8 user names travel as Latin-1 code points of the UTF-8 bytes, or as raw Latin-1
    if rng.random() < 0.5:
        try:
            hdr = hdr.encode('utf-8').decode('latin-1')
        except UnicodeError:
            pass
    return hdr


def gen_content_type(rng, base=None):
    base = base or pick(rng, ['application/x-www-form-urlencoded', 'multipart/form-data', 'application/json',
                              'text/plain', 'text/javascript', 'multipart/mixed', 'application/octet-stream', 'text/xml',
                              'multipart', 'application', '', 'x', 'a/b/c', '/', 'TEXT/PLAIN'])
    if rng.random() < 0.55:
        base += pick(rng, ['; charset=', ';charset=', '; CHARSET=', ';charset ="', '; charset="']) + \
            pick(rng, CHARSETS_OK[:6] + CHARSETS_OK + CHARSETS_BAD)
        if base.count('"') == 1 and rng.random() < 0.8:
            base += '"'
    return base


def gen_urlencoded(rng):
    if rng.random() < 0.03:
        n = pick(rng, MANY)
        return pick(rng, ['&' * n, '&'.join('k%d=%d' % (i, i) for i in range(n)), '&'.join(['a=1'] * n), ';'.join(['a=1'] * n)])
    pairs = []
    for _ in range(rng.choice([0, 1, 1, 2, 3, 8])):
        k = pick(rng, ['a', 'b', 'key', 'n\xe4me', 'k%20', '', 'a..b', 'xn--a', '%ff', '\xff'])
        v = pick(rng, ['1', 'v', 'x+y', '%41', '%C3%A9', '%e9', '%ff%fe', '%', '%4', '%zz', '\xe9', '\xc3\xa9', '', 'a=b',
                       '%00', '\x00', '\\x', '\\u12', '+AGE-', '+ZZ', 'a..b', 'xn--', '\xff\xfe', '\x80', 'A' * 3000])
        pairs.append(pick(rng, [k + '=' + v, k + '=' + v, k, '=' + v]))
    return pick(rng, ['&', '&', '&', ';'])[0:1].join(pairs)


def gen_json(rng):
    good = [{'a': 1}, [1, 2, 3], 'str', 1, None, {'a': {'b': [1, {'c': None}]}}, 1.5, True, {'\xe9': '\u20ac'}]
    txt = json.dumps(pick(rng, good), ensure_ascii=rng.random() < 0.5)
    raw = txt.encode('utf-8')
    r = rng.random()
    if r < 0.5:
        return raw.decode('latin-1')
    return pick(rng, [raw[:len(raw) // 2], raw + b'x', b'', b'{', b'[' * 50, b'[' * 5000, b'{"a":' * 3000, b'\xff\xfe',
                      b'NaN', b'-Infinity', b'1e999', b'9' * 5000, b'"\\ud800"', b'"\\x"', b'{"a":1,}', b"{'a':1}",
                      b'\xef\xbb\xbf{}', b'{"a":1}{"b":2}', b'"' + b'a' * 3000, b'\x00', b' ', b'nul', b'[1,]', b'--1',
                      b'0x10', b'"\xc3"', b'"\xed\xa0\x80"', b'1' + b'0' * 4400]).decode('latin-1')


DISPOSITIONS = ['form-data; name="a"', 'form-data; name="f"; filename="x.txt"', 'form-data; name=a', 'form-data',
                'attachment; filename="a.txt"', "form-data; name=\"f\"; filename*=utf-8''%e2%82%ac.txt",
                "form-data; name=\"f\"; filename*=nosuch''%41.txt", "form-data; name=\"f\"; filename*=nosuch''abc.txt",
                "form-data; name=\"f\"; filename*=utf-8'%41", "form-data; name=\"f\"; filename*=a'b'c'd",
                "form-data; name=\"f\"; filename*=", "form-data; name=\"f\"; filename*=''", 'form-data; name="a',
                "form-data; name=\"f\"; filename*=undefined''%41", "form-data; name=\"f\"; filename*=hex''%41",
                "form-data; name=\"f\"; filename*=utf-16''%41", 'form-data; name="a"; name="b"', 'form-data; name=""',
                '', ';', 'form-data;;', 'form-data; filename="only"', 'form-data; name="\xe9"; filename="\xe9"',
                "form-data; name=\"f\"; filename*=UTF-8'en'%c3%28"]
PART_TYPES = [None, None, 'text/plain', 'text/plain; charset=utf-8', 'text/plain; charset=iso-8859-1',
              'text/plain; charset=nosuch', 'text/plain; charset=undefined', 'text/plain; charset=idna',
              'application/octet-stream', 'multipart/mixed; boundary=inner', 'multipart/mixed', 'text/plain; charset=hex',
              'application/x-www-form-urlencoded', 'application/x-www-form-urlencoded; charset=nosuch', 'x', '',
              'text/plain; charset=utf-16', 'multipart/mixed; boundary=' + 'b' * 300, 'text/plain; charset="']
CONTENTS = [b'', b'value', b'caf\xc3\xa9', b'caf\xe9', b'\xff\xfe\x00', b'line1\r\nline2', b'a\n--B\nb', b'--', b'--x',
            b'\r\n', b'A' * 1200, b'A' * 70000, b'a=1&b=2', b'\x00', b'a..b', b'--inner\r\n\r\nx\r\n--inner--',
            b'--inner\r\nContent-Disposition: form-data; name="n"\r\n\r\nv\r\n--inner--\r\n']


def gen_multipart(rng, boundary):
    """A multipart body over `boundary` (bytes-as-latin-1 text), damaged with some probability."""
    b = boundary.encode('latin-1', 'replace')
    out = []
    if rng.random() < 0.15:
        out.append(pick(rng, [b'preamble\r\n', b'\r\n', b'--\r\n', b'x' * 200 + b'\r\n']))
    nparts = pick(rng, [100, 999, 1000, 1001]) if rng.random() < 0.015 else rng.choice([0, 1, 1, 2, 3])
    for _ in range(nparts):
        out.append(b'--' + b + pick(rng, [b'\r\n'] * 8 + [b'\n', b'  \r\n', b'\t\r\n']))
        hdrs = []
        r0 = rng.random()
        if r0 < 0.30:
            d = 'form-data; name="%s"' % pick(rng, ['a', 'b', 'a', 'key', 'self', 'n\xe4me'])      # a plain field
        elif r0 < 0.40:
            d = 'form-data; name="f"; filename="%s"' % pick(rng, ['x.txt', 'x.txt', '', 'a b.bin', '\xe9.txt', '../x', 'C:\\x'])
        elif r0 < 0.43:
            d = pick(rng, ['form-data; name=""a""', 'form-data; name="f"; filename=""x""'])
        else:
            d = pick(rng, DISPOSITIONS)
        if rng.random() < 0.3:
            d = sanitize(mutate(rng, d))
        if rng.random() < 0.92:
            hdrs.append(b'Content-Disposition: ' + d.encode('latin-1'))
        t = pick(rng, PART_TYPES)
        if t is not None:
            if rng.random() < 0.2:
                t = sanitize(mutate(rng, t))
            hdrs.append(b'Content-Type: ' + t.encode('latin-1'))
        if rng.random() < 0.12:
            hdrs.append(pick(rng, [b'Content-Length: 5', b'Content-Length: x', b'X-Y: z', b'Content-Transfer-Encoding: base64',
                                   b'Content-Length: ' + b'9' * 4400, b'Content-Type: text/plain',
                                   b'Content-Disposition: form-data; name="again"']))
        for h in hdrs:
            r = rng.random()
            if r < 0.80:
                out.append(h + b'\r\n')
            elif r < 0.84:
                out.append(h + b'\n')                        # bare LF
            elif r < 0.88:
                out.append(h.replace(b':', b'', 1) + b'\r\n')   # no colon
            elif r < 0.92:
                out.append(b' ' + h + b'\r\n')                 # continuation line first
            elif r < 0.95:
                out.append(h + b'\r\n\tcontinued\r\n')
            elif r < 0.97:
                out.append(h)                                 # no terminator at all
            else:
                out.append(h[:len(h) // 2] + b'\r\n')
        out.append(pick(rng, [b'\r\n'] * 10 + [b'\n', b'', b'\r\n\r\n']))
        out.append(pick(rng, CONTENTS))
        out.append(pick(rng, [b'\r\n'] * 10 + [b'\n', b'']))
    out.append(pick(rng, [b'--' + b + b'--\r\n'] * 8 + [b'--' + b + b'--', b'--' + b + b'\r\n', b'', b'--' + b + b'-\r\n',
                          b'--' + b + b'--  \r\n', b'--' + b + b'--\r\nepilogue']))
    body = b''.join(out)
    r = rng.random()
    if r < 0.15 and body:
        body = body[:rng.randrange(len(body))]          # truncated body
    elif r < 0.18:
        body = body.replace(b'\r\n', b'\n')
    elif r < 0.20:
        body = body + body
    return body.decode('latin-1')


BOUNDARIES = ['B', 'B', 'B', 'XyZ123', '----WebKitFormBoundary7MA4YWxk', '"B"', '"B', 'B"', '', ' ', 'B ', ' B', 'b' * 70,
              'b' * 201, 'b' * 202, 'b' * 300, 'B\xe9', 'a b', 'a;b', '"a;b"', 'B\x7f', '\t', '""', 'inner', "B'", '=']


def gen_ct_multipart(rng, sub='form-data'):
    bnd = pick(rng, BOUNDARIES)
    r = rng.random()
    if r < 0.8:
        ct = 'multipart/%s; boundary=%s' % (sub, bnd)
    elif r < 0.85:
        ct = 'multipart/%s' % sub
    elif r < 0.9:
        ct = 'multipart/%s; boundary' % sub
    elif r < 0.95:
        ct = 'multipart/%s; charset=%s; boundary=%s' % (sub, pick(rng, CHARSETS_BAD + CHARSETS_OK), bnd)
    else:
        ct = 'multipart/%s; boundary=%s; boundary=other' % (sub, bnd)
    return ct, bnd.strip('"')


# --------------------------------------------------------------------------------------------------
# header pool used on every target
# --------------------------------------------------------------------------------------------------
def gen_header(rng, name, ctx=None):
    if name == 'Range':
        return gen_range(rng)
    if name in ('If-Match', 'If-None-Match'):
        return gen_etag_list(rng)
    if name in ('If-Modified-Since', 'If-Unmodified-Since'):
        return pick(rng, HTTP_DATES)
    if name == 'If-Range':
        return pick(rng, HTTP_DATES + ['"abc"', 'W/"x"', '*'])
    if name in ('Accept', 'TE'):
        return gen_accept(rng, MEDIA if name == 'Accept' else ['trailers', 'deflate', 'chunked', 'x'])
    if name == 'Accept-Charset':
        return gen_accept(rng, CHARSET_VALUES)
    if name == 'Accept-Encoding':
        return gen_accept(rng, CODINGS)
    if name == 'Accept-Language':
        return gen_accept(rng, LANGS)
    if name == 'Cookie':
        return gen_cookie(rng)
    if name == 'Host':
        return gen_host(rng)
    if name == 'Cache-Control':
        return pick(rng, ['max-age=%d' % rng.randrange(100), 'max-age=0', 'no-cache', 'max-age', 'max-age=', 'max-age=x',
                          'max-age=-1', 'max-age=1.5', 'max-age=\xb2', 'max-age=' + '9' * 4400, 'no-store, max-age=5',
                          'max-age="5"', 'max-age=5, max-age=x', 'MAX-AGE=5', 'max-age =5', 'max-age=5;x', 'private',
                          'max-age=1_0', 'max-age= 5', 'only-if-cached', 'max-age=1,', 'max-age==', 'max-age=+5'])
    if name == 'Pragma':
        return pick(rng, ['no-cache', 'x', 'no-cache, x', '"', ''])
    if name == 'Content-Length':
        return pick(rng, ['0', '5', '100'] + NUMBERS_BAD)
    if name == 'Transfer-Encoding':
        return pick(rng, ['chunked', 'chunked', 'gzip, chunked', 'identity', 'x', ''])
    if name == 'Trailer':
        return pick(rng, ['X-T', 'Content-Length', ''])
    if name == 'Expect':
        return pick(rng, ['100-continue', 'x', ''])
    if name == 'Connection':
        return pick(rng, ['close', 'keep-alive', 'x'])
    if name == 'Referer':
        return pick(rng, ['http://www.example.com/x', 'http://evil/', '', 'x', 'http://[', '\xe9', 'http://www.example.com'])
    if name in ('X-Forwarded-For', 'X-Forwarded-Host', 'X-Forwarded-Proto', 'X-Forwarded-Ssl'):
        return pick(rng, ['1.2.3.4', '1.2.3.4, 5.6.7.8', '', ',', 'https', 'on', 'x://y', '[', 'a b', 'host:1', ', ,',
                          'http://[::1', '://', 'https://h/p?q#f', '\xe9'])
    if name == 'Content-Disposition':
        return pick(rng, DISPOSITIONS)
    if name == 'Content-Type':
        return gen_content_type(rng)
    if name == 'Authorization':
        return pick(rng, [gen_basic(rng), 'Digest x', 'Digest', 'Bearer abc', '', ' ', 'Digest username="a"',
                          'Negotiate \xe9'])
    return pick(rng, ['x', '', 'Mozilla/5.0 (X11)', 'a, b', '"q"', gen_encoded_word(rng), '\xe9\xff', 'a\x00b', '=?', '?='])


COMMON_HEADERS = ['Range', 'If-Match', 'If-None-Match', 'If-Modified-Since', 'If-Unmodified-Since', 'If-Range', 'Accept',
                  'Accept-Charset', 'Accept-Encoding', 'Accept-Language', 'Cookie', 'Cache-Control', 'Pragma', 'TE',
                  'Expect', 'Connection', 'Referer', 'X-Forwarded-For', 'X-Forwarded-Host', 'X-Forwarded-Proto',
                  'User-Agent', 'X-Custom', 'Content-Disposition', 'Authorization', 'From', 'Trailer', 'Via',
                  'X-Forwarded-Ssl', 'Content-Type', 'Content-Length', 'Transfer-Encoding', 'Origin', 'Upgrade']

TARGETS = ['plain', 'args', 'static', 'file', 'sess', 'fsess', 'cache', 'basic', 'digest', 'json', 'upload', 'form', 'neg',
           'etag', 'decode', 'proxy', 'autovary', 'referer', 'dir', 'rest', 'index', 'missing', 'redir', 'echo', 'tsx',
           'stream', 'combo', 'vhost', 'psub', 'szip', 'limit', 'lcache', 'raw']
# relevant elements per target: (header names always worth sending there)
RELEVANT = {
    'static': ['Range', 'If-Range', 'If-Modified-Since', 'If-Unmodified-Since', 'If-None-Match', 'If-Match',
               'Accept-Encoding'],
    'file': ['Range', 'If-Range', 'If-Modified-Since', 'If-Unmodified-Since', 'If-None-Match', 'Range', 'Range'],
    'sess': ['Cookie'], 'fsess': ['Cookie'],
    'cache': ['Cache-Control', 'Pragma', 'Accept-Encoding', 'Range', 'If-Modified-Since', 'If-None-Match'],
    'basic': [], 'digest': [], 'json': [], 'upload': [], 'form': [],
    'neg': ['Accept', 'Accept-Charset', 'Accept-Encoding', 'Accept', 'Accept-Charset', 'Accept-Encoding'],
    'etag': ['If-Match', 'If-None-Match', 'If-None-Match'],
    'decode': [], 'proxy': ['X-Forwarded-For', 'X-Forwarded-Host', 'X-Forwarded-Proto', 'X-Forwarded-Ssl', 'Host'],
    'autovary': ['Accept-Language'], 'referer': ['Referer', 'Referer'], 'dir': ['Host', 'X-Forwarded-Host'],
    'rest': [], 'plain': [], 'args': [], 'index': ['Host'], 'missing': [],
    'redir': ['Host', 'X-Next'], 'echo': ['Cookie', 'X-Custom', 'Referer', 'Accept-Language'], 'tsx': ['Host'],
    'stream': ['Range', 'Accept-Encoding', 'If-None-Match'],
    'combo': ['Cookie', 'Accept', 'Accept-Charset', 'Accept-Encoding', 'If-None-Match', 'If-Match', 'X-Forwarded-Host',
              'X-Ignore'],
    'vhost': ['Host', 'X-Forwarded-Host', 'Host'], 'psub': ['X-Forwarded-Host', 'X-Forwarded-Proto', 'X-Forwarded-For', 'Host'],
    'szip': ['Range', 'If-Range', 'If-Modified-Since', 'If-None-Match', 'Accept-Encoding', 'Accept-Charset'],
    'raw': [], 'limit': [], 'lcache': ['Cache-Control', 'If-Modified-Since', 'If-None-Match', 'If-Unmodified-Since', 'If-Match', 'Range'],
}
PATHS = {
    'plain': ['/plain', '/plain/x/y', '/plain/'], 'args': ['/args', '/args/1', '/args/1/2', '/args/1/2/3'],
    'static': ['/static/hello.txt', '/static/', '/static', '/static/missing.txt', '/static/../hello.txt',
               '/static/hello.txt/', '/static/%2e%2e/x', '/static/\x00', '/static/hello.txt\x00.jpg', '/static/\xe9',
               '/static/' + 'a' * 300, '/static//hello.txt', '/static/./hello.txt', '/static/hello.txt'],
    'file': ['/file', '/file/', '/file/x'],
    'sess': ['/sess'], 'fsess': ['/fsess'], 'cache': ['/cache', '/cache/a'], 'basic': ['/basic'], 'digest': ['/digest'],
    'json': ['/json'], 'upload': ['/upload'], 'form': ['/form'], 'neg': ['/neg'], 'etag': ['/etag'],
    'decode': ['/decode'], 'proxy': ['/proxy'], 'autovary': ['/autovary'], 'referer': ['/referer'],
    'dir': ['/dir', '/dir/', '/sub', '/sub/', '/sub/index'], 'rest': ['/rest', '/rest/', '/rest/x'],
    'index': ['/', '', '//', '/index', '/index/'],
    'redir': ['/redir', '/redir/x'], 'echo': ['/echo', '/echo/x'], 'tsx': ['/tsx', '/tsx/', '/tsx/x/', '/tsx/x/y//'],
    'limit': ['/limit'], 'lcache': ['/lcache', '/lcache/a'], 'raw': ['/raw'],
    'stream': ['/stream', '/gzstream', '/gzstream'], 'combo': ['/combo', '/combo/x', '/combo'], 'vhost': ['/vhost', '/vhost/', '/vhost/x'],
    'psub': ['/psub', '/psub/', '/osub'],
    'szip': ['/szip/hello.txt', '/szip/', '/szip', '/szip/index.html', '/szip/missing'],
    'missing': ['/nope', '/\xe9', '/a%00b', '/plain.txt', '/favicon.ico', '/robots.txt', '/_private', '/index/x/y',
                '/' + 'a/' * 200, '/\x00', '/..', '/../..', '/./', '/a;b', '/a?b', '/%', '/global_', '/default', '/*',
                '/plain\x7f', '/\xff\xfe', '/\xc3\x28'],
}
METHODS = ['GET', 'GET', 'GET', 'HEAD', 'HEAD', 'HEAD', 'POST', 'POST', 'PUT', 'DELETE', 'OPTIONS', 'PATCH', 'TRACE', 'get', 'FOO',
           'PROPFIND', 'M-SEARCH', 'CONNECT']


def gen_case(rng, target=None, digest_ctx=None):
    """One request case for `target` (mostly valid, with a malformed stream)."""
    target = target or pick(rng, TARGETS)
    path = pick(rng, PATHS[target])
    bodyful = target in ('json', 'upload', 'form', 'decode', 'limit', 'raw') or (target in ('plain', 'rest', 'args', 'basic', 'digest',
                                                                            'cache', 'sess', 'redir', 'echo', 'combo')
                                                               and rng.random() < 0.35)
    if bodyful:
        method = pick(rng, ['POST'] * 6 + ['PUT', 'PUT', 'PATCH', 'GET', 'DELETE', 'FOO'])
    else:
        method = pick(rng, METHODS)
    qs = sanitize(mutated(rng, gen_qs(rng), 0.35)) if rng.random() < 0.6 else ''
    if target == 'raw' and rng.random() < 0.8:
        qs = 'mode=' + pick(rng, ['lines', 'hint', 'line', 'file', 'read'])
    if rng.random() < 0.25 and target not in ('index', 'missing'):
        path = '/d' + path          # the same resource with every tool's debug switch on
    headers = []
    proto = pick(rng, ['HTTP/1.1'] * 3 + ['HTTP/1.0'] * 2)
    if rng.random() < 0.93:
        headers.append(['Host', 'localhost:8080' if rng.random() < 0.8 else gen_host(rng)])
    body = ''
    if method in ('POST', 'PUT', 'PATCH') or (bodyful and rng.random() < 0.5):
        kind = {'json': 'json', 'upload': 'multipart', 'form': 'urlencoded', 'decode': 'urlencoded', 'raw': 'raw'}.get(target) \
            or pick(rng, ['urlencoded', 'multipart', 'json', 'none', 'raw'])
        if rng.random() < 0.08:
            kind = pick(rng, ['urlencoded', 'multipart', 'json', 'raw', 'none'])
        ct = None
        if kind == 'urlencoded':
            body = gen_urlencoded(rng)
            ct = gen_content_type(rng, 'application/x-www-form-urlencoded')
        elif kind == 'multipart':
            ct, bnd = gen_ct_multipart(rng, pick(rng, ['form-data'] * 5 + ['mixed', 'related']))
            body = gen_multipart(rng, bnd if rng.random() < 0.93 else 'other')
        elif kind == 'json':
            body = gen_json(rng)
            ct = gen_content_type(rng, pick(rng, ['application/json'] * 4 + ['text/javascript', 'application/json-x']))
        elif kind == 'raw':
            body = pick(rng, ['', 'raw bytes \xff\x00', 'a=1', 'line1\nline2\r\nline3', '\n' * 40, 'x' * 70000, 'no newline at all'])
            ct = gen_content_type(rng, pick(rng, ['text/plain', 'application/octet-stream', 'text/xml', 'x', None]))
        if ct is not None and rng.random() < 0.95:
            headers.append(['Content-Type', sanitize(mutated(rng, ct, 0.25))])
        # message framing: exact length, wrong length, none, chunked (server has de-chunked the body)
        r = rng.random()
        n = len(body)
        if r < 0.72:
            headers.append(['Content-Length', str(n)])
        elif r < 0.80:
            headers.append(['Content-Length', str(pick(rng, [n + 1, n + 100, max(0, n - 1), n // 2, 0, 10 ** 12]))])
        elif r < 0.86:
            headers.append(['Content-Length', pick(rng, NUMBERS_BAD)])
        elif r < 0.93:
            headers.append(['Transfer-Encoding', 'chunked'])
            if rng.random() < 0.3:
                headers.append(['Content-Length', pick(rng, [str(n), 'x'])])
        # else: no framing header at all -> 411
    # target-specific credentials
    if target == 'basic' and rng.random() < 0.9:
        headers.append(['Authorization', sanitize(mutated(rng, gen_basic(rng), 0.3))])
    if target == 'digest' and rng.random() < 0.92:
        uri = path + ('?' + qs if qs else '')
        d = gen_digest(rng, method, uri, (digest_ctx or {}).get('realm', 'realm'),
                       (digest_ctx or {}).get('key', 'k'), (digest_ctx or {}).get('now'))
        headers.append(['Authorization', sanitize(mutated(rng, d, 0.25))])
    # relevant elements, then a few from the common pool
    rel = RELEVANT.get(target, [])
    for name in rel:
        if rng.random() < (0.75 / max(1, len(rel) ** 0.5)):
            headers.append([name, sanitize(mutated(rng, gen_header(rng, name)))])
    for _ in range(rng.choice([0, 0, 1, 1, 2, 3])):
        name = pick(rng, COMMON_HEADERS)
        if name in ('Content-Length', 'Transfer-Encoding', 'Content-Type') and any(h[0] == name for h in headers) \
                and rng.random() < 0.7:
            continue
        headers.append([name, sanitize(mutated(rng, gen_header(rng, name)))])
    if rng.random() < 0.04:
        # any header may carry an RFC 2047 encoded word
        h = pick(rng, headers) if headers else None
        if h is not None and h[0] not in ('Host',):
            h[1] = sanitize(mutate(rng, h[1], 'encword'))
    if rng.random() < 0.05 and headers:
        headers.append(list(pick(rng, headers)))     # duplicated header line
    headers = [[k, sanitize(v).strip(' \t')] for k, v in headers]
    qs = sanitize(qs)
    return {'target': target, 'method': method, 'path': sanitize(path), 'qs': qs, 'proto': proto, 'headers': headers,
            'body': body}


# ==================================================================================================
# round 2: systematic cross streams.  Each generator returns a list of cases; a case may carry
#   'pre'    : earlier requests of the same client (run first, in the same process; what their responses tell the
#              client - digest challenge, session id, validators - fills the {{placeholders}} of the case),
#   'digest' : a Digest Authorization spec, computed like a client does from the challenge of the `pre` step,
#   'clock'  : seconds the server clock advances between the last `pre` step and the case,
#   a header item [name, value, 'b'|'q'] : the value travels as one RFC 2047 encoded word (utf-8, base64 | Q).
# ==================================================================================================
PROTOS = ['HTTP/1.1', 'HTTP/1.0']

# texts that leave ISO-8859-1 once the framework has decoded them (raw UTF-8 in the request line, RFC 2047 in headers)
WIDE = ['\u20ac', '\u043a\u043b\u044e\u0447', '\u65e5\u672c', '\U0001f600', '\xe9\u20ac', 'a\u0301', '\u2028', '\ufeff',
        '\u0663', '\u0130', '\uff15', '\u0100',
        # lone surrogates: reachable through `=?utf-7?q?+2AA-?=`; text nothing can be encoded from again
        '\ud800', 'a\udfffb']


def wire(text):
    """UTF-8 bytes of `text` the way a WSGI server presents request-line bytes (one code point per byte)."""
    return text.encode('utf-8', 'surrogatepass').decode('latin-1')


def word(text, enc='b', charset='utf-8'):
    """`text` as one RFC 2047 encoded word.  Text with lone surrogates travels as utf-7 (a codec that decodes to
    them; unicode_escape and raw_unicode_escape do as well)."""
    if any(0xD800 <= ord(c) <= 0xDFFF for c in text) and charset == 'utf-8':
        charset = 'utf-7'
    if enc == '7':
        enc, charset = 'q', 'utf-7'
    elif enc == 'e':
        enc, charset = 'q', 'unicode_escape'
    raw = text.encode(charset, 'replace')
    if enc == 'q':
        body = ''.join(chr(b) if (48 <= b <= 57 or 65 <= b <= 90 or 97 <= b <= 122) else '=%02X' % b for b in raw)
    else:
        body = base64.b64encode(raw).decode('ascii')
    return '=?%s?%s?%s?=' % (charset, enc, body)


# byte classes a field value is driven through ({{orig}} = the well-formed value of that field)
BYTE_CLASSES = [
    ('empty', ''), ('ascii', 'zz'), ('latin1', '\xe9' * 32), ('latin1-tail', '{{orig}}\xe9'), ('latin1-ff', '\xff'),
    ('utf8', 'd\xc3\xa9j\xc3\xa0'), ('utf8-tail', '{{orig}}\xe2\x82\xac'), ('utf8-astral', '\xf0\x9f\x98\x80'),
    ('utf8-bad', '{{orig}}\xc3\x28'), ('ctl-head', '\x01{{orig}}'), ('ctl-del', '{{orig}}\x7f'), ('tab', '\t'),
    ('nul', '{{orig}}\x00'), ('c1', '\x85{{orig}}\xa0'), ('long', '{{orig}}' * 300), ('huge', 'A' * 70000),
    ('quote-in', '{{orig}}"x'), ('backslash', '{{orig}}\\'), ('comma', '{{orig}},x=y'), ('equals', '{{orig}}='),
    ('spaces', ' {{orig}} '), ('upper', '{{ORIG}}'), ('pct', '%00{{orig}}%ff'), ('encword', '=?utf-8?b?4oKs?='),
    ('encword-bad', '{{orig}}=?x?b?!?='), ('digits-wide', '\xd9\xa3'), ('semicolon', '{{orig}};a=b'),
]
QUOTE_STYLES = ['q', 'n', 'open', 'close', 'single', 'bs', 'sp', 'noeq', 'dq2']
DIGEST_PARAMS = ['username', 'realm', 'nonce', 'uri', 'response', 'algorithm', 'qop', 'nc', 'cnonce', 'opaque', 'method',
                 'foo']
DIGEST_QUOTED = {'username', 'realm', 'nonce', 'uri', 'response', 'cnonce', 'opaque', 'foo'}


def _server_view(v):
    """How auth_digest reads a header text: the Latin-1 code points as UTF-8 bytes, else as they are."""
    try:
        return v.encode('latin-1').decode('utf-8')
    except UnicodeError:
        return v


def _fmt(k, v, style):
    if style == 'q':
        return '%s="%s"' % (k, v)
    if style == 'n':
        return '%s=%s' % (k, v)
    if style == 'open':
        return '%s="%s' % (k, v)
    if style == 'close':
        return '%s=%s"' % (k, v)
    if style == 'single':
        return "%s='%s'" % (k, v)
    if style == 'bs':
        return '%s="%s\\"' % (k, v)
    if style == 'sp':
        return '%s = "%s"' % (k, v)
    if style == 'noeq':
        return '%s "%s"' % (k, v)
    if style == 'dq2':
        return '%s=""%s""' % (k, v)
    return '%s="%s"' % (k, v)


def build_digest(spec, caps, method, uri):
    """The Authorization header a client computes from the server's challenge (`caps`), then the spec's
    per-field overrides / quoting styles.  Pure function of its arguments (replayable)."""
    user, pw = spec.get('user', 'user'), spec.get('pw', 'pw')
    qop, alg = spec.get('qop'), spec.get('alg')
    vals = {'username': user, 'realm': caps.get('realm', 'realm'), 'nonce': caps.get('nonce', ''),
            'uri': spec.get('uri') or uri, 'algorithm': alg, 'qop': qop,
            'nc': spec.get('nc', '00000001') if qop else None,
            'cnonce': spec.get('cnonce', '0a4f113b') if qop else None,
            'opaque': caps.get('opaque') or None, 'method': None, 'foo': None, 'response': None}
    over = spec.get('set') or {}

    def tmpl(t, orig):
        orig = orig or ''
        return t.replace('{{orig}}', orig).replace('{{ORIG}}', orig.upper())
    for k, t in over.items():
        if k != 'response':
            vals[k] = None if t is None else tmpl(t, vals.get(k))
    sv = {k: (None if v is None else _server_view(v)) for k, v in vals.items()}
    ha1 = md5hex('%s:%s:%s' % (sv['username'], sv['realm'], pw))
    if (sv['algorithm'] or '').upper() == 'MD5-SESS':
        ha1 = md5hex('%s:%s:%s' % (ha1, sv['nonce'], sv['cnonce']))
    if sv['qop'] == 'auth-int':
        ha2 = md5hex('%s:%s:%s' % (method, sv['uri'], md5hex('')))
    else:
        ha2 = md5hex('%s:%s' % (method, sv['uri']))
    if sv['qop']:
        resp = md5hex('%s:%s:%s:%s:%s:%s' % (ha1, sv['nonce'], sv['nc'], sv['cnonce'], sv['qop'], ha2))
    else:
        resp = md5hex('%s:%s:%s' % (ha1, sv['nonce'], ha2))
    vals['response'] = resp
    if 'response' in over:
        vals['response'] = None if over['response'] is None else tmpl(over['response'], resp)
    styles = spec.get('quote') or {}
    order = spec.get('order') or ['username', 'realm', 'nonce', 'uri', 'response', 'algorithm', 'qop', 'nc', 'cnonce',
                                  'opaque', 'method', 'foo']
    items = []
    for k in order:
        v = vals.get(k)
        if v is None:
            continue
        items.append(_fmt(k, v, styles.get(k) or ('q' if k in DIGEST_QUOTED else 'n')))
    for k in spec.get('dup') or []:
        if vals.get(k) is not None:
            items.append(_fmt(k, vals[k], 'q' if k in DIGEST_QUOTED else 'n'))
    hdr = spec.get('scheme', 'Digest ') + spec.get('sep', ', ').join(items) + spec.get('tail', '')
    if spec.get('wire') == 'utf8':
        try:
            hdr = hdr.encode('utf-8', 'surrogatepass').decode('latin-1')
        except UnicodeError:
            pass
    if spec.get('word'):
        hdr = word(_server_view(hdr), spec['word'])
    return hdr


def _base(target, method, path, proto, headers=None, qs='', body=''):
    hs = [['Host', 'localhost:8080']] + [list(h) for h in (headers or [])]
    if body or method in ('POST', 'PUT'):
        if not any(h[0] == 'Content-Type' for h in hs):
            hs.append(['Content-Type', 'application/x-www-form-urlencoded'])
        hs.append(['Content-Length', str(len(body))])
    return {'target': target, 'method': method, 'path': path, 'qs': qs, 'proto': proto, 'headers': hs, 'body': body}


def _get(path, qs='', headers=None, proto='HTTP/1.1'):
    return {'method': 'GET', 'path': path, 'qs': qs, 'proto': proto,
            'headers': [['Host', 'localhost:8080']] + [list(h) for h in (headers or [])], 'body': ''}


# ---- digest auth: the second step of the handshake ------------------------------------------------
def digest_cases(rng, extra=120):
    """Genuine nonce (from the 401 challenge of the `pre` step) + a known user, then EVERY parameter of the header
    through every byte class and every quoting style; qop / algorithm / password / method / protocol vary."""
    out = []

    def one(spec, paths=('/digest',)):
        method = pick(rng, ['GET', 'GET', 'HEAD', 'POST', 'PUT', 'DELETE'])
        path = pick(rng, list(paths))
        qs = pick(rng, ['', '', 'a=1', 'q=' + wire('\u20ac')])
        body = 'a=1' if method in ('POST', 'PUT') and rng.random() < 0.7 else ''
        c = _base('digest2', method, path, pick(rng, PROTOS), qs=qs, body=body)
        c['pre'] = [_get(path, proto=pick(rng, PROTOS))]
        c['digest'] = spec
        if rng.random() < 0.08:
            c['clock'] = pick(rng, [599, 601, 10 ** 6])
        return c

    def base_spec():
        user, pw = pick(rng, [('user', 'pw'), ('user', 'pw'), ('user', 'wrong'), ('jos\xe9', 'se\xf1a')])
        s = {'user': user, 'pw': pw, 'qop': pick(rng, ['auth', 'auth', 'auth', None, None, None, None, 'auth-int']),
             'alg': pick(rng, ['MD5', None, 'MD5-sess', 'md5']), 'wire': pick(rng, ['latin1', 'latin1', 'utf8'])}
        return s
    for p in DIGEST_PARAMS:
        for name, t in BYTE_CLASSES:
            s = base_spec()
            s['set'] = {p: t}
            if name in ('quote-in', 'backslash', 'comma', 'spaces', 'semicolon') and p not in DIGEST_QUOTED and rng.random() < 0.5:
                s['quote'] = {p: 'q'}
            out.append(one(s))
        for q in QUOTE_STYLES:
            s = base_spec()
            s['quote'] = {p: q}
            if p in ('method', 'foo'):
                s['set'] = {p: 'x'}
            out.append(one(s))
        s = base_spec()
        s['set'] = {p: None}
        out.append(one(s))
        s = base_spec()
        s['dup'] = [p]
        out.append(one(s))
    for _ in range(extra):
        s = base_spec()
        s['set'] = {}
        for _i in range(rng.choice([0, 1, 2, 3])):
            s['set'][pick(rng, DIGEST_PARAMS)] = pick(rng, BYTE_CLASSES)[1]
        if rng.random() < 0.3:
            s['quote'] = {pick(rng, DIGEST_PARAMS): pick(rng, QUOTE_STYLES)}
        if rng.random() < 0.3:
            order = list(DIGEST_PARAMS)
            rng.shuffle(order)
            s['order'] = order
        if rng.random() < 0.3:
            s['scheme'] = pick(rng, ['digest ', 'DIGEST ', 'Digest  ', 'Digest\t', 'Digest ,'])
        if rng.random() < 0.3:
            s['sep'] = pick(rng, [',', ' , ', ',,', ';', ' ', ',\t'])
        if rng.random() < 0.2:
            s['tail'] = pick(rng, [',', ', ', ' ', '"', ', =', ', x', '\xe9'])
        if rng.random() < 0.15:
            s['word'] = pick(rng, ['b', 'q'])
            if rng.random() < 0.5:
                s['user'] = pick(rng, WIDE)
        out.append(one(s, paths=('/digest', '/digest/x')))
    return out


def basic_cases(rng):
    """Basic credentials: user-id / password / the base64 text through every byte class, both protocols."""
    out = []
    for name, t in BYTE_CLASSES:
        for part in ('user', 'pw', 'b64', 'pair'):
            user, pw = 'user', 'pw'
            if part == 'user':
                user = t.replace('{{orig}}', 'user').replace('{{ORIG}}', 'USER')
            elif part == 'pw':
                pw = t.replace('{{orig}}', 'pw').replace('{{ORIG}}', 'PW')
            raw = (user + ':' + pw).encode('latin-1', 'replace')
            if part == 'pair':
                raw = t.replace('{{orig}}', 'user:pw').replace('{{ORIG}}', 'USER:PW').encode('latin-1', 'replace')
            b64 = base64.b64encode(raw).decode('ascii')
            if part == 'b64':
                b64 = t.replace('{{orig}}', 'dXNlcjpwdw==').replace('{{ORIG}}', 'DXNLCJPWDW==')
            if len(b64) > 20000 and name != 'huge':
                continue
            method = pick(rng, ['GET', 'HEAD', 'POST'])
            c = _base('basic2', method, '/basic', pick(rng, PROTOS), [['Authorization', sanitize('Basic ' + b64)]])
            out.append(c)
    for w in WIDE:
        for enc in ('b', 'q'):
            b64 = base64.b64encode(('user:' + w).encode('utf-8', 'surrogatepass')).decode('ascii')
            out.append(_base('basic2', 'GET', '/basic', pick(rng, PROTOS), [['Authorization', 'Basic ' + b64]]))
            out.append(_base('basic2', 'GET', '/basic', pick(rng, PROTOS), [['Authorization', 'Basic ' + w, enc]]))
    return out


# ---- sessions with presented ids ---------------------------------------------------------------------
SID_TEMPLATES = ['session_id={{sid}}', 'session_id="{{sid}}"', 'session_id={{sid}}; session_id=x',
                 'session_id=x; session_id={{sid}}', 'a=b; session_id={{sid}}; c=d', 'session_id={{sid}}\xe9',
                 'session_id={{sid}}/../x', 'session_id=../{{sid}}', 'session_id={{sid}}/../../x',
                 'session_id="{{sid}}\\000"', 'session_id="{{sid}}\\057..\\057..\\057x"', 'session_id="\\000{{sid}}"',
                 'session_id="{{sid}}\\012"', 'session_id="{{sid}}\\351"',
                 'session_id="{{sid}}/../../{{sid}}"', 'session_id=x/../../session-{{sid}}', 'session_id={{sid}} ', 'SESSION_ID={{sid}}',
                 '$Version=1; session_id={{sid}}; $Path=/', 'session_id={{sid}}{{sid}}', 'session_id={{sid}}\x00',
                 'session_id={{sid}}.lock', 'session_id=session-{{sid}}', 'session_id={{sid}}; bad name=1',
                 'session_id={{sid}}, x=y', 'session_id={{sid}}; \xe9=1', 'session_id=%s' % ('{{sid}}' * 40),
                 'session_id={{sid}}\\', "session_id='{{sid}}'", 'session_id={{sid}};', ';session_id={{sid}}',
                 'session_id=={{sid}}', 'session_id={{sid}}; expires=x; path=/; secure', 'session_id={{sid}}\t']


def session_cases(rng):
    out = []
    for path in ('/sess', '/fsess', '/combo'):
        for t in SID_TEMPLATES:
            for proto in PROTOS:
                method = pick(rng, ['GET', 'GET', 'HEAD', 'POST', 'DELETE'])
                c = _base('sess2', method, path, proto, [['Cookie', t]],
                          qs='regen=1' if (path == '/combo' and rng.random() < 0.4) else '')
                c['pre'] = [_get(path, proto=pick(rng, PROTOS))]
                if rng.random() < 0.3:      # a second visit with the genuine id before the malformed one
                    c['pre'].append(_get(path, headers=[['Cookie', 'session_id={{sid}}']]))
                out.append(c)
        for w in WIDE[:6]:
            for enc in ('b', 'q'):
                c = _base('sess2', 'GET', path, pick(rng, PROTOS), [['Cookie', 'session_id={{sid}}; a=' + w, enc]])
                c['pre'] = [_get(path)]
                out.append(c)
                out.append(_base('sess2', 'GET', path, pick(rng, PROTOS), [['Cookie', 'session_id=' + w, enc]]))
    return out


# ---- caching with cached entries, conditional headers against existing validators -----------------------
COND_TEMPLATES = {
    'If-Match': ['{{etag}}', '*', '"x", {{etag}}', '{{etagbare}}', 'W/{{etag}}', '{{etag}}\xe9', '{{etag}},', ',{{etag}}',
                 '"{{etagbare}}', '{{etagbare}}"', '{{etag}}; q=1', '{{etag}} {{etag}}', '"\xe9"', '', '**', '"*"',
                 '{{etag}}\x00', '"a,b", {{etag}}', '{{etag}}' * 200, "'{{etagbare}}'", '\\{{etag}}'],
    'If-Modified-Since': ['{{lastmod}}', '{{lastmod}}x', ' {{lastmod}}', '{{lastmod}}; length=5', 'x{{lastmod}}',
                          '{{lastmod}}\xe9', '"{{lastmod}}"', '{{lastmod}}, {{lastmod}}', 'Thu, 01 Jan 2099 00:00:00 GMT',
                          'Sun, 99 Nov 1994 08:49:37 GMT', 'Sun, 06 Nov 99999999999 08:49:37 GMT', '0', '-1', '', '\xb2',
                          'Sun, 06 Nov 1994 25:61:61 GMT', 'Sun, 06 Nov 1994 08:49:37 +9999', '1' * 5000, '\x00'],
}
COND_TEMPLATES['If-None-Match'] = COND_TEMPLATES['If-Match']
COND_TEMPLATES['If-Unmodified-Since'] = COND_TEMPLATES['If-Modified-Since']
COND_TEMPLATES['If-Range'] = COND_TEMPLATES['If-Modified-Since'][:8] + COND_TEMPLATES['If-Match'][:8]


def conditional_cases(rng):
    out = []
    for path, target in (('/etag', 'etag'), ('/file', 'file'), ('/static/hello.txt', 'static'), ('/combo', 'combo'),
                         ('/cache/c', 'cache'), ('/lcache', 'lcache')):
        for name, ts in COND_TEMPLATES.items():
            for t in ts:
                method = pick(rng, ['GET', 'GET', 'HEAD', 'POST', 'PUT', 'DELETE'])
                hs = [[name, t]]
                if name == 'If-Range' or rng.random() < 0.25:
                    hs.append(['Range', sanitize(mutated(rng, gen_range(rng), 0.4))])
                if rng.random() < 0.2:
                    other = pick(rng, list(COND_TEMPLATES))
                    hs.append([other, pick(rng, COND_TEMPLATES[other])])
                c = _base('cond2', method, path, pick(rng, PROTOS), hs)
                c['pre'] = [_get(path)]
                if 'cache' in path:
                    c['pre'].append(_get(path))       # the second visit is served from the cache
                out.append(c)
        for name in COND_TEMPLATES:
            for w in (WIDE[0], WIDE[8], WIDE[10]):
                c = _base('cond2', 'GET', path, pick(rng, PROTOS), [[name, '{{etag}}' + w, pick(rng, ['b', 'q'])]])
                c['pre'] = [_get(path)]
                out.append(c)
    return out


def cache_cases(rng, n=250):
    """A cached entry exists (the `pre` GET, maybe with the request headers the variant is keyed on); then the
    malformed stream of headers caching looks at, over methods and protocols."""
    out = []
    names = ['Cache-Control', 'Pragma', 'Accept-Encoding', 'Range', 'If-Modified-Since', 'If-None-Match', 'If-Match',
             'If-Unmodified-Since', 'Cookie', 'Accept', 'Content-Length']
    for _ in range(n):
        path = pick(rng, ['/cache', '/cache/a', '/cache/b'])
        qs = pick(rng, ['', '', 'a=1', 'q=' + wire('\u20ac')])
        pre_h = [['Accept-Encoding', 'gzip']] if rng.random() < 0.3 else []
        hs = []
        for _i in range(rng.choice([1, 1, 2, 3])):
            nm = pick(rng, names)
            hs.append([nm, sanitize(mutated(rng, gen_header(rng, nm), 0.6))])
        method = pick(rng, ['GET', 'GET', 'GET', 'HEAD', 'HEAD', 'POST', 'PUT', 'DELETE', 'OPTIONS'])
        c = _base('cache2', method, path, pick(rng, PROTOS), hs, qs=qs)
        c['pre'] = [_get(path, qs, pre_h, pick(rng, PROTOS))]
        if rng.random() < 0.2:
            c['pre'].append({'method': pick(rng, ['POST', 'PUT', 'DELETE']), 'path': path, 'qs': qs, 'proto': 'HTTP/1.1',
                             'headers': [['Host', 'localhost:8080'], ['Content-Length', '0']], 'body': ''})
            c['pre'].append(_get(path, qs))
        out.append(c)
    return out


# ---- resources that reflect request data into response headers x protocol x method x data beyond U+00FF ------
REFLECTORS = [('/sub', 'tslash'), ('/psub', 'tslash-proxy'), ('/osub', 'tslash-origin'), ('/tsx/x/', 'tslash-extra'),
              ('/redir', 'redirect'), ('/echo', 'echo'), ('/static', 'staticdir'), ('/combo', 'combo'),
              ('/vhost', 'vhost'), ('/sess', 'sess'), ('/proxy', 'proxy'), ('', 'root'), ('/rest', 'rest'),
              ('/stream', 'stream'), ('/gzstream', 'gzstream'), ('/neg', 'neg'), ('/cache/r', 'cache'), ('/json', 'json'), ('/etag', 'etag')]


REFLECT_SOURCES = ['qs-value', 'qs-key', 'qs-bare', 'path', 'host-b', 'host-q', 'host-raw', 'xfh', 'xfh-raw', 'origin',
                   'xfproto', 'xff', 'cookie', 'hdr', 'next', 'body']


def reflect_case(rng, path, kind, proto, src, method, w):
    hs, qs, p, body = [], '', path, ''
    nohost = False
    if src == 'qs-value':
        qs = pick(rng, ['q=', 'to=', 'a=1&to=']) + wire(w)
    elif src == 'qs-key':
        qs = wire(w) + '=1'
    elif src == 'qs-bare':
        qs = wire(w)
    elif src == 'path':
        p = path.rstrip('/') + '/' + wire(w) + ('/' if path.endswith('/') else '')
    elif src in ('host-b', 'host-q'):
        hs.append(['Host', w + '.example', src[-1]])
        nohost = True
    elif src == 'host-raw':
        hs.append(['Host', wire(w) + '.example'])
        nohost = True
    elif src == 'xfh':
        hs.append(['X-Forwarded-Host', w + '.example', pick(rng, ['b', 'q'])])
    elif src == 'xfh-raw':
        hs.append(['X-Forwarded-Host', wire(w)])
    elif src == 'origin':
        hs.append(['Origin', 'http://' + w, pick(rng, ['b', 'q'])])
    elif src == 'xfproto':
        hs.append(['X-Forwarded-Proto', 'http' + w, pick(rng, ['b', 'q'])])
    elif src == 'xff':
        hs.append(['X-Forwarded-For', w, pick(rng, ['b', 'q'])])
    elif src == 'cookie':
        hs.append(['Cookie', pick(rng, ['session_id=', 'a=', '']) + w, pick(rng, ['b', 'q'])])
    elif src == 'hdr':
        hs.append([pick(rng, ['X-Custom', 'User-Agent', 'Referer', 'Accept-Language', 'From']), w, pick(rng, ['b', 'q'])])
    elif src == 'next':
        hs.append(['X-Next', w, pick(rng, ['b', 'q'])])
    elif src == 'body':
        method = 'POST'
        body = pick(rng, ['to=', 'q=', '']) + ''.join('%%%02X' % b for b in w.encode('utf-8', 'surrogatepass'))
    c = _base('reflect:' + kind, method, p, proto, hs, qs=qs, body=body)
    if nohost:
        c['headers'] = c['headers'][1:]
    return c


def reflect_cases(rng, repeats=2):
    """Every reflecting resource x protocol x source of text beyond U+00FF, `repeats` times with a random method
    (GET / HEAD / POST) and a random text; repeats >= 36 enumerates methods x texts instead."""
    out = []
    for path, kind in REFLECTORS:
        for proto in PROTOS:
            for src in REFLECT_SOURCES:
                if repeats >= 36:
                    for method in ('GET', 'HEAD', 'POST'):
                        for w in WIDE:
                            out.append(reflect_case(rng, path, kind, proto, src, method, w))
                else:
                    for _ in range(repeats):
                        out.append(reflect_case(rng, path, kind, proto, src, pick(rng, ['GET', 'GET', 'HEAD', 'POST']),
                                                pick(rng, WIDE)))
    return out


# ---- RFC 2047 words in every header a tool consumes ----------------------------------------------------
CONSUMED = {
    'Range': (['/file', '/static/hello.txt', '/cache/e'], ['bytes=0-5', 'bytes=-3', 'bytes=2-']),
    'If-Range': (['/file'], ['"x"', 'Sun, 06 Nov 1994 08:49:37 GMT']),
    'If-Match': (['/etag', '/combo'], ['"x"', '*']),
    'If-None-Match': (['/etag', '/static/hello.txt', '/combo', '/gzstream'], ['"x"', '*']),
    'If-Modified-Since': (['/file', '/static/hello.txt'], ['Sun, 06 Nov 1994 08:49:37 GMT']),
    'If-Unmodified-Since': (['/file'], ['Sun, 06 Nov 1994 08:49:37 GMT']),
    'Accept': (['/acc', '/neg', '/combo'], ['text/html;q=0.5', 'text/*', '*/*;q=0.1']),
    'Accept-Charset': (['/neg', '/combo'], ['utf-8;q=0.5', 'iso-8859-1', '*;q=0.1']),
    'Accept-Encoding': (['/gz', '/neg', '/combo', '/static/hello.txt', '/gzstream'], ['gzip;q=0.5', 'identity;q=0', '*']),
    'Accept-Language': (['/autovary', '/combo'], ['en;q=0.5']),
    'Cookie': (['/sess', '/fsess', '/combo', '/echo'], ['session_id=abc', 'a=b; c=d']),
    'Host': (['/sub', '/psub', '/vhost', '/proxy', '/plain'], ['localhost:8080', 'one.example']),
    'X-Forwarded-Host': (['/proxy', '/psub', '/combo', '/vhost'], ['one.example', 'a.example, b.example']),
    'X-Forwarded-For': (['/proxy', '/psub'], ['1.2.3.4', '1.2.3.4, 5.6.7.8']),
    'X-Forwarded-Proto': (['/proxy', '/psub'], ['https']),
    'X-Forwarded-Ssl': (['/osub'], ['on']),
    'Origin': (['/osub'], ['http://one.example']),
    'Authorization': (['/basic', '/digest'], ['Basic dXNlcjpwdw==', 'Digest username="user", realm="realm", nonce="1:x", '
                                             'uri="/digest", response="x"']),
    'Content-Type': (['/form', '/upload', '/json', '/decode', '/plain'],
                     ['application/x-www-form-urlencoded; charset=utf-8', 'multipart/form-data; boundary=B',
                      'application/json', 'text/plain; charset=iso-8859-1']),
    'Content-Length': (['/form', '/json', '/plain'], ['3']),
    'Content-Disposition': (['/plain', '/upload'], ['form-data; name="a"; filename="x"', "form-data; filename*=utf-8''a"]),
    'Cache-Control': (['/cache/e'], ['max-age=5', 'no-cache']),
    'Pragma': (['/cache/e'], ['no-cache']),
    'Referer': (['/referer'], ['http://www.example.com/x']),
    'Transfer-Encoding': (['/form', '/plain'], ['chunked']),
    'Expect': (['/form'], ['100-continue']),
    'Connection': (['/plain'], ['close']),
    'Content-Encoding': (['/decode', '/form'], ['gzip']),
    'X-Ignore': (['/combo'], ['x']),
}
WIDE_DIGITS = ['\u0663', '\uff15', '\u0969']


def encword_cases(rng):
    out = []
    for name, (paths, values) in sorted(CONSUMED.items()):
        for path in paths:
            for v in values:
                variants = [v, v + WIDE[0], WIDE[1], v.replace('5', WIDE_DIGITS[1]).replace('3', WIDE_DIGITS[0]),
                            pick(rng, WIDE) + v, v[:len(v) // 2] + pick(rng, WIDE) + v[len(v) // 2:],
                            v.replace('=', '=' + pick(rng, WIDE), 1), v + '\u2028', v.upper() + '\u0130']
                for t in variants:
                    bodyful = name.startswith('Content-') or name in ('Transfer-Encoding', 'Expect')
                    method = 'POST' if bodyful else pick(rng, ['GET', 'GET', 'HEAD'])
                    body = 'a=1' if method == 'POST' else ''
                    hs = [[name, t, pick(rng, ['b', 'q'])]]
                    c = _base('encword:' + name, method, path, pick(rng, PROTOS), hs, body=body)
                    if name == 'Host':
                        c['headers'] = c['headers'][1:]
                    if name == 'Content-Type':
                        c['headers'] = [h for h in c['headers'] if h[0] != 'Content-Type' or len(h) == 3]
                    if name == 'Content-Length':
                        c['headers'] = [h for h in c['headers'] if h[0] != 'Content-Length' or len(h) == 3]
                    if path.startswith('/cache'):
                        c['pre'] = [_get(path)]
                    out.append(c)
    return out


def debug_twins(rng, cases, p=0.3):
    """Send a share of the cases to the /d twin of the resource (every tool with debug on)."""
    for c in cases:
        if c['path'].startswith('/') and not c['path'].startswith('/d/') and len(c['path']) > 1 and rng.random() < p:
            c['path'] = '/d' + c['path']
            for st in c.get('pre') or []:
                st['path'] = '/d' + st['path']
            c['target'] = c['target'] + ':debug' if ':' not in c['target'] else c['target']
    return cases


# ---- dispatch: fixed-signature handlers x path atoms x query / body parameter sets ---------------------------
def dispatch_cases(rng, n=400):
    out = []
    handlers = ['/args', '/noargs', '/kwonly', '/obj', '/rest', '/json', '/stream', '/sub', '/sub/index']
    keysets = [[], ['a'], ['a', 'b'], ['a', 'a'], ['zz'], ['a', 'zz'], ['b'], ['k'], ['a', 'k', 'k'], ['a', 'b', 'k', 'zz'],
               ['a[]'], ['self'], ['\xc3\xa9'], ['']]
    for _ in range(n):
        h = pick(rng, handlers)
        path = h + ''.join('/' + pick(rng, ['1', 'x', '', '%20', 'a=b']) for _i in range(rng.choice([0, 0, 1, 1, 2, 3])))
        qs = '&'.join('%s=%d' % (k, i) for i, k in enumerate(pick(rng, keysets)))
        method = pick(rng, ['GET', 'GET', 'HEAD', 'POST', 'POST', 'PUT', 'DELETE'])
        body = ''
        hs = []
        if method in ('POST', 'PUT'):
            kind = rng.random()
            keys = pick(rng, keysets)
            if kind < 0.6:
                body = '&'.join('%s=%d' % (k, i) for i, k in enumerate(keys))
            elif kind < 0.85:
                hs.append(['Content-Type', 'multipart/form-data; boundary=B'])
                body = ''.join('--B\r\nContent-Disposition: form-data; name="%s"%s\r\n\r\nv\r\n'
                               % (k, pick(rng, ['', '', '; filename="f.txt"'])) for k in keys) + '--B--\r\n'
            else:
                hs.append(['Content-Type', 'application/json'])
                body = '{"a": 1}'
        out.append(_base('dispatch', method, path, pick(rng, PROTOS), hs, qs=qs, body=body))
    return out


# ---- bodies read through the server's own reader objects (cheroot): chunked framing, trailers, size limit ------
def chunk_encode(rng, data):
    """`data` (bytes) in chunked transfer coding, chunk boundaries chosen at random."""
    out, i = [], 0
    while i < len(data):
        n = rng.choice([1, 2, 3, 7, 16, 100, 5000])
        piece = data[i:i + n]
        out.append(('%x' % len(piece)).encode() + b'\r\n' + piece + b'\r\n')
        i += n
    return out


TRAILERS = [b'', b'', b'', b'X-T: v\r\n', b'nocolon\r\n', b' continued\r\n', b'X-T: v\r\n continued\r\n', b'X-T: v\n',
            b'Content-Length: 5\r\n', b'X-T: \xff\xfe\r\n', b'\xe9: v\r\n', b':\r\n', b'X-T: ' + b'v' * 70000 + b'\r\n',
            b'Accept: a\r\nAccept: b\r\n', b'\x00: \x00\r\n', b'X-T: v']


def chunked_cases(rng, n=300):
    """Consumers of request bodies fed through cheroot's ChunkedRFile / KnownLengthRFile: well-formed chunking of
    (possibly malformed) bodies, then the framing itself damaged: sizes, terminators, truncation, trailers, limit."""
    out = []
    for _ in range(n):
        path = pick(rng, ['/form', '/form', '/upload', '/json', '/plain', '/limit', '/decode', '/basic', '/cache/ch', '/rest', '/raw'])
        method = pick(rng, ['POST', 'POST', 'POST', 'PUT', 'PATCH', 'GET', 'DELETE'])
        kind = {'/upload': 'multipart', '/json': 'json'}.get(path) or pick(rng, ['urlencoded', 'urlencoded', 'multipart', 'json'])
        if kind == 'urlencoded':
            body, ct = gen_urlencoded(rng), gen_content_type(rng, 'application/x-www-form-urlencoded')
        elif kind == 'multipart':
            ct, bnd = gen_ct_multipart(rng)
            body = gen_multipart(rng, bnd)
        else:
            body, ct = gen_json(rng), 'application/json'
        data = body.encode('latin-1')
        hs = [['Content-Type', sanitize(ct)]]
        c = _base('chunked', method, path, pick(rng, PROTOS + ['HTTP/1.1']), [])
        if path == '/raw':
            c['qs'] = 'mode=' + pick(rng, ['lines', 'hint', 'line', 'file', 'read'])
            if rng.random() < 0.6:
                ct = pick(rng, ['text/plain', 'application/octet-stream'])
        c['headers'] = [h for h in c['headers'] if h[0] not in ('Content-Type', 'Content-Length')] + hs
        if rng.random() < 0.25:
            # declared length, read through KnownLengthRFile (a short body ends early, a long one is cut)
            c['rfile'] = 'known'
            c['headers'].append(['Content-Length', str(pick(rng, [len(data), len(data), len(data) + 5, max(0, len(data) - 1), 0]))])
            c['body'] = body
            out.append(c)
            continue
        c['rfile'] = 'chunked'
        c['headers'].append(['Transfer-Encoding', pick(rng, ['chunked'] * 6 + ['Chunked', 'gzip, chunked'])])
        if rng.random() < 0.1:
            c['headers'].append(['Content-Length', pick(rng, [str(len(data)), '0', 'x'])])
        if rng.random() < 0.15:
            c['headers'].append(['Trailer', 'X-T'])
        chunks = chunk_encode(rng, data)
        last = b'0\r\n'
        trailer = pick(rng, TRAILERS)
        end = b'\r\n'
        r = rng.random()
        if r < 0.45:
            pass                                            # well-formed framing
        elif r < 0.55 and chunks:
            j = rng.randrange(len(chunks))                  # a damaged chunk-size line
            size, _, rest = chunks[j].partition(b'\r\n')
            size = pick(rng, [b'zz', b'', b'-1', b'0x3', b' ' + size, size + b' ', size + b';ext=1', size + b';', size.upper(),
                              b'f' * 20, size + b'\xe9', b'+' + size, size + b'\n', b'1_0', b'\xb2'])
            chunks[j] = size + b'\r\n' + rest
        elif r < 0.62 and chunks:
            j = rng.randrange(len(chunks))                  # data not followed by CRLF
            chunks[j] = chunks[j][:-2] + pick(rng, [b'', b'\n', b'XX', b'\r'])
        elif r < 0.70:
            last = pick(rng, [b'', b'0', b'0\n', b'00\r\n', b'0;x\r\n', b'-0\r\n'])   # the last-chunk line
        elif r < 0.76:
            end = pick(rng, [b'', b'\n', b'\r', b'\r\n\r\n', b'x\r\n'])
        elif r < 0.88:
            wire = b''.join(chunks) + last + trailer + end   # truncated anywhere
            wire = wire[:rng.randrange(len(wire) + 1)]
            c['body'] = wire.decode('latin-1')
            out.append(c)
            continue
        else:
            c['maxlen'] = pick(rng, [1, 10, 100, len(data), len(data) + 1, max(1, len(data) - 1)])   # server's size limit
            if rng.random() < 0.4:
                # ... reached while the trailer is read
                trailer = pick(rng, [b'X-T: ' + b'v' * 3000 + b'\r\n', b'X-T: v\r\n' * 400])
                c['maxlen'] = len(b''.join(chunks)) + pick(rng, [5, 50, 1000])
                if not any(h[0] == 'Trailer' for h in c['headers']):
                    c['headers'].append(['Trailer', 'X-T'])
        c['body'] = (b''.join(chunks) + last + trailer + end).decode('latin-1')
        out.append(c)
    return out
