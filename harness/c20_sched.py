"""Deterministic replay scheduler for REAL threads (C20).

Every participating thread is a real `threading.Thread` running real CherryPy code.  A managed
thread executes only while it holds the baton; it hands the baton back at every *yield point*.
Yield points are defined by WHAT the thread is about to do, never by source lines:

  * a read or write of a shared attribute (`BackgroundTask.running`, `Monitor.thread`, `Bus.state`,
    `Bus.execv`, rebinding of `ThreadManager.threads`) - data descriptors installed on the live
    classes by `Patches` for the duration of a run;
  * an operation on the shared registry dict (`SharedDict`: `in`, `len`, `d[k] = v`, `pop`, `get`,
    `clear`, one `next()` of a Python-level iteration, an atomic snapshot `list(d)`);
  * a primitive call: `time.sleep` (logical clock), `Thread.start`, `Thread.join`, the monitor
    callback, a bus listener (`publish`), `threading.enumerate`, `_do_execv`, `os._exit` - shims
    installed by the runners of `c20.py`;
  * the first instruction of a thread created by the code under test (`Thread.start` of a managed
    thread wraps the new thread's `run`; it is worker `w<n>`, held before its first instruction);
  * optionally (`opcodes=True`, oracle-only runs) every BYTECODE of the anchored code objects
    (`sys.monitoring` INSTRUCTION events).

A rewrite of the anchored code that performs the same accesses in the same order is therefore
indistinguishable, whatever its line structure.  `step(tid)` lets the thread execute the access it
is parked in front of plus the thread-local code up to its next access.  `Thread.join` never
blocks for real: the joining thread is not schedulable until the target has left `run`.  Nothing
sleeps; every hand-over has a timeout.  A managed thread that does not reach its next yield point
within `TIMEOUT` seconds hangs INSIDE the code under test (all blocking primitives are virtual):
that is reported as `Hang` (an observation the oracle judges), not as a harness error.
"""
import dis
import sys
import threading
import _thread

TIMEOUT = 20.0
MON_TOOL = 4          # sys.monitoring tool id used in bytecode mode
KILL = 'c20-sched-kill'


class SchedError(Exception):
    """the machinery is broken (harness error)"""


class Hang(Exception):
    """the code under test did not reach its next yield point"""

    def __init__(self, tid, pending):
        Exception.__init__(self, 'thread %s did not return from %r within %.0f s' % (tid, pending, TIMEOUT))
        self.tid = tid
        self.pending = pending


def is_kill(e):
    return isinstance(e, SystemExit) and e.args == (KILL,)


def _held_lock():
    lk = _thread.allocate_lock()
    lk.acquire()
    return lk


class Rec:
    def __init__(self, tid, kind):
        self.tid = tid
        self.kind = kind            # 'ctl' | 'worker'
        self.go = _held_lock()       # released by the scheduler to grant one turn
        self.pending = ('begin',)   # label of the access the thread is parked in front of
        self.done = False
        self.blocked_on = None      # object with a `.done` attribute this thread joins
        self.exc = None             # exception that ended the thread
        self.thread = None          # the real Thread object
        self.registered = threading.Event()
        self.kill = False
        self.hung = False
        self.steps = 0
        self.result = None
        self.log = []               # labels of the accesses executed (diagnostics)


class Sched:
    def __init__(self, op_codes=()):
        """op_codes: code objects pre-empted before every bytecode (oracle-only runs)."""
        self.op_codes = list(op_codes)
        self.recs = {}              # tid -> Rec
        self.by_ident = {}          # thread ident -> Rec
        self.order = []             # tids in creation order
        self.back = _held_lock()     # released by a managed thread when it hands the baton back
        self.nworkers = 0
        self._real_start = None
        self._real_join = None
        self._installed = False
        self.killed = False
        self.on_worker = None       # callback(rec, thread) when a worker has been started
        self.before_start = None    # callback(thread) just before a worker thread is really started

    # ---- installation ---------------------------------------------------------------------
    def install(self):
        if self._installed:
            return
        self._installed = True
        self._real_start = threading.Thread.start
        self._real_join = threading.Thread.join
        sched = self

        def start(thr):
            me = sched.me()
            if me is None or sched.killed:
                return sched._real_start(thr)
            sched.yield_point(('start',))
            if sched.before_start is not None:
                sched.before_start(thr)
            sched.nworkers += 1
            rec = Rec('w%d' % sched.nworkers, 'worker')
            rec.thread = thr
            inner = thr.run

            def run():
                sched.by_ident[_thread.get_ident()] = rec
                rec.registered.set()
                rec.go.acquire()            # wait for the first turn (the starter keeps the baton)
                try:
                    if not rec.kill:
                        inner()
                except BaseException as e:      # noqa - recorded, judged by the oracle
                    if not is_kill(e):
                        rec.exc = e
                finally:
                    rec.done = True
                    rec.pending = ('done',)
                    if not rec.kill:
                        sched.back.release()

            thr.run = run
            sched.recs[rec.tid] = rec
            sched.order.append(rec.tid)
            try:
                sched._real_start(thr)
            except BaseException:
                del sched.recs[rec.tid]
                sched.order.remove(rec.tid)
                sched.nworkers -= 1
                raise
            if not rec.registered.wait(TIMEOUT):
                raise SchedError('started worker never reached run()')
            if sched.on_worker is not None:
                sched.on_worker(rec, thr)

        def join(thr, timeout=None):
            me = sched.me()
            target = sched.find_thread(thr)
            if me is None or target is None or thr is threading.current_thread():
                return sched._real_join(thr, timeout)   # (self-join raises RuntimeError as the real one)
            sched.wait_for(target, ('join',))
            sched._real_join(thr, TIMEOUT)
            if thr.is_alive():
                raise SchedError('finished worker did not terminate')

        threading.Thread.start = start
        threading.Thread.join = join
        if self.op_codes:
            mon = sys.monitoring
            mon.use_tool_id(MON_TOOL, 'c20_sched')
            mon.register_callback(MON_TOOL, mon.events.INSTRUCTION, self._on_instruction)
            for code in self.op_codes:
                mon.set_local_events(MON_TOOL, code, mon.events.INSTRUCTION)

    def uninstall(self):
        if not self._installed:
            return
        if self.op_codes:
            mon = sys.monitoring
            for code in self.op_codes:
                mon.set_local_events(MON_TOOL, code, 0)
            mon.register_callback(MON_TOOL, mon.events.INSTRUCTION, None)
            mon.free_tool_id(MON_TOOL)
        threading.Thread.start = self._real_start
        threading.Thread.join = self._real_join
        self._installed = False

    # ---- thread side ----------------------------------------------------------------------
    def me(self):
        rec = self.by_ident.get(_thread.get_ident())
        if rec is not None and rec.thread is not threading.current_thread():
            return None             # the OS re-used the ident of a finished managed thread
        return rec

    def find_thread(self, thr):
        for r in list(self.recs.values()):
            if r.thread is thr:
                return r
        return None

    def yield_point(self, label, quiet=False):
        """Called by a managed thread in front of a shared access / primitive call.  `quiet`: never
        raise (bytecode events: raising from a monitoring callback can crash CPython 3.12)."""
        rec = self.me()
        if rec is None:
            return None
        if rec.kill:
            if quiet:
                return None
            raise SystemExit(KILL)
        rec.pending = label
        self.back.release()
        rec.go.acquire()
        if rec.kill and not quiet:
            raise SystemExit(KILL)
        rec.log.append(label)
        return rec

    def wait_for(self, target, label):
        """A blocking primitive: the calling thread is not schedulable until `target.done`."""
        me = self.me()
        if me is None:
            return
        me.blocked_on = target
        try:
            self.yield_point(label)
            while not target.done:      # only when the controller stepped a blocked thread by force
                self.yield_point(label)
        finally:
            me.blocked_on = None

    def _on_instruction(self, code, offset):
        self.yield_point(('op', code.co_qualname), quiet=True)
        return None

    # ---- controller side ------------------------------------------------------------------
    def spawn(self, tid, fn):
        """Create a managed controller thread running fn(); it is held before fn's first access."""
        rec = Rec(tid, 'ctl')
        self.recs[tid] = rec
        self.order.append(tid)
        sched = self

        def body():
            sched.by_ident[_thread.get_ident()] = rec
            rec.registered.set()
            rec.go.acquire()
            try:
                if rec.kill:
                    return
                rec.result = fn()
            except BaseException as e:      # noqa - recorded, classified by the caller
                if is_kill(e):
                    return
                rec.exc = e
            finally:
                rec.done = True
                rec.pending = ('done',)
                if not rec.kill:
                    sched.back.release()

        t = threading.Thread(target=body, name='c20-' + tid, daemon=True)
        rec.thread = t
        (self._real_start or threading.Thread.start)(t)
        if not rec.registered.wait(TIMEOUT):
            raise SchedError('controller thread did not start')
        return rec

    def runnable(self):
        out = []
        for tid in self.order:
            r = self.recs[tid]
            if r.done or r.hung:
                continue
            if r.blocked_on is not None and not r.blocked_on.done:
                continue
            out.append(tid)
        return out

    def step(self, tid):
        rec = self.recs[tid]
        if rec.done:
            raise SchedError('step on finished thread ' + tid)
        rec.steps += 1
        label = rec.pending
        rec.go.release()
        if not self.back.acquire(timeout=TIMEOUT):
            rec.hung = True
            raise Hang(tid, label)
        return label

    def kill_all(self):
        """Tear-down: every managed thread raises SystemExit at its next (or current) yield point; in
        bytecode mode the instruction events stop yielding and the threads run on to such a point."""
        self.killed = True
        for r in list(self.recs.values()):
            r.kill = True
        for r in list(self.recs.values()):
            if not r.done:
                try:
                    r.go.release()
                except RuntimeError:
                    pass
        for r in list(self.recs.values()):
            if r.thread is not None and r.thread.ident is not None and not r.hung:
                (self._real_join or threading.Thread.join)(r.thread, TIMEOUT)
                if r.thread.is_alive():
                    raise SchedError('thread %s survived tear-down' % r.tid)


# ------------------------------------------------------------------------------------------------
# instrumented shared state (harness side only; nothing in the repository is edited)
# ------------------------------------------------------------------------------------------------
_cur = [None]       # hooks of the run in progress: .sched, .on_write(obj, name, value) -> value


def current_sched():
    h = _cur[0]
    return None if h is None else h.sched


def ypoint(label):
    h = _cur[0]
    if h is not None:
        h.sched.yield_point(label)


_MISSING = object()


class Patches:
    """Data descriptors on the LIVE classes: every read / write of the attribute by a managed thread
    is a yield point.  The value stays where it always was (the instance `__dict__`), so objects
    created before or used after the patch behave as ever."""

    def __init__(self):
        self.saved = []

    def shared_attr(self, cls, name, reads=True):
        """reads=False: only (re)binding the attribute is a yield point (the object it names is a proxy)"""
        old = cls.__dict__.get(name, _MISSING)
        default = _MISSING
        for k in cls.__mro__:
            if name in k.__dict__ and not isinstance(k.__dict__[name], property):
                default = k.__dict__[name]
                break

        def get(obj):
            if reads:
                ypoint(('r', name))
            v = obj.__dict__.get(name, default)
            if v is _MISSING:
                raise AttributeError(name)
            return v

        def set_(obj, value):
            ypoint(('w', name))
            h = _cur[0]
            if h is not None:
                value = h.on_write(obj, name, value)
            obj.__dict__[name] = value

        def del_(obj):
            ypoint(('w', name))
            try:
                del obj.__dict__[name]
            except KeyError:
                raise AttributeError(name)

        setattr(cls, name, property(get, set_, del_))
        self.saved.append((cls, name, old))

    def restore(self):
        for cls, name, old in reversed(self.saved):
            if old is _MISSING:
                try:
                    delattr(cls, name)
                except AttributeError:
                    pass
            else:
                setattr(cls, name, old)
        self.saved = []


def _python_level_loop(frame):
    """Is the caller iterating with a Python-level `for` (GET_ITER in its own bytecode: other threads can
    run between two items), or is a C-level consumer (`list(d)`, `sorted(d)`, `tuple(d)`: atomic under the
    GIL) asking for the iterator?"""
    try:
        op = dis.opname[frame.f_code.co_code[frame.f_lasti]]
    except Exception:       # noqa
        return False
    if op.startswith('INSTRUMENTED_'):
        op = op[len('INSTRUMENTED_'):]
    return op in ('GET_ITER', 'FOR_ITER')


class _View:
    def __init__(self, d, kind):
        self.d, self.kind = d, kind

    def _real(self):
        return getattr(dict, self.kind)(self.d)

    def __iter__(self):
        if _python_level_loop(sys._getframe(1)):
            return self.d._live(lambda: iter(self._real()))
        return self.d._snapshot(self._real)

    def __len__(self):
        self.d._y('len')
        return dict.__len__(self.d)

    def __contains__(self, x):
        self.d._y('in')
        return x in self._real()


class SharedDict(dict):
    """`ThreadManager.threads`: every single dict operation is a yield point (and atomic, as under the GIL)."""

    def _y(self, op):
        ypoint(('d', op))

    def _live(self, make_iter):
        # CPython does not switch threads between GET_ITER and the first FOR_ITER: the real iterator
        # (which remembers the size of the dict) is created together with the first next()
        it = None
        while True:
            self._y('next')
            if it is None:
                it = make_iter()
            try:
                v = next(it)        # the REAL iterator: RuntimeError when the dict changed size
            except StopIteration:
                return
            yield v

    def __contains__(self, k):
        self._y('in')
        return dict.__contains__(self, k)

    def __getitem__(self, k):
        self._y('get')
        return dict.__getitem__(self, k)

    def get(self, k, default=None):
        self._y('get')
        return dict.get(self, k, default)

    def __len__(self):
        # `list(d)` asks for the iterator (the snapshot above) and then for a length hint, all inside one
        # C call that no other thread can interrupt: that second question is no yield point
        if self._snap_mark is None or self._snap_mark != self._mark():
            self._y('len')
        self._snap_mark = None
        return dict.__len__(self)

    def _mark(self):
        h = _cur[0]
        rec = None if h is None else h.sched.me()
        return None if rec is None else (rec.tid, rec.steps)

    def _snapshot(self, what):
        self._y('snap')
        self._snap_mark = self._mark()
        return iter(list(what()))

    _snap_mark = None

    def __setitem__(self, k, v):
        self._y('set')
        return dict.__setitem__(self, k, v)

    def setdefault(self, k, default=None):
        self._y('set')
        return dict.setdefault(self, k, default)

    def update(self, *a, **kw):
        self._y('set')
        return dict.update(self, *a, **kw)

    def __delitem__(self, k):
        self._y('pop')
        return dict.__delitem__(self, k)

    def pop(self, k, *default):
        self._y('pop')
        return dict.pop(self, k, *default)

    def popitem(self):
        self._y('pop')
        return dict.popitem(self)

    def clear(self):
        self._y('clear')
        return dict.clear(self)

    def copy(self):
        self._y('snap')
        return dict(dict.items(self))

    def __iter__(self):
        if _python_level_loop(sys._getframe(1)):
            return self._live(lambda: dict.__iter__(self))
        return self._snapshot(lambda: dict.keys(self))

    def keys(self):
        return _View(self, 'keys')

    def values(self):
        return _View(self, 'values')

    def items(self):
        return _View(self, 'items')

    def raw_items(self):
        return list(dict.items(self))
