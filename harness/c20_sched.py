"""Deterministic replay scheduler for REAL threads (C20; see DESIGN 5.4).

Every participating thread is a real `threading.Thread` running real CherryPy code.  A managed
thread executes only while it holds the baton; it hands the baton back at every *yield point*:

  * a `sys.settrace` 'line' event inside one of the anchored code objects (`codes`) - the thread
    stops BEFORE executing that line; the label of the stop is `(function name, line offset from
    the `def` line)`; with `opcodes=True` the thread stops before every BYTECODE instead
    (a `sys.monitoring` INSTRUCTION callback), which is used for oracle-only runs;
  * the 'call' event of an *entry* code object (`BackgroundTask.run`) in a thread the real code
    created itself: the thread registers as worker `w<n>` and is held before its first instruction;
  * an instrumented blocking primitive (`Thread.join` on a managed thread): the caller is marked
    blocked and not scheduled until the target has finished, so the harness never deadlocks.

`step(tid)` lets thread `tid` run to its next yield point and returns its new label.  A schedule is
just a list of thread ids; a run is exactly replayable.  Nothing here sleeps; every wait has a
timeout that raises `SchedError` (a harness error, never a property violation).
"""
import sys
import threading
import _thread

TIMEOUT = 20.0
MON_TOOL = 4          # sys.monitoring tool id used in bytecode mode


class SchedError(Exception):
    pass


KILL = 'c20-sched-kill'


def _Kill():
    """Raised inside a managed thread at tear-down (exactly SystemExit: threading stays silent)."""
    return SystemExit(KILL)


def is_kill(e):
    return isinstance(e, SystemExit) and e.args == (KILL,)


def _held_lock():
    """A raw lock used as a binary semaphore (C level: a hand-over costs a few microseconds)."""
    lk = _thread.allocate_lock()
    lk.acquire()
    return lk


class Rec:
    def __init__(self, tid, kind):
        self.tid = tid
        self.kind = kind            # 'ctl' | 'worker'
        self.go = _held_lock()       # released by the scheduler to grant one turn
        self.at = ('new', 0)        # label of the yield point the thread is stopped at
        self.done = False
        self.blocked_on = None      # Rec of the thread this one joins
        self.exc = None             # exception that ended a ctl thread
        self.thread = None          # the real Thread object
        self.registered = threading.Event()
        self.kill = False
        self.steps = 0
        self.result = None


class Sched:
    def __init__(self, codes, entry_codes=(), opcodes=False):
        """codes: code objects whose lines are yield points; entry_codes: code objects whose
        'call' in an unknown thread registers that thread as a worker; opcodes: yield before every
        BYTECODE of the anchored functions instead of before every line."""
        self.opcodes = opcodes
        self.codes = set(codes)
        self.entry = set(entry_codes)
        self.recs = {}              # tid -> Rec
        self.by_ident = {}          # thread ident -> Rec
        self.order = []             # tids in creation order
        self.back = _held_lock()     # released by a managed thread when it hands the baton back
        self.nworkers = 0
        self._real_start = None
        self._real_join = None
        self._installed = False
        self.current = None
        self.killed = False
        self.on_worker = None       # callback(rec, thread) when a worker registers
        self.before_start = None    # callback(thread) just before a worker thread is really started

    # ---- installation ---------------------------------------------------------------------
    def install(self):
        if self._installed:
            return
        self._installed = True
        self._real_start = threading.Thread.start
        self._real_join = threading.Thread.join
        sched = self

        def start(thr):
            code = getattr(getattr(type(thr), 'run', None), '__code__', None)
            if code in sched.entry and sched.before_start is not None:
                sched.before_start(thr)
            sched._real_start(thr)
            if code in sched.entry and sched._me() is not None and not sched.killed:
                rec = None
                # the new thread registers itself at the 'call' event of run()
                for _ in range(int(TIMEOUT * 100)):
                    rec = sched._find_thread(thr)
                    if rec is not None and rec.registered.wait(0.01):
                        break
                    if not thr.is_alive() and sched._find_thread(thr) is None:
                        # thread died before reaching run(): nothing to manage
                        return
                else:
                    raise SchedError('started worker never reached run()')

        def join(thr, timeout=None):
            me = sched._me()
            target = sched._find_thread(thr)
            if me is None or target is None:
                return sched._real_join(thr, timeout)
            if thr is threading.current_thread():
                return sched._real_join(thr, timeout)      # raises RuntimeError as the real one does
            while not target.done:
                if me.kill:
                    raise _Kill()       # ordinary code, not a trace function: always safe
                me.blocked_on = target
                sched._yield(me, me.at)
            me.blocked_on = None
            sched._real_join(thr, TIMEOUT)
            if thr.is_alive():
                raise SchedError('finished worker did not terminate')

        threading.Thread.start = start
        threading.Thread.join = join
        threading.settrace(self._global_trace)
        if self.opcodes:
            # bytecode granularity through sys.monitoring (PEP 669): an INSTRUCTION callback per anchored
            # code object.  (`frame.f_trace_opcodes` misses the first frame of a code object on 3.12.)
            mon = sys.monitoring
            mon.use_tool_id(MON_TOOL, 'c20_sched')
            mon.register_callback(MON_TOOL, mon.events.INSTRUCTION, self._on_instruction)
            self._linemap = {}
            for code in self.codes:
                self._linemap[code] = {}
                for start_off, end_off, ln in code.co_lines():
                    for off in range(start_off, end_off, 2):
                        self._linemap[code][off] = -1 if ln is None else ln - code.co_firstlineno
                mon.set_local_events(MON_TOOL, code, mon.events.INSTRUCTION)

    def uninstall(self):
        if not self._installed:
            return
        threading.settrace(None)
        if self.opcodes:
            mon = sys.monitoring
            for code in self.codes:
                mon.set_local_events(MON_TOOL, code, 0)
            mon.register_callback(MON_TOOL, mon.events.INSTRUCTION, None)
            mon.free_tool_id(MON_TOOL)
        threading.Thread.start = self._real_start
        threading.Thread.join = self._real_join
        self._installed = False

    # ---- thread side ----------------------------------------------------------------------
    def _me(self):
        rec = self.by_ident.get(threading.get_ident())
        if rec is not None and rec.thread is not threading.current_thread():
            return None             # the OS re-used the ident of a finished managed thread
        return rec

    def _find_thread(self, thr):
        for r in list(self.recs.values()):
            if r.thread is thr:
                return r
        return None

    def _yield(self, rec, label):
        if rec.kill and self.opcodes:
            return                  # torn down cooperatively: the thread runs free to its end
        rec.at = label
        self.back.release()
        rec.go.acquire()
        if rec.kill and not self.opcodes:
            raise _Kill()

    def _on_instruction(self, code, offset):
        rec = self._me()
        if rec is None or rec.kill:
            return None
        self._yield(rec, (code.co_qualname, self._linemap.get(code, {}).get(offset, -1)))
        return None

    def _global_trace(self, frame, event, arg):
        if event != 'call':
            return None
        code = frame.f_code
        if code not in self.codes:
            return None
        rec = self._me()
        if rec is None:
            if code not in self.entry or self.killed:
                return None
            # a thread created by the code under test: becomes worker w<n>, held before its first line
            thr = threading.current_thread()
            self.nworkers += 1
            rec = Rec('w%d' % self.nworkers, 'worker')
            rec.thread = thr
            rec.at = (code.co_qualname, 0)
            self.recs[rec.tid] = rec
            self.order.append(rec.tid)
            self.by_ident[threading.get_ident()] = rec
            if self.on_worker:
                self.on_worker(rec, thr)
            rec.registered.set()
            rec.go.acquire()            # wait for the first turn (the starter keeps the baton)
            if rec.kill:
                if self.opcodes:
                    return None
                raise _Kill()
        return self._local_trace

    def _local_trace(self, frame, event, arg):
        rec = self._me()
        if rec is None:
            return None
        code = frame.f_code
        if event == 'line' and not self.opcodes:
            ln = frame.f_lineno          # None for bytecodes without a line (exception clean-up)
            self._yield(rec, (code.co_qualname, -1 if ln is None else ln - code.co_firstlineno))
        elif event == 'return' and rec.kind == 'worker' and code in self.entry and not rec.done:
            # run() is left (normally or by an exception): the worker is finished
            self._worker_finished(rec)
            return None
        return self._local_trace

    def _worker_finished(self, rec):
        rec.done = True
        rec.at = ('done', 0)
        if not rec.kill:
            self.back.release()

    # ---- controller side ------------------------------------------------------------------
    def spawn(self, tid, fn):
        """Create a managed controller thread running fn(); it is held before fn's first yield."""
        rec = Rec(tid, 'ctl')
        self.recs[tid] = rec
        self.order.append(tid)
        sched = self

        def body():
            sched.by_ident[threading.get_ident()] = rec
            rec.registered.set()
            rec.go.acquire()
            try:
                if rec.kill:
                    return
                sys.settrace(sched._global_trace)
                try:
                    rec.result = fn()
                finally:
                    sys.settrace(None)
            except BaseException as e:      # noqa - recorded, classified by the caller
                if is_kill(e):
                    return
                rec.exc = e
            rec.done = True
            rec.at = ('done', 0)
            if not rec.kill:
                sched.back.release()

        t = threading.Thread(target=body, name='c20-' + tid, daemon=True)
        rec.thread = t
        self._real_start(t) if self._installed else t.start()
        if not rec.registered.wait(TIMEOUT):
            raise SchedError('controller thread did not start')
        return rec

    def runnable(self):
        out = []
        for tid in self.order:
            r = self.recs[tid]
            if r.done:
                continue
            if r.blocked_on is not None and not r.blocked_on.done:
                continue
            out.append(tid)
        return out

    def step(self, tid):
        rec = self.recs[tid]
        if rec.done:
            raise SchedError('step on finished thread ' + tid)
        rec.steps += 1
        self.current = tid
        rec.go.release()
        if not self.back.acquire(timeout=TIMEOUT):
            raise SchedError('thread %s did not yield within %.0fs at %r' % (tid, TIMEOUT, rec.at))
        self.current = None
        # a worker whose run() returned: the thread ends without another yield; detect via hook below
        return rec.at

    def kill_all(self):
        """Tear-down.  Line mode: every managed thread raises SystemExit at its current yield point.
        Bytecode mode: raising from an 'opcode' trace event can crash CPython 3.12, so the threads
        are released to run free instead; their endless loops end because the caller has made the
        logical clock's sleep() raise SystemExit (ordinary code)."""
        self.killed = True
        for r in list(self.recs.values()):
            r.kill = True
        for r in self.recs.values():
            if not r.done:
                try:
                    r.go.release()
                except RuntimeError:
                    pass
        for r in self.recs.values():
            if r.thread is not None and r.thread.ident is not None:
                (self._real_join or threading.Thread.join)(r.thread, TIMEOUT)
                if r.thread.is_alive():
                    raise SchedError('thread %s survived tear-down' % r.tid)
