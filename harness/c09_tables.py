"""C09: finite tables of the anchored code that the attachment model (lean/CpModel/HookAttach.lean) reads,
regenerated on every run by *executing* the live modules (lean/CpModel/Gen/C09Tables.lean).
"""
from . import common  # noqa: F401  (sets sys.path for CHERRYPY_REPO before cherrypy is imported)

import cherrypy
from cherrypy import _cprequest, _cptools

POINTS = list(_cprequest.hookpoints)


def val_code(v):
    """(tag, n): 0 None, 1 bool, 2 int, 3 float in quarters; None when not representable."""
    if v is None:
        return (0, 0)
    if v is True or v is False:
        return (1, 1 if v else 0)
    if isinstance(v, int):
        return (2, v)
    if isinstance(v, float) and v == v and abs(v) != float('inf') and (v * 4) == int(v * 4):
        return (3, int(v * 4))
    return None


def _lean_code(c):
    return '(%d, %d)' % c if c[1] >= 0 else '(%d, -%d)' % (c[0], -c[1])


def _lean_opt(c):
    return 'none' if c is None else 'some ' + _lean_code(c)


_MISSING = object()


def _attr_code(obj, name):
    v = getattr(obj, name, _MISSING)
    if v is _MISSING:
        return None
    c = val_code(v)
    if c is None:
        raise common.HarnessError('attribute %s of %r has a value the model cannot express: %r' % (name, obj, v))
    return c


class _FakeRequest(object):
    def __init__(self, toolmaps):
        self.hooks = _cprequest.HookMap(_cprequest.hookpoints)
        self.toolmaps = toolmaps


_UNSET = object()


def setup_kind(tool, name):
    """Which of the five modelled `_setup` behaviours the tool has, determined by *running* its `_setup` against a
    bare request (robust against refactorings of the class hierarchy):
    0 one hook whose callback is the tool's callable (Tool._setup); 1 one hook whose callback is something else (the
    tool's wrapper) with the priority the callable / the tool declare (HandlerTool._setup); 3 the same with a priority
    of its own (CachingTool._setup); 2 no hook, request.error_response replaced (ErrorTool._setup); 4 three or more
    hooks, the tool's callable first (SessionTool._setup); 5 anything else."""
    req = _FakeRequest({getattr(tool, 'namespace', 'tools'): {name: {'on': True}}})
    req.error_response = _UNSET
    serving = cherrypy.serving
    old = serving.request
    serving.request = req
    try:
        tool._setup()
    finally:
        serving.request = old
    hooks = [(p, h) for p, pname in enumerate(POINTS) for h in req.hooks[pname]]
    if not hooks:
        return 2 if req.error_response is not _UNSET else 5
    if len(hooks) == 1:
        h = hooks[0][1]
        if h.callback is tool.callable:
            return 0
        if h.priority == getattr(tool.callable, 'priority', tool._priority):
            return 1
        return 3
    if len(hooks) >= 3 and any(h.callback is tool.callable for _, h in hooks):
        return 4
    return 5


def probe_session_setup(locking):
    """Run the real SessionTool._setup against a bare request object; the hooks it attaches."""
    tool = _cptools.SessionTool()
    tool._name = 'sessions'
    settings = {'on': True}
    if locking is not None:
        settings['locking'] = locking
    req = _FakeRequest({'tools': {'sessions': settings}})
    serving = cherrypy.serving
    old = serving.request
    serving.request = req
    try:
        tool._setup()
    finally:
        serving.request = old
    out = []
    for p, name in enumerate(POINTS):
        for h in req.hooks[name]:
            out.append((p, h))
    return tool, out


def probe():
    from cherrypy.lib import sessions
    h = _cprequest.Hook(lambda: None)
    t = _cptools.Tool('before_handler', lambda: None)
    tool, early = probe_session_setup('early')
    # the lock hook of the 'early' mode: the hook at before_request_body that is neither the tool's own callable
    # nor one of the session module's functions
    lock = [hk for p, hk in early if p == 1 and hk.callback is not tool.callable
            and hk.callback not in (sessions.save, sessions.close)]
    if len(lock) != 1:
        raise RuntimeError('SessionTool._setup(locking=early) attached %d lock hooks at before_request_body' % len(lock))
    rows = []
    for name, tl in sorted(vars(cherrypy.tools).items()):
        if not isinstance(tl, _cptools.Tool):
            continue
        point = POINTS.index(tl._point) if tl._point in POINTS else 8
        pr = val_code(tl._priority)
        if pr is None:
            raise common.HarnessError('default tool %s has priority %r' % (name, tl._priority))
        cb = tl.callable
        rows.append((name, setup_kind(tl, name), point, pr, _attr_code(cb, 'priority'), _attr_code(cb, 'failsafe')))
    return {
        'namespaces': list(_cprequest.Request.namespaces),
        'hook_prio': val_code(h.priority), 'hook_fs': val_code(h.failsafe),
        'tool_prio': val_code(t._priority),
        'early_prio': val_code(lock[0].priority),
        'save': (_attr_code(sessions.save, 'priority'), _attr_code(sessions.save, 'failsafe')),
        'close': (_attr_code(sessions.close, 'priority'), _attr_code(sessions.close, 'failsafe')),
        'caching_wrapper': (_attr_code(_cptools.CachingTool._wrapper, 'priority'),
                            _attr_code(_cptools.CachingTool._wrapper, 'failsafe')),
        'tools': rows,
    }


def tables():
    t = probe()
    for k in ('hook_prio', 'hook_fs', 'tool_prio', 'early_prio'):
        if t[k] is None:
            raise common.HarnessError('%s is not expressible in the model' % k)
    rows = ',\n   '.join('("%s", %d, %d, %s, %s, %s)' % (n, k, p, _lean_code(pr), _lean_opt(ap), _lean_opt(af))
                         for n, k, p, pr, ap, af in t['tools'])
    src = """/-!
  GENERATED by harness/c09_tables.py from the live modules under the repository on every run of the C09
  check - do not edit.  Every entry was obtained by executing / inspecting the real objects:
  `Request.namespaces`, `Hook(lambda: None)`, `Tool('before_handler', f)`, the real `SessionTool._setup`
  run against a bare request, `vars(cherrypy.tools)` (the `_setup` kind of a tool is found by running its `_setup`).
  Value codes `(tag, n)`: `(0, _)` None, `(1, b)` bool, `(2, i)` int, `(3, q)` float `q/4`.
-/
namespace CpModel.Gen.C09

/-- `Request.namespaces`, in handler order -/
def requestNamespaces : List String := [%s]

/-- `Hook(cb).priority` / `.failsafe` for a callable without attributes -/
def hookDefaultPriority : Nat × Int := %s
def hookDefaultFailsafe : Nat × Int := %s

/-- `Tool(point, cb)._priority` -/
def toolDefaultPriority : Nat × Int := %s

/-- priority of the lock hook `SessionTool._setup` attaches for `locking = 'early'` -/
def sessionEarlyLockPriority : Nat × Int := %s

/-- `(priority, failsafe)` attributes of `cherrypy.lib.sessions.save` / `.close` and of `CachingTool._wrapper` -/
def sessionsSaveAttrs : Option (Nat × Int) × Option (Nat × Int) := (%s, %s)
def sessionsCloseAttrs : Option (Nat × Int) × Option (Nat × Int) := (%s, %s)
def cachingWrapperAttrs : Option (Nat × Int) × Option (Nat × Int) := (%s, %s)

/-- the default toolbox `cherrypy.tools`: (name, `_setup` kind 0 Tool / 1 HandlerTool / 2 ErrorTool / 3 CachingTool /
    4 SessionTool / 5 other, hook point 0..7 (8 = None), `_priority`, callable.priority?, callable.failsafe?) -/
def defaultTools : List (String × Nat × Nat × (Nat × Int) × Option (Nat × Int) × Option (Nat × Int)) :=
  [%s]

end CpModel.Gen.C09
""" % (', '.join('"%s"' % n for n in t['namespaces']), _lean_code(t['hook_prio']), _lean_code(t['hook_fs']),
       _lean_code(t['tool_prio']), _lean_code(t['early_prio']),
       _lean_opt(t['save'][0]), _lean_opt(t['save'][1]), _lean_opt(t['close'][0]), _lean_opt(t['close'][1]),
       _lean_opt(t['caching_wrapper'][0]), _lean_opt(t['caching_wrapper'][1]), rows)
    return {'CpModel/Gen/C09Tables.lean': src}
