"""C10 - table generation by introspection, and the translation between real runs and the Lean model.

Lean side: lean/CpModel/Isolation.lean (model), lean/CpModel/Gen/C10Tables.lean (generated here),
lean/Drv/C10.lean (driver protocol, documented there).
"""
import json

from . import common
from . import c10_site as S
from . import c10_run as R

SLOTS = ['reqObj', 'respObj', 'bodyObj', 'hooks', 'hookLists', 'errorPage', 'namespaces', 'toolmaps', 'toolmapTools',
         'params', 'headers', 'headerList', 'cookie', 'config', 'uniqueId', 'local', 'remote', 'respHeaders', 'respCookie', 'respBody',
         'processors', 'attemptCharsets', 'bodyParams', 'parts', 'bodyHeaders', 'requestParams']

CLASS_CELL = {
    'Request.hooks': 'reqHooks', 'Request.error_page': 'reqErrorPage', 'Request.namespaces': 'reqNamespaces',
    'Request.toolmaps': 'reqToolmaps', 'Request.params': 'reqParams', 'Request.headers': 'reqHeaders',
    'Request.header_list': 'reqHeaderList', 'Request.cookie': 'reqCookie',
    'Request.local': 'reqLocal', 'Request.remote': 'reqRemote',
    'Response.headers': 'respHeaders', 'Response.cookie': 'respCookie', 'Response.header_list': 'respHeaderList',
    'Entity.processors': 'entProcessors', 'Entity.attempt_charsets': 'entAttemptCharsets',
    'Part.attempt_charsets': 'partAttemptCharsets', 'Application.config': 'appConfig',
    'Application.namespaces': 'appNamespaces', 'Application.toolboxes': 'appToolboxes',
    'CPWSGIApp.pipeline': 'wsgiPipeline', 'CPWSGIApp.config': 'wsgiConfig', 'Hook.kwargs': 'hookKwargs',
    'cherrypy.config': 'globalConfig', 'default.request': 'defReq', 'default.response': 'defResp',
    'default.request.dict': 'defReq', 'default.response.dict': 'defResp',
    'default.request.error_page': 'defReqErrorPage', 'default.request.namespaces': 'defReqNamespaces',
    'default.response.headers': 'defRespHeaders', 'default.response.cookie': 'defRespCookie',
    'default.response._body': 'defRespBody',
}
# the class-level collection a fresh per-request one would naturally be initialised from
COUNTERPART = {'hooks': 'reqHooks', 'hookLists': 'reqHookLists', 'errorPage': 'reqErrorPage',
               'namespaces': 'reqNamespaces', 'toolmaps': 'reqToolmaps', 'params': 'reqParams',
               'headers': 'reqHeaders', 'headerList': 'reqHeaderList', 'cookie': 'reqCookie',
               'respHeaders': 'respHeaders', 'respCookie': 'respCookie',
               'processors': 'entProcessors', 'attemptCharsets': 'entAttemptCharsets'}


def class_cell_of(name):
    if name.startswith('Request.hooks.'):
        return 'reqHookLists'
    return CLASS_CELL.get(name, 'other')


# ------------------------------------------------------------------------------------------------
# items of a slot (what the model calls the contents of a cell)
# ------------------------------------------------------------------------------------------------
def _occ(strings):
    seen, out = {}, []
    for x in strings:
        seen[x] = seen.get(x, 0) + 1
        out.append('%s#%d' % (x, seen[x]))
    return out


def slot_items(c):
    """slot -> list of item strings (dict-like: the keys; list-like: elements with occurrence numbers)."""
    def keys(d):
        return [str(k) for k in d] if isinstance(d, dict) else []

    def elems(l):
        return _occ([json.dumps(x, sort_keys=True) for x in l]) if isinstance(l, list) else []
    hooks = c.get('hooks') or {}
    tm = c.get('toolmaps') if isinstance(c.get('toolmaps'), dict) else {}
    out = {
        'reqObj': list(c.get('reqAttrs', [])), 'respObj': list(c.get('respAttrs', [])),
        'bodyObj': list(c.get('bodyAttrs', [])),
        'hooks': keys(hooks),
        'hookLists': _occ(['%s|%s' % (p, h) for p in hooks for h in hooks[p]]),
        'errorPage': keys(c.get('errorPage')), 'namespaces': keys(c.get('namespaces')),
        'toolmaps': keys(tm), 'toolmapTools': keys(tm.get('tools')),
        'params': keys(c.get('params')), 'headers': keys(c.get('headers')),
        'headerList': elems(c.get('headerList')), 'cookie': keys(c.get('cookie')),
        'config': keys(c.get('config')), 'uniqueId': [],
        'local': keys(c.get('local')), 'remote': keys(c.get('remote')),
        'respHeaders': keys(c.get('respHeaders')), 'respCookie': keys(c.get('respCookie')),
        'processors': keys(c.get('processors')), 'attemptCharsets': elems(c.get('attemptCharsets')),
        'bodyParams': keys(c.get('bodyParams')), 'parts': elems(c.get('parts')),
    }
    out['bodyHeaders'] = list(out['headers'])
    out['requestParams'] = list(out['params'])
    return out


def slot_marker_text(c):
    """slot -> text in which mutation markers of that slot's own level show up."""
    def own_level(d):
        if not isinstance(d, dict):
            return json.dumps(d)
        flat = []
        for v in d.values():            # one level of values: a marker appended to a parsed parameter list counts
            if isinstance(v, list):
                flat += [str(x) for x in v if not isinstance(x, (dict, list))]
            elif not isinstance(v, dict):
                flat.append(str(v))
        return ' '.join([str(k) for k in d] + flat)
    hooks = c.get('hooks') or {}
    tm = c.get('toolmaps') if isinstance(c.get('toolmaps'), dict) else {}
    out = {
        'reqObj': ' '.join(c.get('reqAttrs', [])), 'respObj': ' '.join(c.get('respAttrs', [])),
        'bodyObj': ' '.join(c.get('bodyAttrs', [])),
        'hooks': ' '.join(str(k) for k in hooks),
        'hookLists': ' '.join('%s|%s' % (p, h) for p in hooks for h in hooks[p]),
        'errorPage': own_level(c.get('errorPage')), 'namespaces': own_level(c.get('namespaces')),
        'toolmaps': ' '.join(str(k) for k in tm), 'toolmapTools': ' '.join(str(k) for k in (tm.get('tools') or {})),
        'params': own_level(c.get('params')), 'headers': own_level(c.get('headers')),
        'headerList': json.dumps(c.get('headerList')), 'cookie': own_level(c.get('cookie')),
        'config': own_level(c.get('config')), 'uniqueId': '',
        'local': own_level(c.get('local')), 'remote': own_level(c.get('remote')),
        'respHeaders': own_level(c.get('respHeaders')), 'respCookie': own_level(c.get('respCookie')),
        'processors': own_level(c.get('processors')), 'attemptCharsets': json.dumps(c.get('attemptCharsets')),
        'bodyParams': own_level(c.get('bodyParams')), 'parts': json.dumps(c.get('parts')),
    }
    out['bodyHeaders'] = out['headers']
    out['requestParams'] = out['params']
    return out


MARKER_RE = __import__('re').compile(r'(?i)mk\d{3}kx\d+')
TOK_RE = __import__('re').compile(r'(?i)tk\d{3}k')


def class_items():
    """class cell -> items, in the same naming as slot_items."""
    from cherrypy import _cprequest, _cpreqbody
    Rq, P, E = _cprequest.Request, _cprequest.Response, _cpreqbody.Entity
    pseudo = {
        'hooks': {str(p): [S.canon_hook(h) for h in hs] for p, hs in Rq.hooks.items()},
        'errorPage': S.canon(dict(Rq.error_page)), 'namespaces': S.canon(dict(Rq.namespaces)),
        'toolmaps': S.canon(Rq.toolmaps), 'params': S.canon(Rq.params), 'headers': S.canon_headers(Rq.headers),
        'headerList': S.canon(Rq.header_list), 'cookie': S.canon_cookie(Rq.cookie),
        'respHeaders': S.canon_headers(P.headers), 'respCookie': S.canon_cookie(P.cookie),
        'processors': S.canon(dict(E.processors)), 'attemptCharsets': S.canon(E.attempt_charsets),
    }
    it = slot_items(pseudo)
    return {cell: it[slot] for slot, cell in COUNTERPART.items()}


# ------------------------------------------------------------------------------------------------
# the construction table, by introspection of live objects
# ------------------------------------------------------------------------------------------------
PROBE_SITE = {'apps': [
    {'script_name': '', 'toolbox': None, 'wsgi_tag': 'app0', 'cpconfig': {}, 'mw': True,
     'config': {'/': [['hook', 'before_handler', 'cb0', 50, False, 'h0'], ['errpage', 404, 'ep0']],
                '/a': [['tool', 'c10t1', {'which': 'proc0', 'ct': 'application/x-c10-0'}], ['resphdr', 'X-Cfg-0', 'c0']],
                '/b': [['tool', 'c10t3', {'name': 'X-C10-T3-0', 'value': 'v0'}], ['reqattr', 'c10_cfg_0', 'a0']]}},
    {'script_name': '/m2', 'toolbox': 'tbx1', 'wsgi_tag': 'app1', 'cpconfig': {},
     'config': {'/': [['tbtool', 'tbx1', 'tb0'], ['hook', 'on_end_request', 'cb1', 10, True, 'h1']],
                '/a/x': [['rhtool', [['X-Rh-0', 'r0']]], ['errpage', 'default', 'ep1']]}},
]}


def probe_case():
    plans, n = [], 0
    shapes = [(0, '/', 'index', {}), (0, '/a/', 'post', {'method': 'POST', 'body': 'btoken=%s&x=1'}),
              (0, '/a/', 'postx', {'method': 'POST', 'ctype': 'application/x-c10-0', 'body': 'payload-%s'}),
              (0, '/b/stream', 'stream', {}), (1, '/a/x/err', 'err', {}), (1, '/b/y/boom', 'boom', {}),
              (1, '/a/redir', 'redir', {'redirect_to': '/a/x/'}), (0, '/b/nope/zzz', 'notfound', {}),
              (1, '/a/x/', 'index', {}), (0, '/', 'index', {})]
    for app, path, kind, extra in shapes:
        n += 1
        tok = S.token_of(n)
        p = {'app': app, 'token': tok, 'kind': kind, 'method': 'GET', 'path': path, 'ops': [],
             'parks': ['handler'] if kind in ('index', 'post', 'stream', 'err') else []}
        p.update(extra)
        if 'body' in p:
            p['body'] = p['body'] % tok
        plans.append(p)
    assign = [i % 3 for i in range(len(plans))]
    schedule = [0, 1, 2, 0, 1, 2, 1, 0, 2, 2, 1, 0]
    return {'site': PROBE_SITE, 'plans': plans, 'nthreads': 3, 'assign': assign, 'schedule': schedule}


RANK = {'fresh': 0, 'aliasSlot': 1, 'aliasClass': 2}


def lean_slot(name):
    return 'hookLists' if name.startswith('hookList.') else name


def classify(res):
    """slot -> ('fresh', copyOf|None) | ('aliasSlot', root) | ('aliasClass', cell), worst case over all probes."""
    class_ids = {}
    for name, o in S.class_level_objects().items():
        if R._is_collection(o):
            class_ids.setdefault(id(o), class_cell_of(name))
    recs = [r for r in res['records'] if r is not None] + [b[1] for b in res['baselines'].values()]
    owner = {}
    verdict = {}
    seen_contents = {}
    for ri, rec in enumerate(recs):
        for (stage, objs), snap in zip(rec['objs'], rec['snaps']):
            sub = snap.get('sub', 0)
            first = {}
            items = slot_items(snap['contents'])
            for name in [n for n in objs if lean_slot(n) in SLOTS]:
                o = objs[name]
                ls = lean_slot(name)
                if not R._is_collection(o):
                    continue
                if id(o) in class_ids:
                    v = ('aliasClass', class_ids[id(o)])
                else:
                    prev = owner.setdefault(id(o), (ri, sub))
                    if prev != (ri, sub):
                        v = ('aliasClass', 'other')
                    elif id(o) in first and first[id(o)] != ls:
                        v = ('aliasSlot', first[id(o)])
                    else:
                        v = ('fresh', None)
                        if not name.startswith('hookList.'):
                            first.setdefault(id(o), ls)
                if ls not in verdict or RANK[v[0]] > RANK[verdict[ls][0]]:
                    verdict[ls] = v
                if stage == 'start:in' and ls in items:
                    seen_contents.setdefault(ls, []).append(items[ls])
    missing = [s for s in SLOTS if s not in verdict]
    if missing:
        raise common.HarnessError('table probes never observed the attributes %s' % missing)
    ci = class_items()
    for s, v in list(verdict.items()):
        if v[0] == 'fresh' and s in COUNTERPART:
            cls = ci[COUNTERPART[s]]
            if cls and all(set(cls) <= set(c) for c in seen_contents.get(s, [[]])):
                verdict[s] = ('fresh', COUNTERPART[s])
    return verdict


def default_table():
    import cherrypy
    class_ids = {}
    for name, o in S.class_level_objects().items():
        if R._is_collection(o):
            class_ids.setdefault(id(o), class_cell_of(name))
    objs = S.slot_objects(cherrypy._Serving.request, cherrypy._Serving.response)
    out = {}
    for name, o in objs.items():
        ls = lean_slot(name)
        if ls in SLOTS and R._is_collection(o):
            out[ls] = class_ids.get(id(o), 'other')
    return out


APP_SLOTS = ['config', 'namespaces', 'toolboxes', 'pipeline', 'wsgiConfig', 'log']


def app_table():
    """Collection attributes of freshly constructed Applications: fresh object or class-level object?"""
    from cherrypy import _cptree, _cpwsgi

    class Root(object):
        pass
    a1, a2 = _cptree.Application(Root(), '/c10p1'), _cptree.Application(Root(), '/c10p2')
    A, W = _cptree.Application, _cpwsgi.CPWSGIApp
    get = {'config': (lambda a: a.config, A.config, 'appConfig'),
           'namespaces': (lambda a: a.namespaces, A.namespaces, 'appNamespaces'),
           'toolboxes': (lambda a: a.toolboxes, A.toolboxes, 'appToolboxes'),
           'pipeline': (lambda a: a.wsgiapp.pipeline, W.pipeline, 'wsgiPipeline'),
           'wsgiConfig': (lambda a: a.wsgiapp.config, W.config, 'wsgiConfig'),
           'log': (lambda a: a.log, A.log, None)}
    out = {}
    for s in APP_SLOTS:
        f, cls, cell = get[s]
        o1, o2 = f(a1), f(a2)
        if cls is not None and (o1 is cls or o2 is cls):
            out[s] = ('aliasClass', cell or 'other')
        elif o1 is o2:
            out[s] = ('aliasClass', 'other')
        else:
            copy = None
            if cell and cls and len(cls) and all(k in o1 for k in (cls if isinstance(cls, dict) else [])) \
                    and (isinstance(cls, dict) or list(o1[:len(cls)]) == list(cls)):
                copy = cell
            out[s] = ('fresh', copy)
    return out


def lean_tables(verdict, dflt, thread_local, release_clears, apps=None, extra=''):
    def src(v):
        if v[0] == 'fresh':
            return '.fresh none' if v[1] is None else '.fresh (some .%s)' % v[1]
        if v[0] == 'aliasSlot':
            return '.aliasSlot .%s' % v[1]
        return '.aliasClass .%s' % v[1]
    lines = ['import CpModel.Isolation', 'import CpModel.IsolationApp', 'import CpModel.IsolationCfg',
             'import CpModel.IsolationRelease',
             '/-! GENERATED by harness/c10_model.py from live request objects of the code under test (created through',
             '    the real Application.get_serving / Request.run on probe paths, sequentially and overlapped on three',
             '    threads): for every per-request collection attribute, whether it is a fresh object, IS a class-level',
             '    object, or IS another attribute of the same request.  Do not edit. -/',
             'namespace CpModel.Gen.C10', 'open CpModel.Isolation', '', 'def requestTable : Table']
    for s in SLOTS:
        lines.append('  | .%s => %s' % (s, src(verdict[s])))
    lines += ['', '/-- The same attributes on the default objects `cherrypy.serving` falls back to when nothing is loaded. -/',
              'def defaultTable : Slot → Option ClassCell']
    for s in SLOTS:
        if s in dflt:
            lines.append('  | .%s => some .%s' % (s, dflt[s]))
    if len(dflt) < len(SLOTS):
        lines.append('  | _ => none')
    lines += ['', 'def lifecycle : Lifecycle := { threadLocal := %s, releaseClears := %s }'
              % ('true' if thread_local else 'false', 'true' if release_clears else 'false'),
              '', '/-- Collection attributes of a new Application / its CPWSGIApp. -/', 'def appTable : AppTable']
    for s_ in APP_SLOTS:
        lines.append('  | .%s => %s' % (s_, src(apps[s_])))
    if extra:
        lines.append(extra)
    lines += ['', 'end CpModel.Gen.C10', '']
    return '\n'.join(lines)


# ------------------------------------------------------------------------------------------------
# real run -> driver line + expected observations
# ------------------------------------------------------------------------------------------------
MARK_BASE = 1000000
OP_SLOT = {'reqDict': 'reqObj', 'respDict': 'respObj', 'bodyDict': 'bodyObj', 'servingDict': 'serving'}


class Interner(object):
    def __init__(self):
        self.d = {}

    def __call__(self, slot, s):
        s = TOK_RE.sub('TOKEN', s)          # the request's own token is not part of an entry's identity
        return self.d.setdefault((slot, s), len(self.d) + 1)

    def marker(self, m):
        return MARK_BASE + self.d.setdefault(('marker', m.lower()), len(self.d) + 1)


def _items_str(xs):
    return ','.join(str(x) for x in xs) if xs else '-'


def build_io(case, res, verdict):
    """Returns (driver line, expected) where expected = list of per-observation dicts in driver output order."""
    if res.get('aborted'):
        return None
    intern = Interner()
    ci = class_items()
    toks = []
    for cell, items in sorted(ci.items()):
        if items:
            toks.append('C:%s:%s' % (cell, _items_str([intern(cell, x) for x in items])))
    # class-cell items and slot items must share numbers when they are "the same entry": intern by COUNTERPART cell
    def item_no(slot, s):
        root = {'bodyHeaders': 'headers', 'requestParams': 'params'}.get(slot, slot)
        return intern(COUNTERPART.get(root, root), s)
    thread_of, plan_of, rec_of = {}, {}, {}
    for i, p in enumerate(case['plans']):
        thread_of[p['token']] = case['assign'][i]
        plan_of[p['token']] = p
        rec_of[p['token']] = res['records'][i]
    urls = {}
    for k, (bp, brec) in res['baselines'].items():
        thread_of[bp['token']] = 99
        plan_of[bp['token']] = bp
        rec_of[bp['token']] = brec
        for snap in brec['snaps']:
            if snap['stage'] == 'start:in':
                u = urls.setdefault((k, snap['sub']), len(urls) + 1)
                items = slot_items(snap['contents'])
                for s in SLOTS:
                    if s in ('bodyHeaders', 'requestParams', 'respBody'):
                        continue
                    its = items.get(s, [])
                    v = verdict[s]
                    if v[0] == 'fresh' and v[1]:
                        its = [x for x in its if x not in set(ci[v[1]])]
                    if its:
                        toks.append('U:%d:%s:%s' % (u, s, _items_str([item_no(s, x) for x in its])))
    expected = []
    marker_point = {}
    measured = set(urls)          # (url, sub-request) pairs whose config-driven entries the baselines measured
    for ev in res['events']:
        kind, tok = ev[0], ev[1]
        t = thread_of[tok]
        plan, rec = plan_of[tok], rec_of[tok]
        if kind == 'B':
            # a request that never reached the `start` probe (it failed earlier) has no measured config entries
            toks.append('B:%d:%d' % (t, urls.setdefault((R.urlkey(plan), ev[2]), len(urls) + 1)))
        elif kind == 'D':
            toks.append('D:%d' % t)
            toks.append('O:%d' % t)
            expected.append({'kind': 'released', 'token': tok,
                             'loaded': bool([k for k in rec['serving_after'] if k != 'released_show_tracebacks'])})
        elif kind == 'O':
            snap = rec['snaps'][ev[3]]
            toks.append('O:%d' % t)
            # (a request whose own destructive ops changed its control flow may go through sub-requests its
            # baseline never had: nothing was measured for those)
            e = {'kind': 'snap', 'token': tok, 'stage': snap['stage'],
                 'exact': snap['stage'] == 'start:in' and (R.urlkey(plan), snap.get('sub', 0)) in measured}
            if e['exact']:
                its = slot_items(snap['contents'])
                e['items'] = {s: sorted(item_no(s, x) for x in its.get(s, [])) for s in SLOTS if s != 'respBody'}
                objs = rec['objs'][ev[3]][1]
                e['alias'] = real_alias(objs, res)
            txt = slot_marker_text(snap['contents'])
            e['markers'] = {s: sorted({intern.marker(m) for m in MARKER_RE.findall(txt.get(s, ''))})
                            for s in SLOTS if s != 'respBody'}
            e['markers']['S'] = sorted({intern.marker(m) for m in MARKER_RE.findall(' '.join(snap['serving']))})
            expected.append(e)
        elif kind == 'M':
            op = plan['ops'][ev[3]]
            before = rec['snaps'][ev[4]]['contents'] if ev[4] >= 0 else {}
            toks.extend(op_tokens(t, op, intern, item_no, slot_items(before), marker_point))
    toks.append('K')
    final = {}
    ci_after = class_items()
    for cell, items in ci_after.items():
        if items:
            final[cell] = sorted(intern(cell, x) for x in items)
    expected.append({'kind': 'class', 'cells': final})
    return ' '.join(toks), expected


def real_alias(objs, res):
    """slot -> 'own:<root slot>' | 'cls:<cell>' for the real objects of one snapshot."""
    class_ids = {}
    for name, o in S.class_level_objects().items():
        if R._is_collection(o):
            class_ids.setdefault(id(o), class_cell_of(name))
    out, first = {}, {}
    hook_lists = []
    for name, o in objs.items():
        ls = lean_slot(name)
        if ls not in SLOTS or not R._is_collection(o):
            continue
        if id(o) in class_ids:
            v = 'cls:' + class_ids[id(o)]
        else:
            v = 'own:' + first.setdefault(id(o), ls)
        if name.startswith('hookList.'):
            hook_lists.append(v)
        else:
            out[ls] = v
    if hook_lists:
        worst = [v for v in hook_lists if v.startswith('cls:')]
        out['hookLists'] = worst[0] if worst else 'own:hookLists'
    return out


def op_tokens(t, op, intern, item_no, before, marker_point):
    """Model events for one real mutate op."""
    name, marker = op['op'], op['marker']
    slot, kind = S.OPS[name]
    slot = OP_SLOT.get(slot, slot)
    m = intern.marker(marker)
    if name in ('remote.ip.set', 'local.name.set'):      # an overwrite: the previous marker value is gone
        return ['M:%d:%s:c:0' % (t, slot), 'M:%d:%s:a:%d' % (t, slot, m)]
    if kind == 'set':
        return []
    if name == 'hooks.newpoint':
        marker_point[marker] = 'pt_' + marker
        return ['M:%d:hooks:a:%d' % (t, m), 'M:%d:hookLists:a:%d' % (t, m)]
    if name in ('hooks.attach', 'hooks.append'):
        marker_point[marker] = op['arg']
        return ['M:%d:hookLists:a:%d' % (t, m)]
    if kind == 'add':
        return ['M:%d:%s:a:%d' % (t, slot, m)]
    if name == 'hooks.clearpoint':
        out = ['M:%d:hookLists:d:%d' % (t, item_no('hookLists', x)) for x in before.get('hookLists', [])
               if x.startswith(op['arg'] + '|') and not MARKER_RE.search(x)]
        out += ['M:%d:hookLists:d:%d' % (t, intern.marker(mk)) for mk, pt in marker_point.items() if pt == op['arg']]
        return out
    if name in ('processors.clear', 'error_page.clear', 'toolmaps.tools.clear', 'charsets.clear'):
        return ['M:%d:%s:c:0' % (t, slot)]
    if name in ('processors.pop', 'namespaces.pop', 'config.pop', 'resp.headers.pop'):
        return ['M:%d:%s:d:%d' % (t, slot, item_no(slot, str(op['arg'])))]
    raise common.HarnessError('no model translation for op %r' % name)


def parse_output(line):
    obs = []
    for part in line.split(' '):
        if part.startswith('K['):
            cells = {}
            body = part[2:-1]
            for f in body.split(';') if body else []:
                k, v = f.split('=')
                cells[k] = sorted(int(x) for x in v.split(',')) if v != '-' else []
            obs.append({'kind': 'class', 'cells': cells})
        else:
            body = part[part.index('[') + 1:-1]
            items, alias, sat, loaded = {}, {}, [], None
            for f in body.split(';'):
                k, v = f.split('=', 1)
                if k == 'S':
                    sat = [int(x) for x in v.split(',')] if v != '-' else []
                elif k == 'L':
                    loaded = v == '1'
                else:
                    val, addr = v.split('@')
                    items[k] = None if val == 'none' else (sorted(int(x) for x in val.split(',')) if val != '-' else [])
                    alias[k] = addr
            obs.append({'kind': 'thread', 'items': items, 'alias': alias, 'S': sat, 'loaded': loaded})
    return obs


def compare(expected, model_line):
    """Returns None when the model and the real run agree, else (what, impl, model)."""
    obs = parse_output(model_line)
    if len(obs) != len(expected):
        return ('number of observations', len(expected), len(obs))
    for e, m in zip(expected, obs):
        if e['kind'] == 'class':
            if m['kind'] != 'class' or m['cells'] != e['cells']:
                return ('class-level cell contents at the end of the history', e['cells'], m.get('cells'))
        elif e['kind'] == 'released':
            if m['loaded'] != e['loaded']:
                return ('serving entry after release of %s' % e['token'], e['loaded'], m['loaded'])
        else:
            if not m['loaded']:
                return ('request %s at %s: model has nothing loaded' % (e['token'], e['stage']), True, False)
            if e['exact']:
                for s, its in e['items'].items():
                    mi = m['items'].get(s)
                    if mi is None or sorted(x for x in mi if x < MARK_BASE) != its:
                        return ('initial contents of %s for request %s' % (s, e['token']), its, mi)
                for s, a in e['alias'].items():
                    if m['alias'].get(s) != a:
                        return ('fresh/alias relation of %s for request %s' % (s, e['token']), a, m['alias'].get(s))
            for s, mk in e['markers'].items():
                mm = m['S'] if s == 'S' else (m['items'].get(s) or [])
                mm = sorted({x for x in mm if x >= MARK_BASE})
                if mm != mk:
                    return ('mutation markers visible in %s of request %s at %s' % (s, e['token'], e['stage']), mk, mm)
    return None
