"""C10 - which lines of the anchored functions the run executes.

`sys.monitoring` LINE events restricted to the code objects of the functions the property is anchored in; every
location reports once per process and is then disabled, so the cost is negligible.  The evaluation happens in forked
children: each child starts its own measurement and ships the new hits back with its results.  Lines that never ran
end up in ctx.extra['anchored_lines_not_executed'].
"""
import importlib
import linecache
import os
import sys
import types

# (module, [qualified names])
ANCHORED = [
    ('cherrypy', ['_Serving.load', '_Serving.clear', '_ThreadLocalProxy.__getattr__', '_ThreadLocalProxy.__setattr__',
                  '_ThreadLocalProxy.__delattr__', '_ThreadLocalProxy.__getitem__', '_ThreadLocalProxy.__setitem__',
                  '_ThreadLocalProxy.__contains__']),
    ('cherrypy._cptree', ['Application.__init__', 'Application.get_serving', 'Application.release_serving',
                          'Application.merge']),
    ('cherrypy._cprequest', ['Request.__init__', 'Request.close', 'Request.run', 'Request.respond',
                             'Request._do_respond', 'Request.get_resource', 'Request.handle_error',
                             'HookMap.__new__', 'HookMap.attach', 'HookMap.run', 'HookMap.run_hooks',
                             'HookMap.__copy__', 'Response.__init__', 'hooks_namespace', 'request_namespace',
                             'response_namespace', 'error_page_namespace']),
    ('cherrypy._cpdispatch', ['Dispatcher.__call__', 'Dispatcher.find_handler']),
    ('cherrypy._cpreqbody', ['Entity.__init__', 'RequestBody.__init__']),
    ('cherrypy._cpwsgi', ['AppResponse.__init__', 'AppResponse.close', 'AppResponse.run', 'InternalRedirector.__call__',
                          '_TrappedResponse.__init__', '_TrappedResponse.close', '_TrappedResponse.trap',
                          'CPWSGIApp.__init__', 'CPWSGIApp.tail', 'CPWSGIApp.__call__']),
]


def _funcs(obj):
    if isinstance(obj, (classmethod, staticmethod)):
        obj = obj.__func__
    if isinstance(obj, types.FunctionType):
        return [obj]
    f = getattr(obj, '__func__', None)
    if isinstance(f, types.FunctionType):
        return [f]
    return []


class Coverage(object):
    def __init__(self):
        self.codes = {}
        self.hit = set()
        self.fresh = []
        self.tid = None
        self.missing_anchors = []
        for modname, names in ANCHORED:
            try:
                mod = importlib.import_module(modname)
            except Exception:
                self.missing_anchors.append(modname)
                continue
            for qn in names:
                obj = mod
                try:
                    for part in qn.split('.'):
                        obj = vars(obj)[part] if isinstance(obj, type) else getattr(obj, part)
                except (AttributeError, KeyError):
                    self.missing_anchors.append('%s.%s' % (modname, qn))
                    continue
                fs = _funcs(obj)
                if not fs:
                    self.missing_anchors.append('%s.%s' % (modname, qn))
                for f in fs:
                    self._code(f.__code__)

    def _code(self, code):
        if code in self.codes:
            return
        self.codes[code] = True
        for c in code.co_consts:
            if isinstance(c, types.CodeType):
                self._code(c)

    def executable(self):
        out = set()
        for code in self.codes:
            for _, _, line in code.co_lines():
                if line is not None and line != code.co_firstlineno:
                    out.add((code.co_filename, line, code.co_qualname))
        return out

    def _line(self, code, line):
        k = (code.co_filename, line)
        if k not in self.hit:
            self.hit.add(k)
            self.fresh.append(k)
        return sys.monitoring.DISABLE

    def start(self):
        mon = getattr(sys, 'monitoring', None)
        if mon is None:
            return False
        for tid in (3, 4, 5, 2):
            try:
                mon.use_tool_id(tid, 'c10-cov')
            except ValueError:
                continue
            self.tid = tid
            break
        if self.tid is None:
            return False
        mon.register_callback(self.tid, mon.events.LINE, self._line)
        for code in self.codes:
            mon.set_local_events(self.tid, code, mon.events.LINE)
        return True

    def take(self):
        """The lines hit since the last call (picklable)."""
        out, self.fresh = self.fresh, []
        return out


def start():
    try:
        cov = Coverage()
        return cov if cov.start() else None
    except Exception:
        return None


def report(ctx, hits):
    cov = Coverage()
    ex = cov.executable()
    hits = set(hits)
    missed = sorted((f, l, q) for f, l, q in ex if (f, l) not in hits)
    lines = []
    for f, l, q in missed:
        src = linecache.getline(f, l).strip()
        rel = f.split(os.sep + 'cherrypy' + os.sep, 1)[-1]
        lines.append('%s:%d %s: %s' % (rel, l, q, src[:100]))
    ctx.extra['anchored_lines_executable'] = len(ex)
    ctx.extra['anchored_lines_executed'] = len(ex) - len(missed)
    ctx.extra['anchored_lines_not_executed'] = lines
    ctx.extra['anchored_lines_not_executed_why'] = (
        'custom _cp_dispatch branches and tools.staticdir.section of find_handler (outside the config model); multipart / '
        'Content-Disposition parsing of Entity.__init__ (Part level, C04); item access / delattr through _ThreadLocalProxy '
        '(request and response are not containers); throw_errors, HEAD, app-less requests in Request.run/_do_respond; '
        'start_response failing and KeyboardInterrupt/SystemExit inside the trapper (not injected); non-bytes status/header '
        'TypeErrors of AppResponse; Application(config=...) / CPWSGIApp(pipeline=...) constructor arguments')
    if cov.missing_anchors:
        ctx.extra['anchored_functions_not_found'] = cov.missing_anchors
    ctx.count('anchored_lines_not_executed', len(lines))
    ctx.count('anchored_lines_executable', len(ex))
