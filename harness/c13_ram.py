"""C13 (a): real RamSession request threads + the real clean_up under the deterministic scheduler.

A *case* is {'kind': 'ram', 'n': 2|3, 'cache': None | [counter, exp], 'tbl': bool, 'sched': [tok…]}
with tokens '<i>' (request thread i), 'S' (sweeper), 'K<d>' (clock + d units).  One clock unit is
30 s of the fake `datetime` the session module sees; the session timeout is 1 minute = 2 units
(`CpModel.SessionLock.timeout`).

`run_case` executes the schedule on the real code and returns per-step snapshots in the canonical
form printed by the Lean driver, plus what the independent oracle needs (occupancy as counted by
the probe, saves/loads trace, lock ownership at the end, exceptions).
"""
from __future__ import annotations

import datetime as _dt

from . import common
from . import c13_sched as S

SID = 'c13' + '0' * 37
UNIT = 30                      # seconds per model clock unit
BASE = _dt.datetime(2030, 1, 1, 0, 0, 0)


class FakeDatetimeModule:
    """`cherrypy.lib.sessions.datetime`: logical clock."""

    def __init__(self):
        self.units = 0
        outer = self

        class _Meta(type):
            # the code under test may ask `isinstance(x, datetime.datetime)` through the rebound name
            def __instancecheck__(cls, obj):
                return isinstance(obj, _dt.datetime)

        class datetime(_dt.datetime, metaclass=_Meta):
            @classmethod
            def now(cls, tz=None):
                return BASE + _dt.timedelta(seconds=UNIT * outer.units)

        self.datetime = datetime
        self.timedelta = _dt.timedelta
        self.timezone = _dt.timezone


class Patched:
    """Context manager: rebind the primitives the session module looks up, restore afterwards."""

    def __init__(self, sched):
        self.sched = sched

    def __enter__(self):
        from cherrypy.lib import sessions
        self.sessions = sessions
        R = sessions.RamSession
        self.saved = (sessions.threading, sessions.datetime, R.cache, R.locks, R.clean_thread)
        self.clock = FakeDatetimeModule()
        sessions.threading = S.Shim(self.sched)
        sessions.datetime = self.clock
        R.cache = S.InstrDict(self.sched, 'cache')
        R.locks = S.InstrDict(self.sched, 'locks')
        return self

    def __exit__(self, *a):
        sessions = self.sessions
        R = sessions.RamSession
        sessions.threading, sessions.datetime, R.cache, R.locks, R.clean_thread = self.saved
        return False


def interesting(op):
    """Yield only at operations on the contended id, on whole tables, or on lock objects."""
    if op[0].startswith('lock.') or op[0] == 'start':
        return True
    return op[1] is None or op[1] == SID


# mapping (phase, pending op) -> model pc
def thread_pc(st, phase):
    if st.status == 'done':
        if st.exc is not None:
            return 'crashed'
        return st.result
    op = st.pending
    k = op[0]
    if k == 'start':
        return 'init'
    if phase == 'init':
        return 'init' if k == 'cache.contains' else '?' + k
    if phase == 'acquire':
        return {'locks.setdefault': 'setdef', 'lock.acquire': 'acq', 'locks.get': 'chk',
                'locks.getitem': 'chk', 'locks.contains': 'chk', 'lock.release': 'rel0'}.get(k, '?' + k)
    if phase == 'cs':
        return {'cache.get': 'load', 'data.write': 'write', 'cache.setitem': 'save'}.get(k, '?' + k)
    if phase == 'release':
        return {'cache.setitem': 'save', 'locks.getitem': 'lookup', 'locks.get': 'lookup',
                'lock.release': 'rel'}.get(k, '?' + k)
    return '?' + k


SWEEP_PC = {'start': 'copy', 'sweep.start': 'copy', 'cache.copy': 'copy', 'cache.delitem': 'del', 'locks.getitem': 'get',
            'locks.get': 'get', 'lock.acquire': 'try', 'locks.pop': 'pop', 'lock.release': 'rel',
            'locks.iter': 'list', 'cache.contains': 'chk'}


class RamRun:
    def __init__(self, n, cache, tbl):
        self.n = n
        self.sched = S.Sched(interesting=interesting)
        self.P = Patched(self.sched)
        self.P.__enter__()
        sessions = self.P.sessions
        self.R = R = sessions.RamSession
        self.lock_index = {}       # InstrRLock -> canonical index (order of insertion into the table)
        self.locks_seen = []
        if cache is not None:
            dict.__setitem__(R.cache, SID, ({'n': cache[0]}, BASE + _dt.timedelta(seconds=UNIT * cache[1])))
        if tbl:
            l0 = S.InstrRLock(self.sched)
            dict.__setitem__(R.locks, SID, l0)
        self._index_table()
        self.phase = {}
        self.occ = 0
        self.max_occ = 0
        self.occ_events = []
        self.version = 0
        self.seen = {}
        self.lost = False
        self.saves = 0
        self.orphan_acquire = False
        self.errors = {}
        self.second = False
        self.sweeper_crashed = None
        for i in range(n):
            self.sched.spawn('r%d' % i, self._worker(i))
            self.sched.step('r%d' % i)      # thread-local prologue: park in front of the first shared op
        self.sched.spawn('S', self._sweeper)
        self.sched.step('S')                # park in front of the first sweep

    # ---- the real code the threads run -------------------------------------------------------
    def _worker(self, i):
        name = 'r%d' % i
        R = self.R

        def enter():
            self.occ += 1
            self.max_occ = max(self.max_occ, self.occ)
            self.occ_events.append(('enter', name))

        def leave():
            self.occ -= 1
            self.occ_events.append(('leave', name))

        def body():
            self.phase[name] = 'init'
            s = R(id=SID, timeout=1, clean_freq=0)          # Session.__init__ (what sessions.init does)
            if s.id != SID:
                return 'gone'
            real_release = s.release_lock

            def release_lock():                              # probe: occupancy ends when release starts
                if self.phase[name] in ('cs', 'release'):
                    self.phase[name] = 'release'
                    leave()
                return real_release()
            s.release_lock = release_lock
            self.phase[name] = 'acquire'
            s.acquire_lock()                                 # SessionTool._lock_session
            self.phase[name] = 'cs'
            enter()
            v = s.get('n', 0)                                # page handler: read-modify-write
            self.sched.yield_point(('data.write', SID))      # the handler is not atomic
            s['n'] = v + 1
            s.save()                                         # sessions.save -> Session.save (finally: release)
            return 'done'
        return body

    def _sweeper(self):
        s = self.R.__new__(self.R)
        s.id_observers = []
        while True:
            # `now = self.now()` is thread-local and commutes with every other actor's step; the
            # controller runs it together with the `cache.copy()` that follows (see docs/C13.md)
            self.sched.yield_point(('sweep.start', None))
            s.clean_up()

    # ---- controller ----------------------------------------------------------------------------
    def _index_table(self):
        l = dict.get(self.R.locks, SID)
        if l is not None and l not in self.lock_index:
            self.lock_index[l] = len(self.locks_seen)
            self.locks_seen.append(l)

    def step(self, tok):
        sched = self.sched
        if tok.startswith('K'):
            self.P.clock.units += int(tok[1:])
            return
        name = 'S' if tok == 'S' else 'r' + tok
        st = sched.threads[name]
        if name == 'S' and st.status != 'done' and st.pending[0] == 'sweep.start':
            sched.step('S')
        op = sched.pending(name) if sched.enabled(name) else None
        if op is not None and name != 'S':
            # ghost bookkeeping for the oracle, from the operation about to execute
            if op[0] == 'cache.get':
                self.seen[name] = self.version
            elif op[0] == 'data.write':
                if self.seen.get(name) != self.version:
                    self.lost = True
                self.version += 1
                self.saves += 1
            elif op[0] == 'lock.acquire' and self.phase.get(name) == 'acquire':
                if dict.get(self.R.locks, SID) is not op[1]:
                    self.orphan_acquire = True
        if op is not None and name == 'S':
            if op[0] == 'locks.iter':
                self.second = True
            elif op[0] == 'cache.copy':
                self.second = False
        sched.step(name)
        self._index_table()
        if st.status == 'done' and st.exc is not None and name not in self.errors:
            self.errors[name] = type(st.exc).__name__
            if isinstance(st.exc, (common.HarnessError, S._Abandoned)):
                raise common.HarnessError('managed thread %s: %r' % (name, st.exc))

    def snapshot(self):
        R, sched = self.R, self.sched
        tl = dict.get(R.locks, SID)
        t = str(self.lock_index[tl]) if tl is not None else '-'
        hs = []
        for l in self.locks_seen:
            hs.append('-' if l.owner is None else '%s.%d' % (l.owner, l.count))
        c = dict.get(R.cache, SID)
        if c is None:
            cs = '-'
        else:
            exp = (c[1] - BASE).total_seconds() / UNIT
            cs = '%s:%s' % (c[0].get('n'), int(exp) if exp == int(exp) else exp)
        ps = [str(thread_pc(sched.threads['r%d' % i], self.phase.get('r%d' % i))) for i in range(self.n)]
        sw = sched.threads['S']
        if sw.status == 'done':
            w = 'crashed'
        else:
            w = SWEEP_PC.get(sw.pending[0], '?' + sw.pending[0])
        reqs = ['r%d' % i for i in range(self.n)]
        unfinished = any(not sched.done(r) for r in reqs)
        dead = unfinished and not any(sched.enabled(r) for r in reqs)
        return 'T=%s;H=%s;C=%s;P=%s;W=%s%d;L=%d;D=%d' % (
            t, ','.join(hs) or '-', cs, ','.join(ps), w, 2 if self.second else 1,
            1 if self.lost else 0, 1 if dead else 0)

    def finish(self, snaps=None):
        """Let every request thread that can still run finish (no sweeper, no clock).  Returns the
        tokens executed."""
        extra = []
        reqs = [str(i) for i in range(self.n)]
        guard = 0
        sw = self.sched.threads['S']
        while sw.status != 'done' and sw.pending[0] != 'sweep.start':   # let the sweeper end its sweep
            self.step('S')
            extra.append('S')
            if snaps is not None:
                snaps.append(self.snapshot())
            guard += 1
            if guard > 40:
                raise common.HarnessError('sweep does not terminate')
        while True:
            progressed = False
            for tok in reqs:
                name = 'r' + tok
                while self.sched.enabled(name):
                    self.step(tok)
                    extra.append(tok)
                    if snaps is not None:
                        snaps.append(self.snapshot())
                    progressed = True
                    guard += 1
                    if guard > 400:
                        raise common.HarnessError('request threads do not terminate')
            if not progressed:
                break
        return extra

    def observations(self):
        sched = self.sched
        reqs = ['r%d' % i for i in range(self.n)]
        held = []
        all_locks = list(self.locks_seen)
        for l in all_locks:
            if l.owner is not None:
                held.append(str(l.owner))
        blocked = [r for r in reqs if not sched.done(r) and not sched.enabled(r)]
        c = dict.get(self.R.cache, SID)
        return {'max_occ': self.max_occ, 'lost': self.lost, 'saves': self.saves,
                'errors': dict(self.errors), 'held_by': held, 'blocked': blocked,
                'unfinished': [r for r in reqs if not sched.done(r)],
                'results': {r: (sched.threads[r].result if sched.done(r) else None) for r in reqs},
                'counter': (c[0].get('n') if c is not None else None),
                'orphan_acquire': self.orphan_acquire,
                'sweeper_error': (type(sched.threads['S'].exc).__name__
                                  if sched.done('S') and sched.threads['S'].exc is not None else None)}

    def close(self):
        try:
            self.sched.close()
        finally:
            self.P.__exit__()


def run_case(case, finish=True):
    """Execute one schedule.  Returns (snapshots per token, tokens actually executed incl. the
    finishing suffix, observations)."""
    run = RamRun(case['n'], case.get('cache'), bool(case.get('tbl')))
    try:
        snaps = []
        toks = list(case['sched'])
        for tok in toks:
            run.step(tok)
            snaps.append(run.snapshot())
        if finish:
            toks = toks + run.finish(snaps)
        obs = run.observations()
        obs['final'] = run.snapshot()
        return snaps, toks, obs
    finally:
        run.close()


def detect_variant():
    """Which acquire_lock protocol does the live code implement?  Decided by behaviour: does a
    single uncontended request consult the lock table again between acquiring and loading."""
    run = RamRun(1, [0, 100], False)
    try:
        pcs = []
        for _ in range(12):
            pcs.append(thread_pc(run.sched.threads['r0'], run.phase.get('r0')))
            if run.sched.done('r0'):
                break
            run.step('0')
        return ('recheck' if 'chk' in pcs else 'orig'), pcs
    finally:
        run.close()
