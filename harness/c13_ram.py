"""C13: what the scheduled runners share — the logical clock the session module sees, the rebinding
of `sessions.threading` / `RamSession.cache` / `RamSession.locks` for whole WSGI requests on scheduled
threads (c13_wsgi.py), the contended session id of those runs.

One clock unit is 30 s of the fake `datetime`; the session timeout is 1 minute = 2 units
(`CpModel.SessionLockN.timeout`).  The lock-table runner itself is c13_ramn.py.
"""
from __future__ import annotations

import datetime as _dt

from . import common
from . import c13_sched as S

SID = 'c13' + '0' * 37
UNIT = 30                      # seconds per model clock unit
BASE = _dt.datetime(2030, 1, 1, 0, 0, 0)


class FakeDatetimeModule:
    """`cherrypy.lib.sessions.datetime`: logical clock."""

    def __init__(self):
        self.units = 0
        outer = self

        class _Meta(type):
            # the code under test may ask `isinstance(x, datetime.datetime)` through the rebound name
            def __instancecheck__(cls, obj):
                return isinstance(obj, _dt.datetime)

        class datetime(_dt.datetime, metaclass=_Meta):
            @classmethod
            def now(cls, tz=None):
                return BASE + _dt.timedelta(seconds=UNIT * outer.units)

        self.datetime = datetime
        self.timedelta = _dt.timedelta
        self.timezone = _dt.timezone


class Patched:
    """Context manager: rebind the primitives the session module looks up, restore afterwards."""

    def __init__(self, sched):
        self.sched = sched

    def __enter__(self):
        from cherrypy.lib import sessions
        self.sessions = sessions
        R = sessions.RamSession
        self.saved = (sessions.threading, sessions.datetime, R.cache, R.locks, R.clean_thread)
        self.clock = FakeDatetimeModule()
        sessions.threading = S.Shim(self.sched)
        sessions.datetime = self.clock
        R.cache = S.InstrDict(self.sched, 'cache')
        R.locks = S.InstrDict(self.sched, 'locks')
        return self

    def __exit__(self, *a):
        sessions = self.sessions
        R = sessions.RamSession
        sessions.threading, sessions.datetime, R.cache, R.locks, R.clean_thread = self.saved
        return False


def interesting(op):
    """Yield only at operations on the contended id, on whole tables, or on lock objects."""
    if op[0].startswith('lock.') or op[0] == 'start':
        return True
    return op[1] is None or op[1] == SID


