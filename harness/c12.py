"""C12 - client-controlled data cannot break out of headers, error pages or logs.

Model:    lean/CpModel/HeaderEnc.lean, lean/CpModel/Escape.lean (+ generated lean/CpModel/Gen/C12Tables.lean)
Theorems: lean/CpProofs/C12.lean          Driver: lean/Drv/C12.lean
Real code: (a) whole requests through an in-process WSGI call of a probe application whose handler
places the payload in the sink the case names, with the access-log record captured from the
application's access logger; (b) unit-level drives of HeaderMap.encode_header_item,
Response.finalize, get_error_page, HTTPRedirect.set_response, LogManager.access, SanitizedHost on a
hand-loaded `cherrypy.serving`.
The oracle (`oracle_*`) is written from the property statement; it never looks at the model.
"""
import base64
import email.header
import html
import html.parser
import io
import json
import logging
import os
import sys

from . import common
from . import c12_tables
from . import c12_more
from . import c12_cov

PROPERTY = 'C12'
LEAN_TARGETS = ['CpProofs.C12', 'CpProofs.C12Log', 'CpProofs.C12Norm', 'CpProofs.C12Cookie', 'CpProofs.C12Decode',
                'drv_c12']
DRIVER = 'drv_c12'
THEOREMS = [
    'CpProofs.C12.deleteTable_covers_controls',
    'CpProofs.C12.tables_as_modelled',
    'CpProofs.C12.encode_total',
    'CpProofs.C12.C12_headermap_clean',
    'CpProofs.C12.C12_headermap_bytes_clean',
    'CpProofs.C12.C12_output_clean',
    'CpProofs.C12.b64decN_b64encN',
    'CpProofs.C12.b64dec_b64enc',
    'CpProofs.C12.b64enc_clean',
    'CpProofs.C12.C12_rfc2047_roundtrip',
    'CpProofs.C12.C12_status_cookie_clean',
    'CpProofs.C12.C12_cookie_no_injection',
    'CpProofs.C12.C12_response_clean',
    'CpProofs.C12.C12_status_cookie_clean_old_false',
    'CpProofs.C12.cookieLinesOld_injects',
    'CpProofs.C12.C12_status_old_partial',
    'CpProofs.C12.C12_sanitizeHost_clean',
    'CpProofs.C12.htmlEscape_no_markup',
    'CpProofs.C12.htmlUnescape_htmlEscape',
    'CpProofs.C12.C12_error_page_escaped',
    'CpProofs.C12.errorPage_isSome',
    'CpProofs.C12.C12_error_page_failed_escaped',
    'CpProofs.C12.quoteattr_delimited',
    'CpProofs.C12.C12_redirect_page_escaped',
    'CpProofs.C12.C12_log_single_line_escaped',
    'CpProofs.C12.C12_log_quote_guarded',
    'CpProofs.C12.C12_log_line_quotes_guarded',
    'CpProofs.C12.C12_log_quote_strong_false',
    'CpProofs.C12.undouble_strong',
    'CpProofs.C12.C12_log_quote_strong_partial',
    # round 2: access log with custom formats / with the proposed backslash guard
    'CpProofs.C12.C12_log_custom_format_single_line',
    'CpProofs.C12.guard_good',
    'CpProofs.C12.undouble_strongEven',
    'CpProofs.C12.C12_log_guarded_strong',
    'CpProofs.C12.C12_log_guarded_printable',
    'CpProofs.C12.C12_log_line_strong_guarded',
    'CpProofs.C12.accessLogFormat_no_backslash',
    # round 2: header-name normalisation (str.title), valid_status
    'CpProofs.C12.caseTable_ascii_letters',
    'CpProofs.C12.C12_title_no_new_ascii_nonletter',
    'CpProofs.C12.ascii_case_facts',
    'CpProofs.C12.C12_title_ascii_idempotent',
    'CpProofs.C12.C12_title_idempotent_full_false',
    'CpProofs.C12.C12_title_ascii_case_insensitive',
    'CpProofs.C12.responseReasons_printable',
    'CpProofs.C12.C12_valid_status_reason_origin',
    'CpProofs.C12.C12_status_raw_clean',
    # round 2: http.cookies, Content-Disposition
    'CpProofs.C12.C12_urlQuote_safe',
    'CpProofs.C12.C12_content_disposition_ext_safe',
    'CpProofs.C12.content_disposition_quote_unescaped',
    'CpProofs.C12.C12_cookie_value_no_separator',
    'CpProofs.C12.cookieXlate_shapes',
    'CpProofs.C12.C12_cookie_value_roundtrip',
    'CpProofs.C12.C12_morsel_value_confined',
    'CpProofs.C12.morsel_attr_value_injects',
    # round 2: request-side RFC 2047 reader against the response-side writer
    'CpProofs.C12.C12_emitted_word_reads_back',
    'CpProofs.C12.C12_decoded_word_emitted_clean',
]
LEVEL = 'proof'
TECHNIQUE = ('Lean 4 proof over a byte-level model of header encoding, finalize, error/redirect page rendering and '
             'access-log escaping (induction over all strings; delete table regenerated from the live module and '
             'discharged by decide); model tied to the code by a differential comparison of emitted bytes')
LEVEL_TEXT = ('Proved in Lean for ALL Unicode strings (no bound): every byte of an encoded header item (str or bytes), of '
              'every HeaderMap.output() tuple, of the status line and of every cookie tuple of the repaired '
              'Response.finalize is >= 32 and != 127, with exactly one tuple per header item and per morsel; '
              'non-Latin-1 text becomes one RFC 2047 word, untouched by the delete step, whose own-base64 + core-UTF-8 '
              'decoding is the original, and which the model of the code\'s own request-side reader (decode_TEXT_maybe, '
              'one word) decodes to the original; in the rendered error page (ANY template, so custom error_page '
              'templates too), the failed-custom-page message and the redirect page every <, > and attribute delimiter '
              'comes from a literal and unescape(escape s) = s; every access-log atom and line (ANY format with printable '
              'literals) is printable ASCII with every atom-born double quote preceded by an atom-born backslash. '
              'Models with tables regenerated from the live functions: str.title() (no ASCII non-letter is ever created; '
              'total, idempotent and case-insensitive on ASCII; idempotence proved FALSE beyond ASCII with a witness), '
              'valid_status (reason = part of the status set or a printable default), http.cookies value quoting (no '
              '; , control or DEL for any value; the quoted form reads back; a value cannot add an attribute to '
              'Morsel.output()), urllib.parse.quote / the filename* parameter of Content-Disposition. Proved false with '
              'witnesses: cleanliness of the pre-fix finalize assembly (F12); the "odd number of backslashes before a '
              'quote" reading of the log clause for the code as it is (F13), with its partial theorem, and proved TRUE for '
              'every atom and line with the proposed backslash guard (model follows a probed flag). Observations beyond '
              'the statement, as theorems with witnesses: filename="..." of Content-Disposition and cookie ATTRIBUTE '
              'values are not quoted. Correspondence only: email.header beyond one encoded word, NFKC, int() beyond ASCII '
              'digits, what a working custom error_page callable returns (the escaped values it is handed are compared).')
LEVEL_NOTE = ('Trusted: Lean kernel, the hand model as validated by the differential run (emitted bytes of status '
              'line, header tuples, page bodies, log lines), the harness, CPython semantics of bytes.translate, '
              'repr(bytes), str.replace, %-formatting and str.format.')
TRUSTED_BASE = [
    'for whole requests the inputs of the emission step (status, header-map items, morsel output strings) are read '
    'from the live response object; str.title, valid_status, http.cookies quoting, Morsel.output and one-word RFC 2047 '
    'decoding are modelled separately (tables regenerated by running the live functions) and compared per case',
    'CPython semantics of bytes.translate, repr(bytes), str.replace, %-formatting, str.format, html.escape, '
    'saxutils.quoteattr as transcribed by hand and compared on every generated case',
]
ASSUMPTIONS = [
    'strings are sequences of Unicode scalar values (lone surrogates are driven through the oracle only)',
    'control character = octet 0..31 or 127 (CTL of RFC 2616)',
    'double quotes "escaped" is read as: preceded by a backslash (the weaker reading); the stronger reading '
    '(preceded by an odd number of backslashes) is evaluated too and reported as known finding F13',
]
RULE = ('payloads = 1-6 fragments drawn from control/markup/quote/encoded-word specials, random code points of every '
        'plane and ASCII words; each payload is placed in one of 44 sinks (response header value/name/bytes value, echo of a '
        'request header, cookie value/name/attribute, session cookie path via path_header and name/domain/path/flags via '
        'sessions.init, status reason, HTTPRedirect URL(s) x every 3xx, trailing-slash redirects (missing and extra) with the '
        'query, Host-derived redirect, tools.proxy X-Forwarded-Host/-For/-Proto/-Ssl, tools.response_headers, tools.allow, '
        'tools.autovary, Content-Disposition of serve_file x Range, staticdir x Range, auth_basic realm and login, HTTPError '
        'message/reason (tracebacks off/on, header set before the error), unexpected exception with tracebacks on, 404 by path '
        'and by NotFound, undecodable RFC 2047 word under a client-chosen header name, Cookie request header, custom error_page '
        'template / working callable (str, bytes, iterator, wrong type) / failing callable, request line, Referer, User-Agent, '
        'Host, login) under HTTP/1.0 or 1.1; request-header payloads travel raw, as b-word, as q-word (utf-8, iso-8859-1) or as '
        'an undecodable word; log-related sinks also under custom access_log_format strings (atoms o, i, z); response.stream; '
        'every sink that takes a value also with the value as a NON-str object whose str() is the payload (exception instance, '
        'object with __str__, UserString, str subclass); HTTP/1.0 and 1.1 x text outside Latin-1 x every header/cookie/reason '
        'sink as a fixed cross; plus unit-level drives of the same payload through 22 units; non-trivial = payload contains a control, markup, quote, '
        'backslash or non-ASCII character; distinct = distinct (sink, payload, protocol)')

CTL = set(range(32)) | {127}


# ----------------------------------------------------------------------------------------------
# payload generator
# ----------------------------------------------------------------------------------------------
SPECIALS = [
    '\r', '\n', '\r\n', '\x00', '\x7f', '\t', '\x0b', '\x0c', '\x1f', '\x1b', '\x08', '\x01',
    '<', '>', '&', '"', "'", '\\', '\\"', '\\\\', '\\\\"', '"\\', "'\"", '`',
    '=?utf-8?b?DQpYLUV2aWw6IDE=?=', '=?utf-8?q?=0D=0AX-Evil:_1?=', '=?', '?=', '=?utf-8?b?', '=?iso-8859-1?q?a=0Ab?=',
    ': ', ';', ',', ' ', '=', '%0d%0a', '%', '%s', '%(status)s', '{h}', '{', '}',
    '\x80', '\x85', '\x9f', '\xa0', '\xad', '\xff', 'Ā', 'ı', ' ', ' ', '舀', '﻿', '￿',
    '\U0001F600', '\U0010FFFF', 'K', 'ſ', 'İ',
    '<script>alert(1)</script>', '</p>', '</pre>', '</title>', '</a>', '<a href="x">', '<!--', '-->', ']]>',
    '&amp;', '&lt;', '&gt;', '&quot;', '&#10;', '&#x3c;', '&lt', '&',
    '\r\nX-Evil: 1', '\nX-Evil: 1', '\rX-Evil: 1', '\r\nSet-Cookie: evil=1', '\r\n\r\n<html>', '\r\nfoo',
    ' HTTP/1.1" 200 5 "', '" 200 0 "-" "', '\\x41', '\\n', '\\',
    'javascript:alert(1)', 'http://evil.example/', '//evil.example/', '/a/b?c=d&e=f', '?', '#',
]
WORDS = ['a', 'ab', 'x', 'foo', 'bar', 'Path', 'path', '/', '/x', 'en', 'gzip', 'OK', 'Not Found', 'id', '0', '42']


def rand_char(rng):
    k = rng.random()
    if k < 0.22:
        return chr(rng.choice(sorted(CTL)))
    if k < 0.47:
        return chr(rng.randint(32, 126))
    if k < 0.64:
        return chr(rng.randint(128, 255))
    if k < 0.70:
        return chr(rng.randint(256, 0x2ff))
    if k < 0.90:
        c = rng.randint(0x300, 0xffff)
        while 0xd800 <= c <= 0xdfff:
            c = rng.randint(0x300, 0xffff)
        return chr(c)
    return chr(rng.randint(0x10000, 0x10ffff))


def gen_payload(rng, maxfrag=6):
    n = rng.choice([1, 1, 1, 2, 2, 3, 3, 4, 5, maxfrag])
    parts = []
    for _ in range(n):
        k = rng.random()
        if k < 0.45:
            parts.append(rng.choice(SPECIALS))
        elif k < 0.75:
            parts.append(rand_char(rng))
        else:
            parts.append(rng.choice(WORDS))
    if rng.random() < 0.05:
        # long values: several base64 quanta, error pages beyond the IE padding sizes
        parts = parts * rng.choice([3, 8, 20]) + [rng.choice(WORDS) * rng.choice([5, 40])]
    return ''.join(parts)


def interesting(p):
    return any(ord(c) < 32 or ord(c) > 126 or c in '<>&"\'\\' for c in p)


def has_surrogate(s):
    return any(0xd800 <= ord(c) <= 0xdfff for c in s)


HEADER_NAMES = ['X-Probe', 'Vary', 'Allow', 'Location', 'Content-Disposition', 'WWW-Authenticate',
                'Content-Language', 'ETag', 'Link', 'Content-Location', 'X-Frame-Options']
COOKIE_ATTRS = ['path', 'domain', 'comment', 'expires', 'max-age', 'version', 'samesite']
WSGI_SINKS = [
    ('hv', 10), ('hn', 6), ('hb', 4), ('echo', 8), ('echo2047', 6), ('ckval', 5), ('ckattr', 12),
    ('sesspath', 7), ('sesspath2047', 5), ('reason', 9), ('redirect', 8), ('redirect2', 3), ('slashredir', 4),
    ('hostredir', 4), ('errmsg', 8), ('errreason', 4), ('errmsg_tb', 3), ('nf_path', 7), ('nf_raise', 3),
    ('reqline', 5), ('referer', 5), ('agent', 5), ('login', 5), ('multi', 6), ('errfail', 4), ('proxybase', 4),
    # round 2: every further place where request-derived (or configuration) text reaches a header, a page or the log
    ('xff', 5), ('xfproto', 3), ('resphdr', 3), ('allow', 3), ('autovary', 3), ('cdisp', 6), ('static', 4),
    ('realm', 3), ('basiclogin', 5), ('sesscfg', 4), ('ckname', 2), ('errtpl', 5), ('errcall', 4), ('tb_exc', 5),
    ('hostlog', 3), ('hdrname400', 3), ('cookiehdr', 4), ('slashextra', 3),
]
# how a request-header payload travels: as it is, or as an RFC 2047 encoded word whose DECODED text is the payload
# (process_headers strips the raw value, then decodes: CR/LF/NUL inside the decoded text survive)
VIAS = ['raw', 'raw', 'b', 'q', 'ql', 'bad']
VIA_SINKS = ('echo', 'sesspath', 'referer', 'agent', 'hostredir', 'proxybase', 'xff', 'xfproto', 'hostlog', 'static')
# access-log formats (LogManager.access_log_format is configuration; the atoms i, z, o only appear in custom ones)
LOG_FORMATS = [None, None, None,
               '{h} {l} {u} {t} "{r}" {s} {b} "{f}" "{a}" {o}',
               '{i} "{o}" {z} "{r}" "{u}"',
               '{a}|{f}|{r}|{h}',
               '{h} {l} {u} {z} "{r}" {s} {b} "{f}" "{a}" {o} {{x}}']
STATIC_FILES = ['f.txt', 'f.svg', 'f.weird', 'F.HTML', 'noext', 'f.tar.gz', 'missing.txt']


# custom error pages (configuration): templates filled by get_error_page's `template % kwargs`, and a callable
CUSTOM_TEMPLATE_DEFAULT = ('<html><head><title>%(status)s</title></head><body><h1 class="e">%(status)s</h1>'
                           '<div id="m">%(message)s</div><pre>%(traceback)s</pre><i>v%(version)s 100%%</i>'
                           '</body></html>')
CUSTOM_TEMPLATE_404 = ('<html><body><p>gone: %(message)s</p><p title="t">%(status)s</p>\r\n'
                       '<pre class="tb">%(traceback)s</pre></body></html>\n')
ERRCALL_TEMPLATE = '<html><body><h3>%(status)s</h3><p>%(message)s</p><pre>%(traceback)s</pre>%(version)s</body></html>'


# a value need not be a str: applications hand CherryPy exception instances, lazy-translation objects, str
# subclasses ... whose str() is the (request-derived) text.  Every sink that takes a value is also tried with these.
OBJ_KINDS = ['exc', 'obj', 'ustr', 'strsub']
OBJ_SINKS = ('hv', 'ckval', 'ckattr', 'reason', 'redirect', 'redirect2', 'errmsg', 'errmsg_tb', 'errreason', 'errfail',
             'nf_raise', 'login', 'resphdr', 'sesscfg', 'errtpl', 'errcall', 'tb_exc', 'allow', 'cdisp')


class _TextObject(object):
    def __init__(self, text):
        self._t = text

    def __str__(self):
        return self._t


class _StrSub(str):
    pass


def wrap_obj(text, kind):
    """A non-str (or str-subclass) object whose str() is `text`."""
    if not isinstance(text, str) or kind is None:
        return text
    if kind == 'exc':
        return ValueError(text)
    if kind == 'obj':
        return _TextObject(text)
    if kind == 'ustr':
        import collections
        return collections.UserString(text)
    if kind == 'strsub':
        return _StrSub(text)
    raise common.HarnessError('unknown object kind %r' % kind)


def to_wsgi_latin1(p):
    """How a WSGI server hands arbitrary request bytes to the application: UTF-8 octets as Latin-1."""
    return p.encode('utf-8', 'surrogatepass').decode('latin-1')


def rfc2047_word(p):
    return '=?utf-8?b?%s?=' % base64.b64encode(p.encode('utf-8')).decode('ascii')


def rfc2047_qword(p, charset='utf-8'):
    """Q-encoded word: every octet outside [A-Za-z0-9] as =XX (so CR, LF, NUL, '?', '_', ' ' all travel)."""
    raw = p.encode(charset)
    return '=?%s?q?%s?=' % (charset, ''.join(chr(b) if (48 <= b <= 57 or 65 <= b <= 90 or 97 <= b <= 122)
                                               else '=%02X' % b for b in raw))


def enc_req(p, via):
    """The octets (as the Latin-1 str a WSGI server hands over) that carry payload p in a request header."""
    if has_surrogate(p):
        return 'x' if via != 'raw' else to_wsgi_latin1(p)
    if via == 'bad':
        # an encoded word that cannot be decoded (invalid UTF-8 / unknown charset): process_headers answers 400
        body = rfc2047_qword(p)[10:-2]
        return ('=?utf-8?q?%s=FF?=' % body) if len(p) % 2 else ('=?x-nope?q?%s?=' % body)
    if via == 'b':
        return rfc2047_word(p)
    if via == 'q':
        return rfc2047_qword(p)
    if via == 'ql' and all(ord(c) < 256 for c in p):
        return rfc2047_qword(p, 'iso-8859-1')
    return to_wsgi_latin1(p) if not all(ord(c) < 256 for c in p) else p


def gen_case(rng):
    sink = rng.choices([s for s, _ in WSGI_SINKS], weights=[w for _, w in WSGI_SINKS])[0]
    payload = gen_payload(rng)
    case = {'kind': 'wsgi', 'sink': sink, 'payload': payload, 'proto': rng.choice(['HTTP/1.0', 'HTTP/1.1', 'HTTP/1.1'])}
    if sink in ('hv', 'hb'):
        case['name'] = rng.choice(HEADER_NAMES)
    if sink == 'ckattr':
        case['attr'] = rng.choice(COOKIE_ATTRS)
    if sink in ('redirect', 'redirect2', 'hostredir', 'proxybase'):
        case['rstatus'] = rng.choice([None, None, 300, 301, 302, 303, 307, 308, 305, 304, 306])
    if sink in ('errmsg', 'errmsg_tb', 'errreason', 'errfail'):
        case['code'] = rng.choice([400, 401, 403, 404, 405, 410, 418, 500, 503, 599])
    if sink == 'multi':
        case['payload2'] = gen_payload(rng)
        case['attr'] = rng.choice(COOKIE_ATTRS)
        case['name'] = rng.choice(HEADER_NAMES)
    if sink in OBJ_SINKS and rng.random() < 0.2:
        case['obj'] = rng.choice(OBJ_KINDS)
    if sink in VIA_SINKS:
        case['via'] = rng.choice(VIAS)
    if sink in ('errmsg', 'errreason', 'nf_raise') and rng.random() < 0.3:
        case['pre'] = rng.choice(['Content-Range', 'Vary', 'ETag', 'Location', 'X-Probe'])   # set before the error
    if sink in ('hv', 'ckval', 'echo') and rng.random() < 0.15:
        case['stream'] = True
    if sink == 'errcall':
        case['ret'] = rng.choice(['str', 'str', 'bytes', 'iter', 'int'])
    if sink in ('xff', 'xfproto', 'proxybase'):
        case['pxdebug'] = rng.random() < 0.3
    if sink == 'sesscfg':
        case['flags'] = rng.choice([[], [], ['secure'], ['httponly'], ['secure', 'httponly']])
    if sink in ('resphdr',):
        case['name'] = rng.choice(HEADER_NAMES)
    if sink in ('errtpl', 'errcall'):
        case['code'] = rng.choice([400, 401, 403, 404, 404, 405, 410, 418, 500, 503, 599])
        case['tb'] = rng.random() < 0.4
    if sink == 'cdisp':
        case['disp'] = rng.choice(['attachment', 'inline', 'attachment', None])
        case['range'] = rng.choice([None, None, 'bytes=0-1', 'bytes=2-', 'bytes=99-', 'bytes=0-1,3-4', 'p'])
    if sink == 'static':
        case['file'] = rng.choice(STATIC_FILES)
    if sink == 'sesscfg':
        case['field'] = rng.choice(['domain', 'path', 'name', 'domain'])
    if sink in ('reqline', 'referer', 'agent', 'login', 'basiclogin', 'xff', 'hostlog', 'multi', 'hv', 'nf_path'):
        case['fmt'] = rng.choice(LOG_FORMATS)
    return case


# ----------------------------------------------------------------------------------------------
# real-code runner: whole requests
# ----------------------------------------------------------------------------------------------
_APP = {}


class _Capture(logging.Handler):
    def __init__(self):
        logging.Handler.__init__(self)
        self.records = []

    def emit(self, record):
        self.records.append(record.getMessage())


def _get_app():
    if _APP:
        return _APP
    import cherrypy
    cherrypy.config.update({'environment': 'test_suite', 'log.screen': False})
    state = {'plan': None, 'obs': None}

    def act():
        plan, obs = state['plan'], state['obs']
        resp, req = cherrypy.serving.response, cherrypy.serving.request
        for name, value, kind in plan.get('headers', []):
            resp.headers[name] = value.encode('utf-8', 'surrogatepass') if kind == 'b' else value
        for src, dst in plan.get('echo', []):
            resp.headers[dst] = req.headers.get(src, '')
        for key, value, attrs in plan.get('cookies', []):
            resp.cookie[key] = value
            for a, av in attrs.items():
                resp.cookie[key][a] = av
        if plan.get('status') is not None:
            resp.status = plan['status']
        if plan.get('login_obj') is not None:
            req.login = plan['login_obj']
        if plan.get('stream'):
            resp.stream = True
        if plan.get('echo_cookies'):
            for k, m in sorted(req.cookie.items()):
                resp.cookie[k] = m.value
        for nm in plan.get('access', []):
            req.headers.get(nm)                     # tools.autovary records the names the handler looked at
        if plan.get('basic_auth') is not None:
            from cherrypy.lib import auth_basic
            auth_basic.basic_auth(plan['basic_auth'], lambda realm, user, pw: True)
        if plan.get('sessinit') is not None:
            from cherrypy.lib import sessions
            sessions.init(clean_freq=0, **plan['sessinit'])
        if plan.get('serve') is not None:
            from cherrypy.lib import static
            name, disp = plan['serve']
            return static.serve_file(state['files']['dl'], 'application/x-download', disp, name)
        r = plan.get('raise')
        if r:
            if r[0] == 'value':
                raise ValueError(r[1])
            if r[0] == 'redirect':
                exc = cherrypy.HTTPRedirect(r[1], r[2])
                obs['redirect_urls'] = list(exc.urls)
                obs['redirect_status'] = exc.status
                raise exc
            if r[0] == 'error':
                raise cherrypy.HTTPError(r[1], r[2])
            if r[0] == 'notfound':
                raise cherrypy.NotFound(r[1])
        return 'ok'

    class Sub:
        @cherrypy.expose
        def index(self, **kw):
            return 'sub'

    class Root:
        sub = Sub()

        @cherrypy.expose
        def p(self, *a, **kw):
            return act()

        @cherrypy.expose
        def tb(self, *a, **kw):
            return act()

        @cherrypy.expose
        def sess(self, *a, **kw):
            return act()

        @cherrypy.expose
        def cf(self, *a, **kw):
            return act()

        @cherrypy.expose
        def px(self, *a, **kw):
            return act()

    def failing_error_page(**kwargs):
        raise ValueError(state['plan'].get('fail_text', ''))

    def working_error_page(**kwargs):
        # a custom error page as an application writes one: it trusts the values it is handed
        state['obs']['errcall_kwargs'] = dict(kwargs)
        page = ERRCALL_TEMPLATE % kwargs
        ret = state['plan'].get('errcall_ret', 'str')
        if ret == 'bytes':
            return page.encode('utf-8')
        if ret == 'iter':
            return iter([page[:7], page[7:]])
        if ret == 'int':
            return 7                      # not a page: get_error_page falls back to the built-in one
        return page

    for nm in ('rh', 'al', 'av', 'et', 'et4', 'ec', 'pxd', 'p2'):
        setattr(Root, nm, cherrypy.expose(lambda self, *a, **kw: act()))
    import atexit
    import shutil
    import tempfile
    tmp = tempfile.mkdtemp(prefix='c12-')
    atexit.register(shutil.rmtree, tmp, True)
    files = {'dl': os.path.join(tmp, 'dl.bin'), 'static': os.path.join(tmp, 'static'),
             'tpl_default': os.path.join(tmp, 'default.tpl'), 'tpl_404': os.path.join(tmp, '404.tpl')}
    with open(files['dl'], 'wb') as f:
        f.write(b'0123456789')
    os.mkdir(files['static'])
    for nm in STATIC_FILES[:-1]:
        with open(os.path.join(files['static'], nm), 'wb') as f:
            f.write(b'static-' + nm.encode())
    for key, text in (('tpl_default', CUSTOM_TEMPLATE_DEFAULT), ('tpl_404', CUSTOM_TEMPLATE_404)):
        with open(files[key], 'w', newline='') as f:
            f.write(text)
    state['files'] = files
    state['rh'] = []            # tools.response_headers.headers (the list object the tool is handed; filled per case)
    state['al'] = []            # tools.allow.methods
    conf = {
        '/rh': {'tools.response_headers.on': True, 'tools.response_headers.headers': state['rh'],
                'request.show_tracebacks': False},
        '/al': {'tools.allow.on': True, 'tools.allow.methods': state['al'], 'request.show_tracebacks': False},
        '/av': {'tools.autovary.on': True, 'request.show_tracebacks': False},
        '/st': {'tools.staticdir.on': True, 'tools.staticdir.dir': files['static'], 'request.show_tracebacks': False},
        '/et': {'error_page.default': files['tpl_default'], 'request.show_tracebacks': False},
        '/et4': {'error_page.404': files['tpl_404'], 'request.show_tracebacks': True},
        '/ec': {'error_page.default': working_error_page, 'request.show_tracebacks': False},
        '/pxd': {'tools.proxy.on': True, 'tools.proxy.debug': True, 'tools.proxy.scheme': 'X-Forwarded-Ssl',
                 'request.show_tracebacks': False},
        '/p2': {'tools.trailing_slash.extra': True, 'tools.trailing_slash.debug': True,
                'request.show_tracebacks': False},
        '/': {'request.show_tracebacks': False},
        '/tb': {'request.show_tracebacks': True},
        '/sess': {'tools.sessions.on': True, 'tools.sessions.path_header': 'X-Path',
                  'tools.sessions.clean_freq': 0, 'request.show_tracebacks': False},
        '/cf': {'error_page.default': failing_error_page, 'request.show_tracebacks': False},
        '/px': {'tools.proxy.on': True, 'request.show_tracebacks': False},
    }
    app = cherrypy.Application(Root(), '', conf)
    cap = _Capture()
    app.log.access_log.addHandler(cap)
    app.log.access_log.setLevel(logging.INFO)
    app.log.access_log.propagate = False
    app.log.error_log.propagate = False
    app.log.time = lambda: '[T]'          # the clock is not part of the property
    from cherrypy import _cplogging
    _cplogging.LazyRfc3339UtcTime = lambda: '[Z]'   # ... nor is the {z} clock of custom formats
    _APP.update(app=app, state=state, cap=cap, cherrypy=cherrypy)
    return _APP


def build_request(case):
    """Translate a case into (environ additions, path, query, plan)."""
    p = case['payload']
    sink = case['sink']
    via = case.get('via', 'raw')
    env, plan, path, qs = {}, {}, '/p', ''
    if sink == 'hv':
        plan['headers'] = [[case['name'], p, 's']]
    elif sink == 'hb':
        plan['headers'] = [[case['name'], p, 'b']]
    elif sink == 'hn':
        plan['headers'] = [[p, 'v', 's']]
    elif sink == 'echo':
        env['HTTP_X_IN'] = enc_req(p, via)
        plan['echo'] = [['X-In', 'X-Echo']]
    elif sink == 'echo2047':
        env['HTTP_X_IN'] = rfc2047_word(p) if not has_surrogate(p) else 'x'
        plan['echo'] = [['X-In', 'X-Echo']]
    elif sink == 'ckval':
        plan['cookies'] = [['k', p, {}]]
    elif sink == 'ckattr':
        plan['cookies'] = [['k', 'v', {case['attr']: p}]]
    elif sink == 'sesspath':
        path = '/sess'
        env['HTTP_X_PATH'] = enc_req(p, via)
    elif sink == 'sesspath2047':
        path = '/sess'
        env['HTTP_X_PATH'] = rfc2047_word(p) if not has_surrogate(p) else '/x'
    elif sink == 'reason':
        plan['status'] = '200 ' + p
    elif sink == 'redirect':
        plan['raise'] = ['redirect', p, case.get('rstatus')]
    elif sink == 'redirect2':
        plan['raise'] = ['redirect', [p, '/other?' + p], case.get('rstatus')]
    elif sink == 'slashredir':
        path = '/sub'
        qs = to_wsgi_latin1(p)
    elif sink == 'hostredir':
        env['HTTP_HOST'] = enc_req(p, via)
        plan['raise'] = ['redirect', 'target', case.get('rstatus')]
    elif sink == 'proxybase':
        # tools.proxy copies X-Forwarded-Host into request.base WITHOUT SanitizedHost
        path = '/pxd' if case.get('pxdebug') else '/px'
        env['HTTP_X_FORWARDED_HOST'] = enc_req(p, via)
        plan['raise'] = ['redirect', 'target?' + p[:8], case.get('rstatus')]
    elif sink == 'errmsg':
        plan['raise'] = ['error', case['code'], p]
    elif sink == 'errmsg_tb':
        path = '/tb'
        plan['raise'] = ['error', case['code'], p]
    elif sink == 'errreason':
        plan['raise'] = ['error', '%d %s' % (case['code'], p), None]
    elif sink == 'errfail':
        path = '/cf'
        plan['raise'] = ['error', case['code'], 'M&m']
        plan['fail_text'] = p
    elif sink == 'nf_path':
        path = '/nope/' + to_wsgi_latin1(p)
    elif sink == 'nf_raise':
        plan['raise'] = ['notfound', p]
    elif sink == 'reqline':
        path = '/p/' + to_wsgi_latin1(p)
        qs = to_wsgi_latin1(p)
    elif sink == 'referer':
        env['HTTP_REFERER'] = enc_req(p, via) if 'via' in case else to_wsgi_latin1(p)
    elif sink == 'agent':
        if 'via' in case:
            env['HTTP_USER_AGENT'] = enc_req(p, via)
        else:
            env['HTTP_USER_AGENT'] = rfc2047_word(p) if (len(p) % 2 and not has_surrogate(p)) else to_wsgi_latin1(p)
    elif sink == 'login':
        env['REMOTE_USER'] = p
    elif sink == 'multi':
        p2 = case['payload2']
        plan['headers'] = [[case['name'], p, 's'], ['X-Second', p2, 's']]
        plan['cookies'] = [['a', p2, {case['attr']: p}], ['b', 'v', {'path': p2}]]
        plan['status'] = '201 ' + p2
        env['HTTP_REFERER'] = to_wsgi_latin1(p)
        env['HTTP_USER_AGENT'] = to_wsgi_latin1(p2)
    elif sink == 'xff':
        # tools.proxy: X-Forwarded-For becomes request.remote.ip, i.e. the {h} atom of the access log
        path = '/pxd' if case.get('pxdebug') else '/px'
        env['HTTP_X_FORWARDED_FOR'] = enc_req(p, via)
    elif sink == 'xfproto':
        # tools.proxy: X-Forwarded-Proto (or X-Forwarded-Ssl: on) becomes the scheme of request.base, i.e. of
        # every absolute redirect
        path = '/pxd' if case.get('pxdebug') else '/px'
        env['HTTP_X_FORWARDED_SSL' if case.get('pxdebug') else 'HTTP_X_FORWARDED_PROTO'] = \
            'on' if (case.get('pxdebug') and len(p) % 2) else enc_req(p, via)
        plan['raise'] = ['redirect', 'target', None]
    elif sink == 'hdrname400':
        # a client-chosen header NAME (the WSGI layer turns HTTP_<NAME> into <Name>) with an undecodable word:
        # the name is shown in the 400 page
        env['HTTP_' + to_wsgi_latin1(p).upper().replace('-', '_')] = enc_req('x', 'bad')
    elif sink == 'cookiehdr':
        # the request's Cookie header: an illegal key is quoted in the 400 page; legal ones are echoed back
        env['HTTP_COOKIE'] = to_wsgi_latin1(p) + ('=1' if len(p) % 2 else '')
        plan['echo_cookies'] = True
    elif sink == 'slashextra':
        path = '/p2/'
        qs = to_wsgi_latin1(p)
    elif sink == 'hostlog':
        env['HTTP_HOST'] = enc_req(p, via)
    elif sink == 'resphdr':
        path = '/rh'
        plan['rh'] = [[case['name'], p], ['X-Fixed', 'v']]
    elif sink == 'allow':
        path = '/al'
        plan['al'] = ['GET', p]
    elif sink == 'autovary':
        path = '/av'
        plan['access'] = [p, 'Accept-Language']
    elif sink == 'cdisp':
        plan['serve'] = [p, case.get('disp')]
        if case.get('range') is not None:
            env['HTTP_RANGE'] = to_wsgi_latin1(p) if case['range'] == 'p' else case['range']
    elif sink == 'static':
        path = '/st/' + case['file']
        env['HTTP_RANGE'] = enc_req(p, via)
    elif sink == 'realm':
        plan['basic_auth'] = p
    elif sink == 'basiclogin':
        plan['basic_auth'] = 'r'
        tok = (p + ':pw').encode('utf-8', 'surrogatepass')
        env['HTTP_AUTHORIZATION'] = 'Basic ' + base64.b64encode(tok).decode('ascii')
    elif sink == 'sesscfg':
        f = case.get('field', 'domain')
        plan['sessinit'] = {'name': 'sid', 'path': '/'}
        plan['sessinit'][f] = p
        for fl in case.get('flags', []):
            plan['sessinit'][fl] = True
    elif sink == 'ckname':
        plan['cookies'] = [[p, 'v', {}]]
    elif sink == 'errtpl':
        path = '/et4' if case.get('tb') else '/et'
        plan['raise'] = ['error', case['code'], p]
    elif sink == 'errcall':
        path = '/ec'
        plan['raise'] = ['error', case['code'], p]
        plan['errcall_ret'] = case.get('ret', 'str')
    elif sink == 'tb_exc':
        path = '/tb'
        plan['raise'] = ['value', p]
    else:
        raise common.HarnessError('unknown sink %r' % sink)
    ok = case.get('obj')
    if ok:
        def w(x):
            if isinstance(x, list):
                return [w(y) for y in x]
            # only values BUILT from the payload (the payload itself, 'code payload', '/other?payload')
            derived = isinstance(x, str) and p != '' and (x == p or x.endswith(' ' + p) or x == '/other?' + p)
            return wrap_obj(x, ok) if derived else x
        for h in plan.get('headers', []):
            if h[2] == 's':
                h[1] = w(h[1])
        for c in plan.get('cookies', []):
            c[1] = w(c[1])
            c[2] = {a: w(av) for a, av in c[2].items()}
        if 'status' in plan:
            plan['status'] = w(plan['status'])
        r = plan.get('raise')
        if r:
            if r[0] == 'error':
                if sink != 'errfail':           # there the message is the harness's own 'M&m'
                    r[1], r[2] = w(r[1]), w(r[2])
            else:
                r[1] = w(r[1])
        if 'fail_text' in plan:
            plan['fail_text'] = w(plan['fail_text'])
        if 'rh' in plan:
            plan['rh'] = [[n, w(v)] for n, v in plan['rh']]
        if 'al' in plan:
            plan['al'] = [w(m) for m in plan['al']]
        if 'sessinit' in plan:
            plan['sessinit'] = {k: w(v) for k, v in plan['sessinit'].items()}
        if 'serve' in plan:
            plan['serve'] = [w(plan['serve'][0]), plan['serve'][1]]
        if sink == 'login':
            env.pop('REMOTE_USER', None)
            plan['login_obj'] = wrap_obj(p, ok)
    if case.get('pre'):
        plan.setdefault('headers', []).append([case['pre'], p, 's'])
    if case.get('stream'):
        plan['stream'] = True
    if case.get('nohost'):
        env['HTTP_HOST'] = None
    return env, path, qs, plan


def run_wsgi(case):
    """Run one whole request on the real code.  Returns the observation dict."""
    A = _get_app()
    cherrypy = A['cherrypy']
    addenv, path, qs, plan = build_request(case)
    obs = {}
    A['state']['plan'], A['state']['obs'] = plan, obs
    A['state']['rh'][:] = [tuple(x) for x in plan.get('rh', [])]
    A['state']['al'][:] = list(plan.get('al', []))
    del A['cap'].records[:]
    fmt = case.get('fmt')
    if fmt is not None:
        A['app'].log.access_log_format = fmt          # instance attribute, read as self.access_log_format
    else:
        A['app'].log.__dict__.pop('access_log_format', None)
    env = {'REQUEST_METHOD': 'GET', 'SCRIPT_NAME': '', 'PATH_INFO': path, 'QUERY_STRING': qs,
           'SERVER_PROTOCOL': case['proto'], 'SERVER_NAME': 'localhost', 'SERVER_PORT': '80',
           'wsgi.url_scheme': 'http', 'wsgi.input': io.BytesIO(b''), 'wsgi.errors': io.StringIO(),
           'wsgi.multithread': False, 'wsgi.multiprocess': False, 'wsgi.run_once': False,
           'wsgi.version': (1, 0), 'HTTP_HOST': 'localhost', 'REMOTE_ADDR': '127.0.0.1'}
    env.update(addenv)
    for k in [k for k, v in env.items() if v is None]:
        del env[k]
    out = {}

    def start_response(status, headers, exc_info=None):
        out['status'], out['headers'] = status, list(headers)
        return lambda data: None

    res = A['app'](env, start_response)
    try:
        body = b''.join(res)
        # inputs of the emission step, read from the live objects before they are released
        resp, req = cherrypy.serving.response, cherrypy.serving.request
        src_items = []
        for k, v in resp.headers.items():
            if not isinstance(v, (str, bytes)):
                v = str(v)
            src_items.append((k, v))
        obs['src_items'] = src_items
        obs['src_status'] = resp.status if isinstance(resp.status, str) else str(resp.status)
        obs['morsels'] = [m.output() for _, m in sorted(resp.cookie.items())]
        obs['atoms'] = {
            'h': req.remote.name or req.remote.ip, 'l': '-',
            'u': getattr(req, 'login', None) or '-', 't': '[T]',
            'r': req.request_line,
            'f': dict.get(req.headers, 'Referer', ''), 'a': dict.get(req.headers, 'User-Agent', ''),
            'o': dict.get(req.headers, 'Host', '-'),
            'i': str(req.unique_id), 'z': '[Z]',
        }
        obs['atoms'] = {k: (v if isinstance(v, str) else str(v)) for k, v in obs['atoms'].items()}
        obs['version'] = cherrypy.__version__
        obs['raw_cl'] = dict.get(resp.headers, 'Content-Length', '')
    finally:
        res.close()
    obs['status'], obs['headers'], obs['body'] = out.get('status'), out.get('headers'), body
    obs['log'] = list(A['cap'].records)
    # the last-resort response of the trapper (bare_error): recognised by its shape, not by its wording
    hs = obs['headers'] or []
    obs['bare'] = ((obs['status'] or '').startswith('500') and [n for n, _ in hs] == ['Content-Type', 'Content-Length']
                   and hs[0][1] == 'text/plain')
    obs['atoms']['s'] = (obs['status'] or '').split(' ', 1)[0]
    # access() reads response.headers (bare_error replaces header_list only); a falsy value (0) is logged as '-'
    b = obs.pop('raw_cl') or '-'
    obs['atoms']['b'] = b.decode('latin-1') if isinstance(b, bytes) else str(b)
    return obs


# ----------------------------------------------------------------------------------------------
# independent oracle (from the property statement)
# ----------------------------------------------------------------------------------------------
def ctl_in(b):
    return [x for x in b if x in CTL]


def decode_2047(b):
    """Decode ONE encoded word with the stdlib; None when `b` is not exactly one encoded word."""
    try:
        s = b.decode('ascii')
    except UnicodeDecodeError:
        return None
    if not (s.startswith('=?') and s.endswith('?=')) or s.count('?') != 4:
        return None
    try:
        parts = email.header.decode_header(s)
    except Exception:
        return None
    if len(parts) != 1 or parts[0][1] is None or not isinstance(parts[0][0], bytes):
        return None
    try:
        return parts[0][0].decode(parts[0][1])
    except Exception:
        return None


def oracle_headers(status_b, header_pairs, src_reason, src_texts, n_sources, cookie_names=(b'Set-Cookie',)):
    """status_b: emitted status line bytes; header_pairs: emitted (name, value) bytes;
    src_reason: the reason phrase text; src_texts: every text that was to be emitted as a name or value
    (header names/values, cookie line values); n_sources: how many header tuples the sources account for
    (None = unknown).  Returns [(what, signature)]."""
    bad = []
    if ctl_in(status_b):
        bad.append(('status line %r contains control octet(s) %s' % (status_b, ctl_in(status_b)[:4]),
                    'status_line_control_octet'))
    for n, v in header_pairs:
        which = 'cookie_line' if n in cookie_names else 'header_map'
        if ctl_in(n):
            bad.append(('header name %r contains control octet(s)' % n, '%s_name_control_octet' % which))
        if ctl_in(v):
            bad.append(('header value %r of %r contains control octet(s) %s' % (v, n, ctl_in(v)[:4]),
                        '%s_value_control_octet' % which))
    if n_sources is not None and len(header_pairs) != n_sources:
        bad.append(('%d header tuples emitted for %d header-map items + cookie morsels: %r'
                    % (len(header_pairs), n_sources, header_pairs[-3:]), 'header_tuple_injected'))
    # text outside Latin-1 must come out as an encoded word that decodes to the original
    emitted = [n for n, _ in header_pairs] + [v for _, v in header_pairs]
    decoded = None
    for t in src_texts:
        if isinstance(t, str) and any(ord(c) > 255 for c in t) and not has_surrogate(t):
            if decoded is None:
                decoded = {decode_2047(e) for e in emitted}
            if t not in decoded:
                bad.append(('non-Latin-1 header text %r is not emitted as an RFC 2047 word decoding to it' % t,
                            'rfc2047_roundtrip'))
    if src_reason is not None and any(ord(c) > 255 for c in src_reason) and not has_surrogate(src_reason):
        got = decode_2047(status_b.split(b' ', 1)[1] if b' ' in status_b else b'')
        if got != src_reason:
            bad.append(('non-Latin-1 reason phrase %r emitted as %r' % (src_reason, status_b), 'rfc2047_roundtrip'))
    return bad


class _Skeleton(html.parser.HTMLParser):
    def __init__(self):
        html.parser.HTMLParser.__init__(self, convert_charrefs=True)
        self.tags = []       # ('s', tag, attrs) / ('e', tag)
        self.text = {}       # index of the preceding tag event -> text
        self.other = []

    def handle_starttag(self, tag, attrs):
        self.tags.append(('s', tag, tuple(attrs)))

    def handle_endtag(self, tag):
        self.tags.append(('e', tag))

    def handle_data(self, data):
        i = len(self.tags)
        self.text[i] = self.text.get(i, '') + data

    def handle_comment(self, data):
        self.other.append(('comment', data))

    def handle_pi(self, data):
        self.other.append(('pi', data))

    def unknown_decl(self, data):
        self.other.append(('decl', data))


def parse_page(body):
    p = _Skeleton()
    p.feed(body.decode('utf-8'))
    p.close()
    return p


_BASE = {}


def baseline_error_skeleton():
    """Tag skeleton of the built-in error page for a harmless request (real code, computed once)."""
    if 'err' not in _BASE:
        obs = run_wsgi({'kind': 'wsgi', 'sink': 'errmsg', 'payload': 'plain', 'proto': 'HTTP/1.1', 'code': 404})
        pg = parse_page(obs['body'])
        _BASE['err'] = [t[:2] if t[0] == 'e' else t for t in pg.tags]
        _BASE['err_other'] = len(pg.other)
    return _BASE['err'], _BASE['err_other']


def text_after(pg, pred):
    """Text following the first start tag satisfying pred."""
    for i, t in enumerate(pg.tags):
        if t[0] == 's' and pred(t):
            return pg.text.get(i + 1, '')
    return None


def shown_traceback(body):
    """The text of the page's <pre> element as a browser would show it (None: no such element)."""
    try:
        pg = parse_page(body.rstrip(b' '))
    except Exception:
        return None
    return text_after(pg, lambda t: t[1] == 'pre')


def shown_message(body):
    """The text of the page's first <p> element as a browser would show it (None: no such element)."""
    try:
        pg = parse_page(body.rstrip(b' '))
    except Exception:
        return None
    return text_after(pg, lambda t: t[1] == 'p')


def custom_template_for(case, st):
    """The configured custom template that get_error_page fills for this case (None: the built-in one)."""
    if case['sink'] != 'errtpl':
        return None
    if case.get('tb'):
        return CUSTOM_TEMPLATE_404 if st == 404 else None       # '/et4' only configures error_page.404
    return CUSTOM_TEMPLATE_DEFAULT


def under_escaped(text, shown):
    """`text` was to be shown inside `shown` (the page text as a browser renders it), in whatever wording or
    notation the code chose around it.  True when what is shown is `text` with its character references
    RESOLVED (`&lt;` rendered as `<`) and not `text` itself: the sign of text put into the page unescaped that
    the tag skeleton cannot show."""
    resolved = html.unescape(text)
    return text not in shown and resolved != text and resolved in shown


def oracle_error_page(body, status_text, message, traceback_text=None, traceback_has=None, message_has=None):
    """The error page shows status/message/traceback only escaped: parsing the page gives the
    built-in tag skeleton and the texts come back verbatim."""
    bad = []
    try:
        pg = parse_page(body)
    except Exception as e:
        return [('error page is not parseable UTF-8 HTML: %r' % e, 'error_page_unparseable')]
    base, nother = baseline_error_skeleton()
    tags = [t[:2] if t[0] == 'e' else t for t in pg.tags]
    if tags != base or len(pg.other) != nother:
        extra = [t for t in tags if t not in base][:3]
        bad.append(('error page markup changed by request-derived text (extra/changed tags %r %r)'
                    % (extra, pg.other[:2]), 'error_page_markup_injected'))
        return bad
    if message is not None:
        got = text_after(pg, lambda t: t[1] == 'p')
        if (got or '') != message:
            bad.append(('error page message %r does not read back as %r' % (got, message),
                        'error_page_text_not_escaped'))
    if message_has:
        got = text_after(pg, lambda t: t[1] == 'p') or ''
        if under_escaped(message_has, got):
            bad.append(('error page message %r shows %r with its character references resolved: it was inserted '
                        'without escaping' % (got, message_has), 'error_page_text_not_escaped'))
    if status_text is not None:
        got = text_after(pg, lambda t: t[1] == 'h2')
        if (got or '') != status_text:
            bad.append(('error page status %r does not read back as %r' % (got, status_text),
                        'error_page_text_not_escaped'))
    if traceback_text is not None:
        got = text_after(pg, lambda t: t[1] == 'pre')
        if (got or '') != traceback_text:
            bad.append(('error page traceback %r does not read back as %r' % (got, traceback_text),
                        'error_page_text_not_escaped'))
    if traceback_has:
        # a traceback is shown and the exception text in it is request-derived: it reads back verbatim
        # (how the traceback is laid out around it is not the property's business)
        got = text_after(pg, lambda t: t[1] == 'pre') or ''
        if under_escaped(traceback_has, got):
            bad.append(('the traceback shown in the error page (%r) holds the exception text %r with its character '
                        'references resolved: it was inserted without escaping' % (got[-200:], traceback_has),
                        'error_page_text_not_escaped'))
    return bad


def oracle_error_page_failed(body, status_text, message, exc_text):
    """Built-in page shown when the custom error page failed: the message is followed by a fixed
    sentence and the exception text, separated by <br />; nothing else may add markup."""
    import traceback
    try:
        pg = parse_page(body)
    except Exception as e:
        return [('error page is not parseable UTF-8 HTML: %r' % e, 'error_page_unparseable')]
    base, nother = baseline_error_skeleton()
    tags = [t[:2] if t[0] == 'e' else t for t in pg.tags]
    nobr = [t for t in tags if t not in (('s', 'br', ()), ('e', 'br'))]
    if nobr != base or len(pg.other) != nother:
        extra = [t for t in nobr if t not in base][:3]
        return [('error page markup changed by the text of the failed custom error page (extra/changed tags %r)'
                 % (extra,), 'error_page_failure_suffix_unescaped')]
    start = [i for i, t in enumerate(pg.tags) if t[0] == 's' and t[1] == 'p'][0]
    end = [i for i, t in enumerate(pg.tags) if t == ('e', 'p')][0]
    got = ''.join(pg.text.get(i, '') for i in range(start + 1, end + 1))
    # the message first, the exception line last, both verbatim (the sentence in between is the code's wording)
    if not got.startswith(message):
        return [('failed-custom-error-page text %r does not start with the message %r read back verbatim'
                 % (got, message), 'error_page_failure_suffix_unescaped')]
    if exc_text is not None:
        want = traceback.format_exception_only(ValueError, ValueError(exc_text))[-1]
        if not got.endswith(want):
            return [('failed-custom-error-page text %r does not end with the exception line %r read back verbatim'
                     % (got, want), 'error_page_failure_suffix_unescaped')]
    return []


def oracle_redirect_page(body, urls):
    """The redirect page is `text <a href=URL>URL</a>.` per URL, joined by <br />: parsing must
    give exactly these tags with the URL verbatim as attribute value and as link text."""
    bad = []
    try:
        pg = parse_page(body)
    except Exception as e:
        return [('redirect page is not parseable UTF-8 HTML: %r' % e, 'redirect_page_unparseable')]
    want = []
    for i, u in enumerate(urls):
        if i:
            want.append(('s', 'br', ()))
        want.append(('s', 'a', (('href', u),)))
        want.append(('e', 'a'))
    # html.parser reports `<br />` as a start tag followed by an end tag
    tags = [t for t in pg.tags if t != ('e', 'br')]
    if tags != want or pg.other:
        bad.append(('redirect page markup %r is not one anchor per URL with href == URL (urls %r)'
                    % (tags[:4], urls), 'redirect_page_markup_injected'))
        return bad
    k = 0
    for i, t in enumerate(pg.tags):
        if t[0] == 's' and t[1] == 'a':
            got = pg.text.get(i + 1, '')
            if got != urls[k]:
                bad.append(('redirect link text %r does not read back as %r' % (got, urls[k]),
                            'redirect_page_text_not_escaped'))
            k += 1
    return bad


def oracle_log(lines, atoms, n_format_quotes=None):
    """Every access-log entry is one line of printable ASCII; double quotes born from request data are
    escaped.  atoms: the texts that were logged (None = unknown).  The quotes the FORMAT writes itself
    (field delimiters) are not request data: their number is read from the configured format."""
    bad = []
    if n_format_quotes is None:
        from cherrypy import _cplogging
        n_format_quotes = _cplogging.LogManager.access_log_format.count('"')
    for line in lines:
        if '\n' in line or '\r' in line:
            bad.append(('access-log entry spans lines: %r' % line, 'log_entry_multi_line'))
            continue
        raw = [c for c in line if ord(c) < 32 or ord(c) > 126]
        if raw:
            bad.append(('access-log entry contains raw control/non-ASCII character(s) %r: %r' % (raw[:4], line),
                        'log_raw_control_or_non_ascii'))
            continue
        bare = strong = 0          # quotes with no backslash before / with an even run of backslashes before
        for i, c in enumerate(line):
            if c == '"':
                j = i
                while j > 0 and line[j - 1] == '\\':
                    j -= 1
                run = i - j
                if run == 0:
                    bare += 1
                if run % 2 == 0:
                    strong += 1
        if bare > n_format_quotes:
            bad.append(('access-log entry has %d unescaped double quotes, the format itself has %d: %r'
                        % (bare, n_format_quotes, line), 'log_quote_unescaped'))
        elif strong != n_format_quotes:
            # stronger reading: a reader that honours `\\` sees a field delimiter where none was written
            # (or loses one).  Known (F13) when an atom has a backslash right before a quote or at its end.
            vals = list(atoms.values()) if atoms else []
            f13 = any(('\\"' in v) or v.endswith('\\') for v in vals if isinstance(v, str))
            bad.append(('access-log entry %r: %d double quotes are preceded by an even number of backslashes, '
                        'the format has %d' % (line, strong, n_format_quotes),
                        'F13:log_backslash_before_quote' if f13 or not atoms else 'log_quote_unescaped'))
    return bad


# ----------------------------------------------------------------------------------------------
# model encoding helpers
# ----------------------------------------------------------------------------------------------
def T(s):
    if not s:
        return '-'
    return '.'.join(str(ord(c)) for c in s)


def unT(s):
    if s == '-':
        return ''
    return ''.join(chr(int(x)) for x in s.split('.'))


def H(b):
    return b.hex() if b else '-'


def unH(s):
    return b'' if s == '-' else bytes.fromhex(s)


def PIECES(ps):
    """Template pieces [(is_field, text)] as one protocol token: l<T> literal, f<T> field, joined by '/'."""
    return '/'.join(('f' if f else 'l') + T(t) for f, t in ps) or 'l-'


def modelable(*texts):
    return not any(has_surrogate(t) for t in texts if isinstance(t, str))


# ----------------------------------------------------------------------------------------------
# checking one whole-request observation
# ----------------------------------------------------------------------------------------------
def lat(s):
    return s.encode('latin-1')


def check_wsgi(ctx, case, obs, model_q):
    """Oracle now; model comparisons are queued as (line, expected, what) in model_q."""
    cj = case
    if obs['status'] is None:
        raise common.HarnessError('start_response was not called for %r' % case)
    status_b = lat(obs['status'])
    pairs = [(lat(n), lat(v)) for n, v in obs['headers']]
    code_s, _, reason = obs['src_status'].partition(' ')
    ctx.count('status:' + status_b[:3].decode('latin-1'))
    ctx.count('sink:' + case['sink'])
    if obs['bare']:
        ctx.count('bare_error_response')
        bad = oracle_headers(status_b, pairs, None, [], None)
    else:
        src_texts = []
        for k, v in obs['src_items']:
            src_texts += [k, v]
        for m in obs['morsels']:
            src_texts.append(m.split(': ', 1)[1] if ': ' in m else m)
        bad = oracle_headers(status_b, pairs, reason, src_texts, len(obs['src_items']) + len(obs['morsels']))
    # pages
    ctype = [v for n, v in obs['headers'] if n == 'Content-Type']
    st = int(status_b[:3]) if status_b[:3].isdigit() else 0
    page_kind = None
    if not obs['bare'] and ctype and ctype[0].startswith('text/html'):
        if 'redirect_urls' in obs and st in (300, 301, 302, 303, 307, 308):
            page_kind = 'redirect'
            bad += oracle_redirect_page(obs['body'], obs['redirect_urls'])
        elif case['sink'] == 'slashredir' and st == 301:
            page_kind = 'redirect'
            loc = [v for k, v in obs['src_items'] if k == 'Location']
            obs['redirect_urls'] = [loc[0]]
            obs['redirect_status'] = 301
            bad += oracle_redirect_page(obs['body'], obs['redirect_urls'])
        elif st >= 400 and case['sink'] == 'errfail':
            page_kind = 'error_custom_failed'
            bad += oracle_error_page_failed(obs['body'].rstrip(b' '), obs['src_status'], 'M&m', case['payload'])
        elif st >= 400 and case['sink'] == 'errcall' and case.get('ret') == 'int' and 'errcall_kwargs' in obs:
            # the callable returned something that is no page: the built-in page with the failure note
            page_kind = 'error_custom_failed_type'
            m = expected_message(case, obs)
            if m is not None:
                bad += oracle_error_page_failed(obs['body'].rstrip(b' '), obs['src_status'], m, None)
        elif st >= 400 and case['sink'] == 'errcall' and 'errcall_kwargs' in obs:
            # a WORKING custom error page (callable): the page is the application's, not a built-in one; what
            # CherryPy does is hand it escaped values - compared with the model, no clause of the statement
            page_kind = 'error_custom_callable'
        elif st >= 400 and case['sink'] == 'errtpl' and custom_template_for(case, st) is not None:
            # a WORKING custom error template (configuration) filled by get_error_page: model comparison
            page_kind = 'error_custom_template'
        elif st >= 400:
            page_kind = 'error'
            msg = expected_message(case, obs)
            tbtext = None
            if case['sink'] == 'tb_exc' and st == 500 and not has_surrogate(case['payload']):
                # the traceback shown ends with the exception line; its text is request-derived
                tbtext = case['payload']
            bad += oracle_error_page(obs['body'].rstrip(b' '), obs['src_status'], msg, traceback_has=tbtext,
                                     message_has=expected_in_message(case, obs))
    ctx.count('page:%s' % page_kind)
    # log
    ctx.count('log_records:%d' % len(obs['log']))
    fmt = case.get('fmt')
    ctx.count('log_format:%s' % ('default' if fmt is None else 'custom'))
    bad += oracle_log(obs['log'], obs['atoms'], None if fmt is None else fmt.count('"'))
    for what, sig in bad:
        ctx.oracle_fail(cj, 'sink %s: %s' % (case['sink'], what), sig)
    if bad:
        return
    # ---- model comparison (emitted bytes) -------------------------------------------------------
    if obs['bare']:
        # the code gave up and sent its last-resort 500: not a break-out (nothing request-derived is on the wire), so no
        # clause of the statement; but the model must agree that this response could not be emitted
        texts = [x for kv in obs['src_items'] for x in kv] + obs['morsels']
        if modelable(*texts):
            n = 0
            for k, v in obs['src_items']:
                if isinstance(v, str):
                    model_q.append(('hdr %s %s' % (T(k), T(v)), None, ('h', n), cj))
                    n += 1
            for m in obs['morsels']:
                model_q.append(('cookie %s' % T(m), None, ('h', n), cj))
                n += 1
            model_q.append((None, None, ('hend_bare', n), cj))
        return
    texts = [obs['src_status']] + [x for kv in obs['src_items'] for x in kv] + obs['morsels'] \
        + [v for v in obs['atoms'].values()]
    if not modelable(*texts):
        ctx.count('not_modelled:surrogate')
        return
    if code_s.isdigit():
        model_q.append(('status %s %s' % (code_s, T(reason)), 'ok ' + H(status_b), 'status line', cj))
    exp = []
    for k, v in obs['src_items']:
        if isinstance(v, bytes):
            model_q.append(('item %s' % T(k), None, ('hk', len(exp)), cj))
            model_q.append(('itemb %s' % H(v), None, ('hv', len(exp)), cj))
        else:
            model_q.append(('hdr %s %s' % (T(k), T(v)), None, ('h', len(exp)), cj))
        exp.append(None)
    for m in obs['morsels']:
        model_q.append(('cookie %s' % T(m), None, ('h', len(exp)), cj))
        exp.append(None)
    model_q.append((None, pairs, ('hend', len(exp)), cj))
    msg = expected_message(case, obs) if page_kind in ('error', 'error_custom_template') else None
    if page_kind == 'error' and msg is None:
        # the message is the code's own wording around request data: read it back from the page like the traceback
        msg = shown_message(obs['body'])
    if page_kind == 'error' and msg is not None and modelable(msg):
        # the traceback text is read back from the page itself (parsed, i.e. unescaped): the model must turn it
        # into exactly the bytes that were sent, which it only does if the code escaped it the way the model does
        tb = shown_traceback(obs['body'])
        if tb is not None and modelable(tb):
            model_q.append(('errpage %s %s %s %s' % (T(obs['src_status']), T(msg), T(tb), T(obs['version'])),
                            'ok ' + H(obs['body'].rstrip(b' ')), 'error page bytes', cj))
    if page_kind == 'error_custom_template' and msg is not None:
        tpl = custom_template_for(case, st)
        tb = shown_traceback(obs['body'])
        if tb is not None and modelable(tb):
            model_q.append(('errtpl %s %s %s %s %s' % (PIECES(c12_tables._pieces_percent(tpl)), T(obs['src_status']),
                                                       T(msg), T(tb), T(obs['version'])),
                            'ok ' + H(obs['body'].rstrip(b' ')), 'custom-template error page bytes', cj))
    if page_kind == 'error_custom_callable':
        kw = obs['errcall_kwargs']
        want = {'status': obs['src_status'], 'message': expected_message(case, obs), 'version': obs['version']}
        for k in sorted(want):
            if want[k] is not None and isinstance(kw.get(k), str) and modelable(kw[k], want[k]):
                model_q.append(('hesc %s' % T(want[k]), T(kw[k]), 'value handed to the custom error page (%s)' % k, cj))
    if page_kind == 'error_custom_failed':
        import traceback
        e = traceback.format_exception_only(ValueError, ValueError(case['payload']))[-1]
        model_q.append(('errpagefail %s %s - %s %s' % (T(obs['src_status']), T('M&m'), T(obs['version']), T(e)),
                        'ok ' + H(obs['body'].rstrip(b' ')), 'failed-custom-error-page bytes', cj))
    if page_kind == 'redirect':
        model_q.append(('redir %d %s' % (obs['redirect_status'], ' '.join(T(u) for u in obs['redirect_urls'])),
                        'ok ' + H(obs['body']), 'redirect page bytes', cj))
    at = obs['atoms']
    if len(obs['log']) == 1:
        if fmt is None:
            model_q.append(('logline ' + ' '.join('%s=%s' % (k, T(at[k])) for k in 'hlutrsbfao'),
                            'ok ' + T(obs['log'][0]), 'access-log line', cj))
        else:
            model_q.append(('loglinef %s ' % PIECES(c12_tables._pieces_format(fmt))
                            + ' '.join('%s=%s' % (k, T(at[k])) for k in 'hlutrsbfaoiz'),
                            'ok ' + T(obs['log'][0]), 'access-log line (custom format)', cj))


def expected_message(case, obs):
    """The message text the error page was asked to show (None = not known to the harness)."""
    from cherrypy.lib import httputil
    sink = case['sink']
    if has_surrogate(case['payload']):
        return None                      # un-encodable text: the code answers with some other (500) page
    code = int(obs['status'][:3])
    default = httputil.valid_status(code)[2]
    if case.get('obj') not in (None, 'strsub') and sink in ('errmsg', 'errmsg_tb', 'errtpl', 'errcall', 'errreason'):
        # a non-str value: the code may show its text (then: escaped, see expected_in_message) or refuse it (500)
        return None
    if sink in ('errmsg', 'errmsg_tb', 'errtpl', 'errcall'):
        return case['payload'] or default
    if sink == 'tb_exc' and code == 500:
        return default
    if sink == 'errreason':
        return default
    return None


def expected_in_message(case, obs):
    """Request-derived text the error page's message is built around (the wording around it is the code's own
    and not compared): it has to read back verbatim somewhere in the message.  None = nothing known."""
    sink = case['sink']
    if has_surrogate(case['payload']) or not (obs['status'] or '')[:3].isdigit():
        return None
    code = int(obs['status'][:3])
    if sink == 'nf_raise' and code == 404:
        return case['payload'] or None
    if case.get('obj') and sink in ('errmsg', 'errmsg_tb', 'errtpl', 'errcall'):
        return case['payload'] or None
    if sink == 'nf_path' and code == 404:
        a = obs['atoms']['r']
        # request_line = 'GET <path> HTTP/1.x' with the path as the application saw it
        return a[4:a.rindex(' ')]
    return None


def flush_model(ctx, model_q):
    lines = [q[0] for q in model_q if q[0] is not None]
    out = ctx.model(lines)
    if out is None:
        return
    it = iter(out)
    cur = {}
    seen_cases = set()
    for line, expected, what, cj in model_q:
        key = id(cj)
        if line is not None:
            got = next(it)
        if isinstance(what, tuple):
            kind, idx = what
            slot = cur.setdefault(key, {})
            if kind == 'h':
                slot[idx] = got
            elif kind == 'hk':
                slot[idx] = [got, None]
            elif kind == 'hv':
                slot[idx][1] = got
            elif kind == 'hend_bare':
                got_all = [slot.get(i) for i in range(idx)]
                cur.pop(key, None)
                ctx.compared()
                if all(isinstance(g, str) and g.startswith('ok ') for g in got_all):
                    ctx.disagree(cj, 'the last-resort 500 response (none of the response\'s headers sent)',
                                 'emits %d header tuples: %s' % (idx, ' | '.join(got_all)[:600]),
                                 'the model emits this response, the code gave up on it')
            elif kind == 'hend':
                mp = []
                err = None
                for i in range(idx):
                    g = slot.get(i)
                    if isinstance(g, list):
                        if g[0].startswith('ok ') and g[1].startswith('ok '):
                            mp.append((unH(g[0][3:]), unH(g[1][3:])))
                        else:
                            err = g
                    elif g.startswith('ok '):
                        a, b = g[3:].split(' ')
                        mp.append((unH(a), unH(b)))
                    else:
                        err = g
                cur.pop(key, None)
                ctx.compared()
                if err is not None or mp != expected:
                    ctx.disagree(cj, [(a.decode('latin-1'), b.decode('latin-1')) for a, b in expected],
                                 err if err is not None else [(a.decode('latin-1'), b.decode('latin-1')) for a, b in mp],
                                 'emitted header tuples differ')
            continue
        ctx.compared()
        if got != expected:
            ctx.disagree(cj, expected[:2000], got[:2000], '%s differs' % what)
    del model_q[:]


def run_wsgi_cases(ctx, cases, compare=True):
    model_q = []
    for case in cases:
        try:
            obs = run_wsgi(case)
        except common.HarnessError:
            raise
        except Exception as e:
            # an exception escaping the WSGI callable (the trapper should make that impossible)
            ctx.case(case, nontrivial=True, key=(case['sink'], case['payload'], case['proto'], 'raised'))
            ctx.count('wsgi_raised:%s' % type(e).__name__)
            if compare and len(ctx.disagreements) < 50:
                ctx.disagree(case, 'raised %s: %s' % (type(e).__name__, str(e)[:200]), 'a response',
                             'the WSGI call raised instead of answering')
            continue
        p = case['payload']
        ctx.case(case, nontrivial=interesting(p), key=(case['sink'], p, case['proto'], case.get('payload2')))
        ctx.count('proto:' + case['proto'])
        ctx.count('payload:' + ('surrogate' if has_surrogate(p) else 'astral' if any(ord(c) > 0xffff for c in p)
                                else 'bmp>255' if any(ord(c) > 255 for c in p)
                                else 'latin1-high' if any(ord(c) > 127 for c in p)
                                else 'ascii-ctl' if any(ord(c) in CTL for c in p) else 'ascii'))
        ctx.count('payload_len:%s' % ('0' if not p else '1-4' if len(p) < 5 else '5-16' if len(p) < 17 else '17+'))
        check_wsgi(ctx, case, obs, model_q if compare else [])
        if len(model_q) > 4000:
            flush_model(ctx, model_q)
    if compare:
        flush_model(ctx, model_q)


# ----------------------------------------------------------------------------------------------
# unit-level drives
# ----------------------------------------------------------------------------------------------
_UNIT = {}


def _unit_env():
    """A hand-loaded cherrypy.serving for calling finalize / get_error_page / access directly."""
    if _UNIT:
        return _UNIT
    A = _get_app()
    cherrypy = A['cherrypy']
    from cherrypy import _cprequest, _cplogging
    from cherrypy.lib import httputil
    lm = _cplogging.LogManager('c12unit')
    cap = _Capture()
    lm.access_log.addHandler(cap)
    lm.access_log.setLevel(logging.INFO)
    lm.access_log.propagate = False
    lm.error_log.propagate = False
    lm.time = lambda: '[T]'
    _UNIT.update(cherrypy=cherrypy, cpreq=_cprequest, httputil=httputil, lm=lm, cap=cap)
    return _UNIT


def _fresh_serving():
    U = _unit_env()
    cherrypy, cpreq, httputil = U['cherrypy'], U['cpreq'], U['httputil']
    req = cpreq.Request(httputil.Host('127.0.0.1', 80), httputil.Host('127.0.0.1', 1111))
    resp = cpreq.Response()
    req.error_page = {}
    req.show_tracebacks = False
    req.headers = httputil.HeaderMap()      # the class-level map must not be shared between cases
    cherrypy.serving.load(req, resp)
    return req, resp


UNIT_KINDS = ['item', 'item10', 'itemb', 'finalize', 'errpage', 'redir', 'log', 'host'] + c12_more.KINDS


def run_unit(kind, p, aux=None):
    """Drive one unit with payload p.  Returns (model lines+expectations, oracle failures)."""
    U = _unit_env()
    cherrypy, httputil = U['cherrypy'], U['httputil']
    q, bad = [], []
    if kind in ('item', 'item10'):
        if kind == 'item10':
            hm = httputil.HeaderMap()
            hm.protocol = (1, 0)
            f = hm.encode_header_item
        else:
            f = httputil.HeaderMap().encode_header_item
        try:
            out = f(p)
        except UnicodeEncodeError:
            if has_surrogate(p):
                return q, bad
            raise
        except ValueError:
            out = None
        if out is not None:
            if ctl_in(out):
                bad.append(('encode_header_item(%r) = %r contains control octets' % (p, out),
                            'header_map_value_control_octet'))
            if any(ord(c) > 255 for c in p) and decode_2047(out) != p:
                bad.append(('encode_header_item(%r) = %r is not an RFC 2047 word decoding to the input' % (p, out),
                            'rfc2047_roundtrip'))
        else:
            if not any(ord(c) > 255 for c in p):
                bad.append(('encode_header_item(%r) raised ValueError for Latin-1 text' % p, 'header_item_rejected'))
        q.append(('item %s' % T(p), 'ok ' + H(out) if out is not None else 'err:ValueError', 'encode_header_item'))
    elif kind == 'itemb':
        b = p.encode('utf-8')
        out = httputil.HeaderMap().encode_header_item(b)
        if ctl_in(out):
            bad.append(('encode_header_item(%r) = %r contains control octets' % (b, out),
                        'header_map_value_control_octet'))
        q.append(('itemb %s' % H(b), 'ok ' + H(out), 'encode_header_item(bytes)'))
    elif kind == 'finalize':
        req, resp = _fresh_serving()
        attr = aux or 'path'
        resp.status = '200 ' + p
        resp.headers['X-Probe'] = p
        resp.cookie['k'] = 'v'
        resp.cookie['k'][attr] = p
        resp.cookie['m'] = p
        resp.body = b''
        try:
            resp.finalize()
        except (cherrypy.HTTPError, ValueError, UnicodeEncodeError) as e:
            # finalize failing is not a break-out; the whole-request runs show what is then sent
            return q, bad
        morsels = [m.output() for _, m in sorted(resp.cookie.items())]
        items = [(k, v if isinstance(v, (str, bytes)) else str(v)) for k, v in resp.headers.items()]
        code_s, _, reason = resp.status.partition(' ')
        src_texts = [x for kv in items for x in kv] + [m.split(': ', 1)[1] for m in morsels]
        bad += oracle_headers(resp.output_status, list(resp.header_list), reason, src_texts,
                              len(items) + len(morsels))
        q.append(('status %s %s' % (code_s, T(reason)), 'ok ' + H(resp.output_status), 'finalize status line'))
        hl = list(resp.header_list)
        for i, (k, v) in enumerate(items):
            q.append(('hdr %s %s' % (T(k), T(v)), 'ok %s %s' % (H(hl[i][0]), H(hl[i][1])) if i < len(hl) else 'missing',
                      'finalize header tuple'))
        for j, m in enumerate(morsels):
            i = len(items) + j
            q.append(('cookie %s' % T(m), 'ok %s %s' % (H(hl[i][0]), H(hl[i][1])) if i < len(hl) else 'missing',
                      'finalize cookie tuple'))
        if len(hl) != len(items) + len(morsels):
            q.append(('item -', 'exactly %d tuples' % (len(items) + len(morsels)), 'finalize tuple count %d' % len(hl)))
    elif kind == 'errpage':
        req, resp = _fresh_serving()
        from cherrypy import _cperror
        status = aux or 404
        fields = {'message': p, 'traceback': p[::-1], 'version': 'V' + p[:3]}
        if len(p) % 3 == 0:
            fields['extra'] = None                 # a keyword the caller left empty
        if len(p) % 7 == 6:
            fields['message'] = None               # callers send None: the default message of the status
        try:
            body = _cperror.get_error_page(status, **fields)
        except cherrypy.HTTPError:
            # an illegal status (e.g. '99 x'): get_error_page refuses with HTTPError(500); nothing is emitted here
            try:
                httputil.valid_status(status)
            except ValueError:
                return q, bad
            raise
        code, reason, defmsg = httputil.valid_status(status)
        st = '%s %s' % (code, reason)
        shown = fields['message'] or defmsg
        bad += oracle_error_page(body, st, shown, p[::-1])
        q.append(('errpage %s %s %s %s' % (T(st), T(shown), T(p[::-1]), T(fields['version'])),
                  'ok ' + H(body), 'get_error_page bytes'))
    elif kind == 'redir':
        req, resp = _fresh_serving()
        status = aux or 303
        exc = cherrypy.HTTPRedirect.__new__(cherrypy.HTTPRedirect)
        urls = [p, 'http://h/?' + p]
        exc.urls = urls
        exc.args = (urls, status)
        exc.set_response()
        body = resp.collapse_body()
        bad += oracle_redirect_page(body, urls)
        loc = resp.headers['Location']
        out = httputil.HeaderMap().encode_header_item(loc)
        if ctl_in(out):
            bad.append(('Location %r contains control octets' % out, 'header_map_value_control_octet'))
        q.append(('redir %d %s %s' % (status, T(urls[0]), T(urls[1])), 'ok ' + H(body), 'redirect body bytes'))
    elif kind == 'log':
        req, resp = _fresh_serving()
        lm, cap = U['lm'], U['cap']
        del cap.records[:]
        which = aux or 'r'
        atoms = {'h': '127.0.0.1', 'l': '-', 'u': '-', 't': '[T]', 'r': 'GET / HTTP/1.1', 's': '200', 'b': '5',
                 'f': '', 'a': '', 'o': '-'}
        atoms[which] = p if (p or which in 'fa') else atoms[which]
        req.request_line = atoms['r']
        req.remote = httputil.Host('127.0.0.1', 1111, atoms['h'])
        req.login = None if atoms['u'] == '-' else atoms['u']
        if atoms['f']:
            dict.__setitem__(req.headers, 'Referer', atoms['f'])
        if atoms['a']:
            dict.__setitem__(req.headers, 'User-Agent', atoms['a'])
        resp.output_status = b'200 OK'
        if len(p) % 5 == 4:
            resp.output_status = None              # access() before finalize: the status atom is '-'
            atoms['s'] = '-'
        dict.__setitem__(resp.headers, 'Content-Length', '5')
        lm.access()
        lines = list(cap.records)
        bad += oracle_log(lines, atoms)
        if lines:
            q.append(('logline ' + ' '.join('%s=%s' % (k, T(atoms[k])) for k in 'hlutrsbfao'),
                      'ok ' + T(lines[0]), 'access-log line'))
    elif kind == 'host':
        out = str(httputil.SanitizedHost(p))
        if '\r' in out or '\n' in out:
            bad.append(('SanitizedHost(%r) = %r keeps CR/LF' % (p, out), 'sanitized_host_crlf'))
        q.append(('host %s' % T(p), T(out), 'SanitizedHost'))
    elif kind in c12_more.KINDS:
        return c12_more.run_unit_more(sys.modules[__name__], kind, p, aux)
    else:
        raise common.HarnessError('unknown unit kind %r' % kind)
    return q, bad


def run_unit_cases(ctx, cases, compare=True, register=True):
    """cases: list of (kind, payload, aux)."""
    pending = []
    for kind, p, aux in cases:
        case = {'kind': 'unit', 'unit': kind, 'payload': p, 'aux': aux}
        try:
            q, bad = run_unit(kind, p, aux)
        except common.HarnessError:
            raise
        except Exception as e:
            # the unit under test raised where the model says it returns: not a break-out by itself,
            # but the correspondence is broken (verdict rule: search, then report)
            if register:
                ctx.case(case, nontrivial=interesting(p), key=('unit', kind, p, aux))
                ctx.count('unit_raised:%s:%s' % (kind, type(e).__name__))
            if compare and len(ctx.disagreements) < 50:
                ctx.disagree(case, 'raised %s: %s' % (type(e).__name__, str(e)[:200]), 'returns normally',
                             'unit %s raised an exception the model does not have' % kind)
            continue
        if register:
            ctx.case(case, nontrivial=interesting(p), key=('unit', kind, p, aux))
            ctx.count('unit:' + kind)
        for what, sig in bad:
            ctx.oracle_fail(case, 'unit %s: %s' % (kind, what), sig)
        if not bad and compare and modelable(p):
            for item in q:
                line, expected, what = item[:3]
                pending.append((line, expected, what, case, item[3] if len(item) > 3 else None))
    if compare and pending:
        out = ctx.model([x[0] for x in pending])
        if out is not None:
            for (line, expected, what, case, skip), got in zip(pending, out):
                if skip is not None and got == skip:
                    ctx.count('not_modelled:%s' % case['unit'])       # the model declares the input outside its scope
                    continue
                ctx.compared()
                if got != expected:
                    ctx.disagree(case, expected[:2000], got[:2000], '%s differs' % what)


def gen_unit_cases(rng, n):
    out = []
    for _ in range(n):
        kind = rng.choice(UNIT_KINDS)
        p = gen_payload(rng)
        aux = None
        if kind == 'finalize':
            aux = rng.choice(COOKIE_ATTRS)
        elif kind == 'errpage':
            aux = rng.choice([400, 404, 500, '404 ' + gen_payload(rng, 2).strip() if rng.random() < 0.5 else 403,
                              '99 x', 'abc'])
            if isinstance(aux, str) and (has_surrogate(aux)):
                aux = 404
        elif kind == 'redir':
            aux = rng.choice([300, 301, 302, 303, 307, 308])
        elif kind == 'log':
            aux = rng.choice('rrffaauh')
        elif kind in c12_more.KINDS:
            aux = c12_more.gen_aux(sys.modules[__name__], rng, kind)
        out.append((kind, p, aux))
    return out


def systematic_unit_cases():
    """Small-scope enumeration that runs in EVERY tier: each single octet 0..255 (as a Latin-1
    character), alone and embedded, through every unit sink."""
    out = []
    for i in range(256):
        c = chr(i)
        for p in (c, 'a' + c + 'b'):
            out.append(('item', p, None))
            out.append(('finalize', p, 'path'))
            out.append(('log', p, 'f'))
            out.append(('errpage', p, 404))
            out.append(('redir', p, 303))
        out.append(('itemb', c, None))
        out.append(('host', 'h' + c + 'x', None))
        out.append(('finalize', c + 'z', 'domain'))
    for s in SPECIALS:
        for kind in UNIT_KINDS:
            if kind not in c12_more.KINDS:
                out.append((kind, s, {'finalize': 'path', 'log': 'a'}.get(kind)))
    return out + c12_more.systematic(sys.modules[__name__])


# ----------------------------------------------------------------------------------------------
# known findings / corpus
# ----------------------------------------------------------------------------------------------
def run_case(ctx, case, compare=True):
    if case.get('kind') == 'unit':
        run_unit_cases(ctx, [(case['unit'], case['payload'], case.get('aux'))], compare=compare)
    else:
        run_wsgi_cases(ctx, [case], compare=compare)


def corpus_cases():
    d = os.path.join(common.CORPUS, PROPERTY)
    out = []
    if os.path.isdir(d):
        for f in sorted(os.listdir(d)):
            if f.endswith('.json'):
                out.append(json.load(open(os.path.join(d, f))))
    return out


def b64_selfcheck(ctx):
    """The base64 decoder used in the STATEMENT of the round-trip theorem is a real base64 decoder."""
    rng = ctx.rng
    datas = [bytes(rng.randrange(256) for _ in range(rng.randrange(0, 12))) for _ in range(200)]
    datas += [bytes([i]) for i in range(256)]
    out = ctx.model(['b64d %s' % H(base64.b64encode(d)) for d in datas])
    if out is None:
        return
    for d, got in zip(datas, out):
        ctx.compared()
        if got != 'ok ' + H(d):
            ctx.disagree({'kind': 'b64', 'data': d.hex()}, 'ok ' + H(d), got, 'model b64dec differs from base64.b64decode')


# ----------------------------------------------------------------------------------------------
def tables(ctx):
    return c12_tables.generate()


def _worker(args):
    """Thorough tier: one forked worker, oracle-only + its own driver pipe."""
    seed, n_wsgi, n_unit, lo, hi = args
    import random
    mod = sys.modules[__name__]
    ctx = common.Ctx(mod, 'thorough', seed)
    ctx.rng = random.Random(seed)
    ctx.lean = _WORKER_LEAN[0]
    c12_cov.start()
    run_wsgi_cases(ctx, [gen_case(ctx.rng) for _ in range(n_wsgi)])
    run_unit_cases(ctx, gen_unit_cases(ctx.rng, n_unit))
    # exhaustive: all 2-octet Latin-1 strings whose first octet is in [lo, hi)
    ex = []
    for a in range(lo, hi):
        for b in range(256):
            p = chr(a) + chr(b)
            ex.append(('item', p, None))
            ex.append(('log', p, 'f'))
            ex.append(('finalize', p, 'path'))
            if a in CTL or b in CTL or chr(a) in '<>&"\'\\' or chr(b) in '<>&"\'\\' or a > 126 or b > 126:
                ex.append(('errpage', p, 404))
                ex.append(('redir', p, 303))
    for i in range(0, len(ex), 5000):
        run_unit_cases(ctx, ex[i:i + 5000])
    return {'evaluations': ctx.evaluations, 'nontrivial': list(ctx._nontrivial), 'hist': ctx.hist,
            'oracle_failures': ctx.oracle_failures[:20], 'disagreements': ctx.disagreements[:20],
            'compared': ctx.disagreements_checked, 'known_seen': ctx.known_seen, 'lines': ctx.driver.lines,
            'exhaustive2': len(ex), 'cov': sorted(c12_cov.seen_labels())}


_WORKER_LEAN = [None]


def run(ctx):
    _get_app()
    c12_cov.start()                 # which lines of the anchored functions do the cases below execute?
    # 1. known findings: replay the recorded witnesses
    for e in ctx.known:
        if e.get('status') == 'known' and e.get('witness'):
            run_case(ctx, e['witness'])
    # 2. regression corpus (includes the witnesses of fixed findings)
    for c in corpus_cases():
        run_case(ctx, c)
    b64_selfcheck(ctx)
    # 3. systematic small scope (every tier)
    run_unit_cases(ctx, systematic_unit_cases())
    # 4. generated cases
    # lone surrogates (a Python str can hold them, no client can send them): oracle only
    sur = [{'kind': 'wsgi', 'sink': sk, 'payload': pl, 'proto': pr, 'name': 'X-Probe', 'attr': 'path', 'code': 404,
            'rstatus': None}
           for sk in ('hv', 'hn', 'ckattr', 'reason', 'errmsg', 'redirect', 'nf_raise', 'referer', 'sesspath')
           for pl in ('\ud800', 'a\udfff\r\nb<', '\u8200\udc80"')
           for pr in ('HTTP/1.0', 'HTTP/1.1')]
    # ... and in the one log atom an application fills with a str of its own (request.login: a user name taken from a
    # JSON body, a gateway's REMOTE_USER decoded with surrogateescape), together with what the log format escapes
    sur += [{'kind': 'wsgi', 'sink': 'login', 'payload': pl, 'proto': pr, 'name': 'X-Probe', 'attr': 'path',
             'code': 404, 'rstatus': None}
            for pl in ('bob\udc80', 'bob\udcff" 200 1 "x" "y', 'b\ud800\\"', '\udc80\r\n"x\\"', '"\udfff', 'a"b\udc80\u8200')
            for pr in ('HTTP/1.0', 'HTTP/1.1')]
    run_wsgi_cases(ctx, sur)
    # HTTP/1.1 without Host (400), HTTP/1.0 without Host (served), each with a payload in the log atoms
    run_wsgi_cases(ctx, [{'kind': 'wsgi', 'sink': 'referer', 'payload': pl, 'proto': pr, 'nohost': True, 'via': 'raw'}
                         for pl in ('x', 'a"\r\nb\\', '<i>') for pr in ('HTTP/1.0', 'HTTP/1.1')])
    # HTTP/1.0 (and 1.1) x text outside Latin-1 x every sink that ends in a header item
    cross = []
    for pr in ('HTTP/1.0', 'HTTP/1.1'):
        for pl in ('\u8200', 'a\u0100\r\nb'):
            base = {'kind': 'wsgi', 'payload': pl, 'proto': pr, 'name': 'X-Probe', 'attr': 'path', 'code': 404,
                    'rstatus': 303, 'via': 'b', 'field': 'domain', 'disp': 'attachment'}
            for sk in ('hv', 'hn', 'echo', 'ckattr', 'ckval', 'sesspath', 'reason', 'resphdr', 'allow', 'autovary',
                       'redirect', 'cdisp', 'sesscfg', 'errreason', 'multi'):
                c = dict(base, sink=sk)
                if sk == 'multi':
                    c['payload2'] = pl
                cross.append(c)
    run_wsgi_cases(ctx, cross)
    # path_header configured but the header empty after stripping: the cookie path falls back to '/'
    run_wsgi_cases(ctx, [{'kind': 'wsgi', 'sink': 'sesspath', 'payload': ' ', 'proto': 'HTTP/1.1', 'via': 'raw'}])
    ctx.extra['anchored_lines_explained'] = {
        'httputil.HeaderMap.encode:raise ValueError': 'dead with the live switches (theorem encode_total)',
        'httputil.CaseInsensitiveDict.transform_key:return "None"': 'key None: only an application can pass it',
        'sessions.set_response_cookie:raise ValueError(httponly)': 'only on a Python whose Morsel lacks httponly',
    }
    cov_extra = []
    if ctx.quick():
        run_wsgi_cases(ctx, [gen_case(ctx.rng) for _ in range(8000)])
        run_unit_cases(ctx, gen_unit_cases(ctx.rng, 8000))
    else:
        _WORKER_LEAN[0] = ctx.lean
        procs = min(16, os.cpu_count() or 4)
        jobs = []
        step = 256 // procs
        for w in range(procs):
            lo, hi = w * step, (256 if w == procs - 1 else (w + 1) * step)
            jobs.append((ctx.rng.getrandbits(48), 200000 // procs, 200000 // procs, lo, hi))
        ex2 = 0
        for r in common.parallel_map(_worker, jobs, procs):
            ctx.evaluations += r['evaluations']
            ctx._nontrivial.update(r['nontrivial'])
            for k, v in r['hist'].items():
                ctx.count(k, v)
            ctx.oracle_failures += [tuple(x) for x in r['oracle_failures']]
            ctx.disagreements += [tuple(x) for x in r['disagreements']]
            ctx.disagreements_checked += r['compared']
            ctx.known_seen.update(r['known_seen'])
            ctx.driver.lines += r['lines']
            ex2 += r['exhaustive2']
            cov_extra += r.get('cov', [])
        ctx.extra['exhaustive_small_scope'] = ('all 1-octet and all 65536 2-octet Latin-1 strings through '
                                               'encode_header_item, Response.finalize (status/header/cookie) and '
                                               'LogManager.access; those containing a control, markup, quote or '
                                               'non-ASCII octet also through get_error_page and '
                                               'HTTPRedirect.set_response: %d unit runs' % ex2)
    observe_beyond_statement(ctx)
    missed = c12_cov.report(cov_extra)
    if missed is not None:
        ctx.extra['anchored_lines_not_executed'] = missed
        ctx.extra['anchored_lines_total'] = len(c12_cov.all_lines())


def observe_beyond_statement(ctx):
    """Measured on every run, never a verdict: places where request-derived text changes the STRUCTURE of what is
    sent without any clause of the statement being violated (no control character, Latin-1 only, built-in error
    and redirect pages untouched).  Recorded so that the reader of the evidence sees where the property ends."""
    obs = {}
    try:
        o = run_wsgi({'kind': 'wsgi', 'sink': 'sesspath', 'payload': '/x; Domain=evil.example; Max-Age=0',
                      'proto': 'HTTP/1.1', 'via': 'raw'})
        v = [b for a, b in o['headers'] if a == 'Set-Cookie']
        obs['session cookie Path taken from the path_header request header is written unquoted: the client adds '
            'cookie attributes'] = bool(v and 'Domain=evil.example' in v[0])
    except Exception as e:
        obs['session cookie probe'] = 'raised %s' % type(e).__name__
    try:
        o = run_wsgi({'kind': 'wsgi', 'sink': 'cdisp', 'payload': 'a"; x="b', 'proto': 'HTTP/1.0', 'disp': 'attachment'})
        v = [b for a, b in o['headers'] if a == 'Content-Disposition']
        obs['Content-Disposition filename="..." does not escape a double quote of the file name'] = \
            bool(v and v[0] == 'attachment; filename="a"; x="b"')
    except Exception as e:
        obs['content-disposition probe'] = 'raised %s' % type(e).__name__
    try:
        from cherrypy.lib import cptools
        page = cptools.SessionAuth().login_screen(from_page='x"><script>alert(1)</script>', username='u"x="',
                                                  error_msg='')
        obs['tools.session_auth login screen (not an error or redirect page) shows from_page (the requested URL) '
            'and username unescaped'] = b'<script>alert(1)</script>' in page
    except Exception as e:
        obs['login screen probe'] = 'raised %s' % type(e).__name__
    obs['error log'] = ('the statement speaks of access-log entries only; cherrypy.log(traceback=True) entries are '
                        'multi-line by nature and are not evaluated')
    ctx.extra['observations_beyond_statement'] = obs


def search(ctx, around=None):
    """Deeper oracle-only hunt (called when the proof or the correspondence broke)."""
    if around is not None and around.get('kind') in ('unit', 'wsgi'):
        # neighbourhood of the disagreeing case: same sink/unit, payload variations
        p = around.get('payload', '')
        neigh = [p[:i] + s + p[i:] for s in SPECIALS[:40] for i in (0, len(p))] + [p[i:j] for i in range(len(p))
                                                                                     for j in range(i + 1, len(p) + 1)][:400]
        for q in neigh:
            c = dict(around)
            c['payload'] = q
            run_case(ctx, c, compare=False)
        if ctx.oracle_failures:
            return
    run_unit_cases(ctx, systematic_unit_cases(), compare=False)
    if ctx.oracle_failures:
        return
    ex = []
    for a in sorted(CTL) + [34, 38, 39, 60, 62, 92, 128, 255]:
        for b in range(256):
            for p in (chr(a) + chr(b), chr(b) + chr(a)):
                ex += [('item', p, None), ('log', p, 'f'), ('finalize', p, 'path'), ('errpage', p, 404),
                       ('redir', p, 303)]
    run_unit_cases(ctx, ex, compare=False)
    if ctx.oracle_failures:
        return
    run_wsgi_cases(ctx, [gen_case(ctx.rng) for _ in range(12000)], compare=False)
    if not ctx.oracle_failures:
        run_unit_cases(ctx, gen_unit_cases(ctx.rng, 20000), compare=False)


def replay(ctx, case):
    print('case   :', json.dumps(case, sort_keys=True)[:1500])
    if case.get('kind') == 'unit':
        q, bad = run_unit(case['unit'], case['payload'], case.get('aux'))
        def show(x):
            f = x.split(' ')
            if f[0] == 'ok' and len(f) > 1 and all(c in '0123456789abcdef-' for c in ''.join(f[1:])):
                return 'ok ' + ' '.join(repr(unH(h)) for h in f[1:])
            if f[0] == 'ok' and len(f) == 2:
                try:
                    return 'ok ' + repr(unT(f[1]))
                except ValueError:
                    return x
            return x
        for line, expected, what in [x[:3] for x in q]:
            print('impl   : %s = %s' % (what, show(expected)[:1500]))
            m = ctx.model([line]) if modelable(case['payload']) else None
            if m:
                print('model  : %s = %s' % (what, show(m[0])[:1500]))
    elif case.get('kind') == 'wsgi':
        obs = run_wsgi(case)
        print('impl   : status %r' % obs['status'])
        print('impl   : headers %r' % obs['headers'])
        print('impl   : body %r' % obs['body'][:400])
        print('impl   : log %r' % obs['log'])
    run_case(ctx, case)
