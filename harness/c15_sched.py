"""Deterministic scheduler for REAL threads running the REAL caching code (property C15).

Nothing in /repo is edited.  The shared objects of `cherrypy.lib.caching` are replaced by
instrumented proxies, so that every *shared-state access* of a managed thread is a yield point:

  * `MemoryCache.store`, `MemoryCache.expirations`   -> `SharedDict` (installed by `clear()` of a subclass of the
    live `MemoryCache`, passed through the documented `tools.caching.cache_class` config entry)
  * every bucket list in `expirations`                -> `SharedList` (created by `SharedDict.setdefault`)
  * `MemoryCache.cursize`                             -> a property of that subclass (read / write)
  * `AntiStampedeCache`                               -> a subclass of the LIVE class whose MRO is
    `(Instr, live AntiStampedeCache, HookDict, dict)`: the live `wait` / `__setitem__` run unchanged, every
    dict primitive they reach -- spelled `self.get`, `self[k]`, `super().__setitem__`, or, through the module
    global `dict` (rebound to `DictNS`), `dict.__setitem__(self, ...)` -- lands in `HookDict`
  * `threading.Event` as seen by caching.py           -> `SharedEvent` (`wait`, `set`, `.result` read / write)
  * the page handler                                  -> calls `Sched.yield_point(('handler',))`

Yield points are defined by WHAT is accessed (object kind + kind of access), never by source lines: a
rewrite of the anchored code that performs the same accesses in the same order is indistinguishable.
An object becomes shared when it is *published* (an AntiStampedeCache when it is put into `store`, an Event
when it is put into a slot, a bucket when it is put into `expirations`); accesses to a not yet published
object are thread-local and are no yield points.

A managed thread runs only while it holds the baton.  `Sched.step(name)` lets the thread execute the access
it is parked in front of plus the thread-local code up to its next access.  `Event.wait` never blocks for
real: it is enabled when the event is set, or when the controller lets the timeout elapse
(`step(name, timeout=True)`).  The expiry thread is managed as 'X': it parks in `time.sleep` (the fake clock
of c15.py) and at every shared access of `expire_cache`.  No sleeps, no timing; every hand-over has a large
timeout that raises `HarnessError`.
"""
from __future__ import annotations

import _thread
import threading as _threading

from . import common

HANDOVER_TIMEOUT = 30.0


def _held():
    lk = _thread.allocate_lock()
    lk.acquire()
    return lk


class _TState:
    __slots__ = ('name', 'go', 'status', 'pending', 'exc', 'result', 'thread', 'steps', 'timeout_now')

    def __init__(self, name):
        self.name = name
        self.go = _held()
        self.status = 'new'        # new | parked | done
        self.pending = None        # label tuple of the access the thread is parked in front of
        self.exc = None
        self.result = None
        self.thread = None
        self.steps = 0
        self.timeout_now = False   # set by step(..., timeout=True) for a pending ev.wait


class Sched:
    def __init__(self):
        self.threads = {}
        self.by_ident = {}
        self.back = _held()
        self.trace = []
        self.x_registered = _threading.Event()
        self.active = True

    # ---- controller side ------------------------------------------------------------------
    def _wait_back(self, what, st=None):
        """Wait until the stepped thread hands the baton back.  A thread of the code under test that died instead
        (the expiry thread is not started by us) is an observation, not a harness error."""
        waited = 0.0
        while st is not None and st.thread is not None and waited < HANDOVER_TIMEOUT:
            if self.back.acquire(timeout=0.05):
                return
            waited += 0.05
            if not st.thread.is_alive():
                if self.back.acquire(timeout=0.2):
                    return
                st.status = 'done'
                st.pending = ('dead', None)
                return
        if not self.back.acquire(timeout=HANDOVER_TIMEOUT if st is None else 0.05):
            raise common.HarnessError('c15 scheduler: %s did not hand the baton back (a real blocking call outside '
                                      'the instrumented primitives?)' % what)

    def spawn(self, name, fn):
        st = _TState(name)
        self.threads[name] = st

        def body():
            self.by_ident[_thread.get_ident()] = st
            self._park(st, ('start',))
            try:
                st.result = fn()
            except BaseException as e:     # noqa: reported by the harness as an observation
                st.exc = e
            st.status = 'done'
            st.pending = None
            self.by_ident.pop(_thread.get_ident(), None)
            self.back.release()

        th = _threading.Thread(target=body, name='c15-%s' % (name,), daemon=True)
        st.thread = th
        th.start()
        self._wait_back('new thread %s' % name)
        return st

    def pending(self, name):
        st = self.threads.get(name)
        return None if st is None else st.pending

    def done(self, name):
        return self.threads[name].status == 'done'

    def enabled(self, name, timeout=False):
        st = self.threads.get(name)
        if st is None or st.status == 'done':
            return False
        op = st.pending
        if op and op[0] == 'ev.wait':
            return bool(timeout or op[1]._flag)
        return True

    def step(self, name, timeout=False):
        """One step of thread `name`; returns the label of the access executed, None for a stutter."""
        if not self.enabled(name, timeout):
            return None
        st = self.threads[name]
        op = st.pending
        st.steps += 1
        st.timeout_now = bool(timeout)
        self.trace.append((name, op[0]))
        st.go.release()
        self._wait_back('thread %s after %r' % (name, op[0]), st)
        return op

    def all_done(self, names):
        return all(self.threads[n].status == 'done' for n in names)

    # ---- managed-thread side --------------------------------------------------------------
    def current(self):
        return self.by_ident.get(_thread.get_ident())

    def _park(self, st, op):
        st.pending = op
        st.status = 'parked'
        self.back.release()
        if not st.go.acquire(timeout=HANDOVER_TIMEOUT * 10):
            raise common.HarnessError('c15 scheduler: thread %s was never resumed' % st.name)

    def yield_point(self, op):
        if not self.active:
            return None
        st = self.current()
        if st is None:
            return None
        self._park(st, op)
        return st

    def park_expiry(self):
        """Called by the fake `time.sleep` in the expiry thread: register as 'X' (first time) and park."""
        if not self.active:
            return False
        st = self.current()
        if st is None:
            st = _TState('X')
            st.thread = _threading.current_thread()
            self.threads['X'] = st
            self.by_ident[_thread.get_ident()] = st
            st.pending = ('sleep',)
            st.status = 'parked'
            self.x_registered.set()
            if not st.go.acquire(timeout=HANDOVER_TIMEOUT * 10):
                raise common.HarnessError('c15 scheduler: expiry thread was never resumed')
            return True
        self._park(st, ('sleep',))
        return True

    def release_all(self):
        """End of a scenario: nothing is gated any more; parked threads run on freely."""
        self.active = False
        for st in self.threads.values():
            if st.status == 'parked':
                st.status = 'released'
                try:
                    st.go.release()
                except RuntimeError:
                    pass


# ------------------------------------------------------------------------------------------------
# the instrumented shared objects
# ------------------------------------------------------------------------------------------------
class World:
    """Registry of the shared objects of one scenario (identity -> small ids in publication order)."""

    def __init__(self, sched):
        self.sched = sched
        self.ucs = []          # published AntiStampedeCache objects
        self.evs = []          # published events
        self.buckets = []      # published bucket lists
        self.cache = None

    def y(self, label, obj=None):
        self.sched.yield_point((label, obj))

    def publish_uc(self, uc):
        if getattr(uc, '_c15_id', None) is None:
            uc._c15_id = len(self.ucs)
            self.ucs.append(uc)

    def publish_ev(self, ev):
        if ev._c15_id is None:
            ev._c15_id = len(self.evs)
            self.evs.append(ev)

    def publish_bucket(self, b):
        if b._c15_id is None:
            b._c15_id = len(self.buckets)
            self.buckets.append(b)


_world = [None]     # the World of the scenario in progress (None: everything passes through)


def world():
    return _world[0]


class HookDict(dict):
    """dict primitives of an AntiStampedeCache; yield points once the object is published."""
    _c15_id = None

    def _y(self, label):
        w = _world[0]
        if w is not None and self._c15_id is not None:
            w.y(label, self)

    def _pub(self, value):
        w = _world[0]
        if w is not None and self._c15_id is not None and isinstance(value, SharedEvent):
            w.publish_ev(value)

    def get(self, key, default=None):
        self._y('uc.get')
        return dict.get(self, key, default)

    def __getitem__(self, key):
        self._y('uc.get')
        return dict.__getitem__(self, key)

    def __contains__(self, key):
        self._y('uc.get')
        return dict.__contains__(self, key)

    def __setitem__(self, key, value):
        self._y('uc.set')
        self._pub(value)
        return dict.__setitem__(self, key, value)

    def setdefault(self, key, default=None):
        self._y('uc.set')
        if not dict.__contains__(self, key):
            self._pub(default)
        return dict.setdefault(self, key, default)

    def __delitem__(self, key):
        self._y('uc.del')
        return dict.__delitem__(self, key)

    def pop(self, key, *default):
        self._y('uc.del')
        return dict.pop(self, key, *default)


class _DictNSMeta(type):
    """The name `dict` inside caching.py: calling it makes a plain dict, isinstance means isinstance(dict),
    and `dict.<method>(obj, ...)` is routed to HookDict when obj is an instrumented AntiStampedeCache."""

    def __call__(cls, *a, **k):
        return dict(*a, **k)

    def __instancecheck__(cls, obj):
        return isinstance(obj, dict)

    def __subclasscheck__(cls, sub):
        return issubclass(sub, dict)

    def __getattribute__(cls, name):
        if name in ('__init__', '__eq__', '__ne__', '__repr__', '__new__'):
            return cls.__getattr__(name)
        return type.__getattribute__(cls, name)

    def __getattr__(cls, name):
        plain = getattr(dict, name)
        if isinstance(dict.__dict__.get(name), (classmethod, staticmethod)) or name == '__new__':
            return plain

        def routed(self, *a, **k):
            if isinstance(self, HookDict) and name in HookDict.__dict__:
                return HookDict.__dict__[name](self, *a, **k)
            return plain(self, *a, **k)
        routed.__name__ = name
        return routed


class DictNS(metaclass=_DictNSMeta):
    pass


class SharedDict(dict):
    """`store` / `expirations` of the MemoryCache."""

    def __init__(self, kind):
        dict.__init__(self)
        self._kind = kind          # 'store' | 'exp'

    def _y(self, op):
        w = _world[0]
        if w is not None:
            w.y(self._kind + '.' + op, self)

    def _pub(self, value):
        w = _world[0]
        if w is None:
            return value
        if self._kind == 'store' and isinstance(value, HookDict):
            w.publish_uc(value)
        elif self._kind == 'exp':
            if type(value) is list:
                value = SharedList(value)
            if isinstance(value, SharedList):
                w.publish_bucket(value)
        return value

    def get(self, key, default=None):
        self._y('get')
        return dict.get(self, key, default)

    def __getitem__(self, key):
        self._y('get')
        return dict.__getitem__(self, key)

    def __contains__(self, key):
        self._y('get')
        return dict.__contains__(self, key)

    def __len__(self):
        self._y('len')
        return dict.__len__(self)

    def __setitem__(self, key, value):
        self._y('set')
        return dict.__setitem__(self, key, self._pub(value))

    def setdefault(self, key, default=None):
        self._y('setdefault')
        if dict.__contains__(self, key):
            return dict.__getitem__(self, key)
        default = self._pub(default)
        dict.__setitem__(self, key, default)
        return default

    def pop(self, key, *default):
        self._y('del' if self._kind == 'exp' else 'pop')
        return dict.pop(self, key, *default)

    def __delitem__(self, key):
        self._y('del' if self._kind == 'exp' else 'pop')
        return dict.__delitem__(self, key)

    def copy(self):
        self._y('copy')
        return dict(dict.items(self))

    def items(self):
        self._y('copy')
        return list(dict.items(self))

    def __iter__(self):
        self._y('copy')
        return iter(list(dict.keys(self)))

    def keys(self):
        self._y('copy')
        return list(dict.keys(self))

    def raw(self):
        return dict(dict.items(self))


class SharedList(list):
    """A bucket of `expirations`."""
    _c15_id = None

    def _y(self, op):
        w = _world[0]
        if w is not None and self._c15_id is not None:
            w.y('bucket.' + op, self)

    def append(self, x):
        self._y('append')
        return list.append(self, x)

    def __iter__(self):
        i = 0
        while True:
            self._y('next')
            if i >= list.__len__(self):
                return
            yield list.__getitem__(self, i)
            i += 1

    def raw(self):
        return list(list.__iter__(self))


class SharedEvent:
    """`threading.Event` as seen by caching.py, with `.result`; never blocks for real."""

    def __init__(self):
        self._flag = False
        self._result = None
        self._c15_id = None

    def _y(self, label):
        w = _world[0]
        if w is not None and self._c15_id is not None:
            return w.sched.yield_point((label, self))
        return None

    def is_set(self):
        return self._flag

    isSet = is_set

    def set(self):
        self._y('ev.set')
        self._flag = True

    def clear(self):
        self._y('ev.set')
        self._flag = False

    def wait(self, timeout=None):
        st = self._y('ev.wait')
        if st is None and not self._flag:
            # outside a scenario nobody can set it: behave as an elapsed timeout
            return False
        return self._flag

    @property
    def result(self):
        self._y('ev.result?')
        return self._result

    @result.setter
    def result(self, value):
        self._y('ev.result=')
        self._result = value


class ThreadingShim:
    """Stand-in for the `threading` module inside caching.py."""
    Event = SharedEvent

    def __getattr__(self, name):
        return getattr(_threading, name)


def _rehost(live, base):
    """A copy of class `live` (a direct subclass of dict) whose base is `base` (a dict subclass with hooks): the
    same code objects, with the `__class__` cell of zero-argument `super()` pointing at the copy, so that every
    spelling of a dict primitive -- `self.get`, `self[k]`, `super().__setitem__`, `super(Cls, self).__setitem__`
    (the module-level name is rebound to the copy), `dict.__setitem__(self, ...)` (the module-level name `dict`
    is rebound to DictNS) -- reaches the hooks."""
    import types
    if live.__bases__ != (dict,):
        raise common.HarnessError('AntiStampedeCache is no longer a direct subclass of dict: %r' % (live.__bases__,))
    cell = types.CellType()

    def refn(f):
        if not isinstance(f, types.FunctionType):
            return f
        closure = f.__closure__
        if closure and '__class__' in f.__code__.co_freevars:
            closure = tuple(cell if name == '__class__' else c
                            for name, c in zip(f.__code__.co_freevars, closure))
        g = types.FunctionType(f.__code__, f.__globals__, f.__name__, f.__defaults__, closure)
        g.__kwdefaults__ = f.__kwdefaults__
        g.__dict__.update(f.__dict__)
        g.__doc__ = f.__doc__
        g.__qualname__ = f.__qualname__
        return g

    ns = {}
    for k, v in live.__dict__.items():
        if k in ('__dict__', '__weakref__'):
            continue
        if isinstance(v, staticmethod):
            v = staticmethod(refn(v.__func__))
        elif isinstance(v, classmethod):
            v = classmethod(refn(v.__func__))
        elif isinstance(v, property):
            v = property(refn(v.fget), refn(v.fset), refn(v.fdel), v.__doc__)
        else:
            v = refn(v)
        ns[k] = v
    clone = type(live.__name__, (base,), ns)
    cell.cell_contents = clone
    return clone


def make_classes(caching):
    """Instrumented subclasses of the LIVE AntiStampedeCache and MemoryCache."""
    live_asc = caching.__dict__.get('_c15_live_asc') or caching.AntiStampedeCache
    live_mc = caching.MemoryCache
    caching._c15_live_asc = live_asc

    InstrASC = _rehost(live_asc, HookDict)

    def _get_cur(self):
        w = _world[0]
        if w is not None:
            w.y('cur.get', self)
        return self.__dict__.get('_c15_cursize', 0)

    def _set_cur(self, v):
        w = _world[0]
        if w is not None:
            w.y('cur.set', self)
        self.__dict__['_c15_cursize'] = v

    class InstrMemoryCache(live_mc):
        cursize = property(_get_cur, _set_cur)

        def _c15_wrap(self):
            for attr, kind in (('store', 'store'), ('expirations', 'exp')):
                cur = self.__dict__.get(attr)
                if not isinstance(cur, SharedDict):
                    d = SharedDict(kind)
                    for k, v in (cur or {}).items():
                        dict.__setitem__(d, k, v)
                    setattr(self, attr, d)

        def __init__(self, *a, **k):
            live_mc.__init__(self, *a, **k)
            self._c15_wrap()

        def clear(self):
            live_mc.clear(self)
            self._c15_wrap()

    return InstrASC, InstrMemoryCache
