"""C02 - only exposed handlers are reachable, and the most specific one is chosen.

Model: lean/CpModel/Dispatch.lean (+ Gen/C02Tables.lean regenerated from the live module),
theorems: lean/CpProofs/C02.lean, driver: lean/Drv/C02.lean.
Real code: generated Python object trees mounted as a `cherrypy.Application`; every request goes
through the in-process WSGI entry point; probe callables record which one ran with which arguments.
"""
import json
import os
import string

from . import common
from . import c02_tree as T

PROPERTY = 'C02'
LEAN_TARGETS = ['CpProofs.C02', 'CpProofs.C02Fn', 'CpProofs.C02Mount', 'drv_c02']
DRIVER = 'drv_c02'
THEOREMS = [
    'CpProofs.C02.C02_exposed_only',
    'CpProofs.C02.C02_exposed_only_default_own_mark',
    'CpProofs.C02.C02_handler_is_candidate',
    'CpProofs.C02.C02_most_specific',
    'CpProofs.C02.C02_most_specific_fun',
    'CpProofs.C02.C02_not_found_iff',
    'CpProofs.C02.C02_trail_spec',
    'CpProofs.C02.C02_vpath',
    'CpProofs.C02.C02_vpath_suffix',
    'CpProofs.C02.C02_args_restored',
    'CpProofs.C02.C02_method',
    'CpProofs.C02.C02_method_allow',
    'CpProofs.C02.C02_translate_table',
    'CpProofs.C02.C02_translated_identifier_safe',
    'CpProofs.C02.walk_no_outOfFuel',
    'CpProofs.C02.C02_no_params_without_dispatch',
    # `_cp_dispatch` as an arbitrary function (CpModel.DispatchFn)
    'CpProofs.C02Fn.findHandler_refines',
    'CpProofs.C02Fn.dispatch_refines',
    'CpProofs.C02Fn.methodDispatch_refines',
    'CpProofs.C02Fn.paramsOf_refines',
    'CpProofs.C02Fn.C02F_exposed_only',
    'CpProofs.C02Fn.C02F_most_specific',
    'CpProofs.C02Fn.C02F_not_found_iff',
    'CpProofs.C02Fn.C02F_trail_chain',
    'CpProofs.C02Fn.C02F_vpath_is_rest',
    'CpProofs.C02Fn.C02F_args',
    'CpProofs.C02Fn.C02F_vpath_is_rest_not_full',
    'CpProofs.C02Fn.semOf_wf',
    'CpProofs.C02Fn.C02_args_final_vpath',
    'CpProofs.C02Fn.C02_popargs_binds_popped',
    'CpProofs.C02Fn.C02_popargs_probe',
    'CpProofs.C02Fn.C02_vhost_exposed_only',
    'CpProofs.C02Fn.C02_xmlrpc_exposed_only',
    # mounts (Tree.script_name) in front of the dispatcher
    'CpProofs.C02Mount.C02_most_specific_mount',
    'CpProofs.C02Mount.C02_mount_segment_boundary',
    'CpProofs.C02Mount.C02_root_mount_serves_all',
]
LEVEL = 'proof'
TECHNIQUE = ('Lean 4 proof: the transcription of Dispatcher.find_handler - with every _cp_dispatch an arbitrary function of the '
             'remaining path - is proved equal to a declarative longest-prefix / exposed-only resolver by induction over '
             'the segment list and the object trail (all object graphs, dispatcher functions, paths); model tied to the '
             'real dispatcher by a differential run over generated object trees whose dispatchers record what they consumed')
LEVEL_TEXT = ('Proved in Lean for every object graph, application config, path and every behaviour of the _cp_dispatch '
              'callables (arbitrary functions from the remaining path to an object and a rewritten list, or raising): the '
              'handler returned by find_handler carries a true exposed mark (the default method its own), it is the candidate '
              'of maximal trail index (default before the object at the same index) of the trail the dispatchers produced, 404 '
              'exactly when no trail entry has an exposed candidate; consecutive trail entries are related by a declarative '
              'step relation (attribute of the translated name / miss / what the dispatcher did) and segleft is the number of '
              'names left; when dispatchers only remove from the front of the list (the contract the code states; proved for '
              'every popargs form) the positional arguments are exactly what was left of the list at the chosen entry, a suffix '
              'of the segments, with %2F restored - and this fails for list-rewriting dispatchers (negation proved with a '
              'witness that is replayed on the real code). popargs binds names[:n] to vpath[:n] in order, into request.params '
              'unless a handler function receives them; the live popargs is probed on every run (several calls on one '
              'decorated object) and a theorem states that every call equals the model on that call alone (nothing survives a '
              'call). The model compared with the code (dispatcher descriptors) is proved to be an instance of the general '
              'one. Without _cp_dispatch the trail is the attribute chain of the translated segments. Method dispatcher: verb '
              'attribute (HEAD falls back to GET) of that resource, 405 exactly when missing, Allow sorted upper-case names plus '
              'HEAD when GET exists. The translate table is regenerated from the live module and proved to map exactly '
              'string.punctuation to "_". Beyond the statement (model + theorem + correspondence, no oracle clause): '
              'Tree.script_name returns the longest mounted script name ending at a segment boundary of the path; VirtualHost '
              'and XMLRPCDispatcher are the default dispatcher on a rewritten path. Partial: Python attribute lookup is the '
              'serialised attribute view of the real objects; purity - sequential histories and two or three requests in flight '
              'under a deterministic gate scheduler - is checked on the implementation only (the model is a function by '
              'construction).')
LEVEL_NOTE = ('Trusted: Lean kernel, the hand models lean/CpModel/Dispatch.lean and DispatchFn.lean as validated by the '
              'differential run, the serialised getattr view of the generated objects and the recorded dispatcher calls '
              '(Python semantics), the harness.')
TRUSTED_BASE = [
    'Python attribute lookup (getattr/hasattr/dir/bool) on the generated objects is serialised by the harness and is an input '
    'of the model, not modelled',
    'the request pipeline between the WSGI entry point and the dispatcher (path_info is recorded at the dispatcher)',
    'the recording wrapper around every generated _cp_dispatch (list before / after, returned object, request.params '
    'updates); every eighth dispatcher-rich tree runs without it',
]
ASSUMPTIONS = [
    'object graphs are finite; the theorems hold for arbitrary _cp_dispatch functions, the correspondence run exercises the '
    'generated families (popargs in its three forms, nested through handler=; custom: pop k / insert names / rewrite the list / '
    'return fixed object, self, None or an attribute of self)',
    'handlers accept any arguments (test_callable_spec is not exercised)',
    'mount keys are set through Tree.mount (no trailing slash)',
]
RULE = ('random object trees (depth <= 4; exposed/unexposed index, default, methods, callable instances, non-callable '
        'attributes, aliases, underscore/dunder/punctuated names, shared and cyclic references, falsy objects, _cp_dispatch in '
        'popargs and custom forms) and level trees (a spine of 2..4 objects each owning a dispatcher that consumes 0..3 '
        'segments: popargs class/attribute form, handler object / function / None, custom pop/peek/pop-getattr, list-rewriting '
        'dispatchers; index/default/aliases/_cp_config at every level) x paths walking the tree through attributes and '
        'dispatchers with punctuation variants, unknown names, vpath tails, %2F, dots, dunder names, trailing and doubled '
        'slashes, query strings and form bodies; default and method dispatcher, behind VirtualHost / XMLRPCDispatcher; '
        'several instances of one class told apart by instance attributes (per-instance verbs / index / default / mark) '
        'with request sequences in both orders; custom dispatch_method_name, exposed pages under the dispatch method name; '
        'mount tables x SCRIPT_NAME/PATH_INFO pairs; 2 or 3 requests in flight in real threads, parked deterministically '
        'at gate events of the generated tree (dispatcher calls, handler functions, attribute reads), resumed lifo/fifo; non-trivial = the path has at least one segment; distinct = distinct '
        '(tree, path, method, query, body, headers, wrapper)')

NAMES = ['a', 'b', 'c', 'a_b', 'x_y', '_p', '__d', 'idx', 'Get', 'a_2Fb', '_', '__', 'café']
VARIANTS = {
    'a_b': ['a.b', 'a-b', 'a_b', 'a:b', 'a~b', 'a b', 'a%5Fb'],
    'x_y': ['x.y', 'x!y', 'x_y'],
    'a_2Fb': ['a%2Fb', 'a_2Fb', 'a.2Fb'],
    '_': ['.', '-', '_', '~'],
    '__': ['..', '__', '.-', '-_'],
    '_p': ['_p', '.p', '-p'],
    '__d': ['__d', '..d', '_.d'],
}
UNKNOWN = ['zz', 'a.', 'ab', 'A', 'x', '9', 'a%2fb', 'caf', 'q%2Fr%2Fs', '%2F', 'index.html', 'b.c']
SPECIAL = ['index', 'default', '__class__', '__doc__', '__init__', '__call__', '__dict__', '_cp_dispatch',
           '_cp_config', 'exposed', '__module__', 'GET', 'POST']
VERBS = ['GET', 'POST', 'PUT', 'DELETE', 'HEAD']
REQ_METHODS = ['GET', 'GET', 'HEAD', 'POST', 'PUT', 'DELETE', 'PATCH', 'get', 'OPTIONS']


def tables(ctx):
    cherrypy = T.cp()
    t = cherrypy.dispatch.Dispatcher().translate
    if not isinstance(t, dict):
        raise common.HarnessError('Dispatcher().translate is not a dict')

    def rep(v):
        if v is None:
            return []
        if isinstance(v, int):
            return [v]
        return [ord(c) for c in v]
    rows = ', '.join('(%d, [%s])' % (k, ', '.join(map(str, rep(v)))) for k, v in sorted(t.items()))
    name = ', '.join(str(ord(c)) for c in cherrypy.dispatch.Dispatcher.dispatch_method_name)
    src = '''/-
  GENERATED by harness/c02.py `tables()` from the live module `cherrypy._cpdispatch`
  (`Dispatcher().translate`, `Dispatcher.dispatch_method_name`).  Do not edit by hand.
-/
namespace CpModel.Gen.C02

/-- `Dispatcher().translate` (the `str.maketrans` dict): code point -> replacement code points. -/
def translateTable : List (Nat × List Nat) :=
  [%s]

/-- `Dispatcher.dispatch_method_name` as code points. -/
def dispatchMethodName : List Nat := [%s]

end CpModel.Gen.C02
''' % (rows, name)
    return {'CpModel/Gen/C02Tables.lean': src, 'CpModel/Gen/C02Popargs.lean': popargs_probe_table(cherrypy)}


PROBE_NAMES = [[], ['a'], ['a', 'b'], ['a', 'b', 'c']]
PROBE_VPATHS = [['w', 'x', 'y', 'z'], ['e'], [], ['kid', 'q'], ['f', 'kid'], ['u', 'v', 'kid', 't'], ['x%2Fy', 'kid']]


def popargs_probe(cherrypy):
    """Call what `cherrypy.popargs(*names[, handler=…])` returns the way the dispatcher does, several times in a
    row on ONE decorated object (longer list first: a dict kept between calls shows up as stale bindings), and
    record for every call: list before, list after, `request.params` after (empty before), keyword arguments a
    handler function received, which object came back."""
    req = cherrypy.serving.request
    had = 'params' in vars(req)
    old = vars(req).get('params')
    rows = []
    try:
        for names in PROBE_NAMES:
            for kind in (0, 1, 2):
                kid, hobj, res = object(), type('H', (), {})(), object()
                got = []

                def hfn(**kw):
                    got.append(dict(kw))
                    return res
                if kind == 0:
                    f = cherrypy.popargs(*names)
                elif kind == 1:
                    f = cherrypy.popargs(*names, handler=hobj)
                else:
                    f = cherrypy.popargs(*names, handler=hfn)
                if kind == 0 and len(names) % 2 == 1:
                    # class-decorator form
                    cls = f(type('P', (), {'kid': kid}))
                    slf = cls()
                    call = lambda vp: slf._cp_dispatch(vpath=vp)
                else:
                    cls = type('P', (), {'kid': kid, '_cp_dispatch': f})
                    slf = cls()
                    call = lambda vp: slf._cp_dispatch(vpath=vp)
                calls = []
                for vp0 in PROBE_VPATHS:
                    vp = list(vp0)
                    req.params = {}
                    del got[:]
                    r = call(vp)
                    ret = 0 if r is slf else 1 if (r is hobj or r is res) else 2 if r is kid else 3 if r is None else 9
                    calls.append((list(vp0), list(vp), list(req.params.items()),
                                  list(got[0].items()) if got else [], ret))
                rows.append((names, kind, calls))
    finally:
        if had:
            req.params = old
        else:
            vars(req).pop('params', None)
    return rows


def popargs_rejects_unknown_keyword(cherrypy):
    """`handler=` is the only keyword `popargs` knows: anything else is a TypeError at decoration time (a
    misspelt `handler` must not silently become "no handler")."""
    try:
        cherrypy.popargs('a', handlr=None)
    except TypeError:
        return True
    return False


def popargs_probe_table(cherrypy):
    def nm(s):
        return '[%s]' % ', '.join(str(ord(c)) for c in s)

    def nms(l):
        return '[%s]' % ', '.join(nm(x) for x in l)

    def kvs(l):
        for k, v in l:
            if not isinstance(k, str) or not isinstance(v, str):
                raise ValueError('popargs bound a non-string: %r' % ((k, v),))
        return '[%s]' % ', '.join('(%s, %s)' % (nm(k), nm(v)) for k, v in l)
    rows = []
    for names, kind, calls in popargs_probe(cherrypy):
        cs = ',\n      '.join('(%s, %s, %s, %s, %d)' % (nms(b), nms(a), kvs(rp), kvs(hk), ret)
                               for b, a, rp, hk, ret in calls)
        rows.append('(%s, %d, [\n      %s])' % (nms(names), kind, cs))
    return '''/-
  GENERATED by harness/c02.py `tables()`: what the functions returned by the live `cherrypy.popargs` did when
  called like `Dispatcher.find_handler` calls a `_cp_dispatch` (`dispatch(vpath=list)`), several times in a row
  on one decorated object.  Do not edit by hand.
  row  = (argument names, handler kind: 0 none / 1 object / 2 function, calls)
  call = (list before, list after, request.params after (empty before), kwargs the handler function got,
          returned: 0 self / 1 the handler object or the function's result / 2 self.kid / 3 None)
-/
namespace CpModel.Gen.C02

def popargsProbe : List (List (List Nat) × Nat ×
    List (List (List Nat) × List (List Nat) × List (List Nat × List Nat) × List (List Nat × List Nat) × Nat)) :=
  [%s]

/-- `cherrypy.popargs('a', handlr=None)` raised TypeError -/
def popargsRejectsUnknownKeyword : Bool := %s

end CpModel.Gen.C02
''' % (',\n   '.join(rows), 'true' if popargs_rejects_unknown_keyword(cherrypy) else 'false')


# ----------------------------------------------------------------------------------------------
# generators
# ----------------------------------------------------------------------------------------------
def _mark(rng, p_true):
    r = rng.random()
    if r < p_true:
        return True
    return rng.choice([None, None, None, False, 0, 1, ''])


def gen_tree(rng, kind='D', with_disp=False, maxdepth=3):
    nodes = []

    def new_node(depth, nocall=False):
        i = len(nodes)
        nd = {'exp': None, 'call': None, 'falsy': False, 'meth': [], 'vals': [], 'kids': [], 'disp': None,
              'conf': None}
        nodes.append(nd)
        used = set()
        if kind == 'M':
            nd['exp'] = _mark(rng, 0.75)
            for v in VERBS:
                if rng.random() < 0.45:
                    nd['meth'].append([v, {'exp': _mark(rng, 0.3)}])
                    used.add(v)
            r = rng.random()
            if r < 0.08 and 'GET' not in used:
                nd['vals'].append(['GET', rng.choice([0, None, 'text'])])
                used.add('GET')
            elif r < 0.16:
                nd['vals'].append([rng.choice(['X', 'MAX_SIZE', 'Z9']), 5])
            elif r < 0.22:
                nd['meth'].append([rng.choice(['get', 'Post', 'OPTIONS', 'PATCH']), {'exp': True}])
            if rng.random() < 0.3:
                nd['meth'].append(['index', {'exp': _mark(rng, 0.6)}])
                used.add('index')
            if rng.random() < 0.25:
                nd['meth'].append(['default', {'exp': _mark(rng, 0.6)}])
                used.add('default')
        else:
            if not nocall and rng.random() < 0.35:
                nd['call'] = {}
            # an exposed object that is not callable is chosen and then fails with TypeError (500): keep it rare
            nd['exp'] = _mark(rng, 0.6 if nd['call'] is not None else 0.06)
            if rng.random() < 0.55:
                nd['meth'].append(['index', {'exp': _mark(rng, 0.65)}])
                used.add('index')
            if rng.random() < 0.45:
                nd['meth'].append(['default', {'exp': _mark(rng, 0.65)}])
                used.add('default')
        if rng.random() < 0.03:
            nd['falsy'] = True
        for _ in range(rng.choice([0, 1, 1, 2])):
            name = rng.choice(NAMES)
            if name in used:
                continue
            used.add(name)
            m = {'exp': _mark(rng, 0.6)}
            r = rng.random()
            if r < 0.14:
                al = rng.choice(['al', 'a.b', 'x.y', 'al.ias', ['a.b'], ['al', 'x.y'], ['al.ias', 'b.c']])
                names = [al] if isinstance(al, str) else al
                if not any(a.replace('.', '_') in used for a in names):
                    used.update(a.replace('.', '_') for a in names)
                    m['alias'] = al
                    m['xform'] = rng.choice(['kw', 'kw', 'pos', 'func'])
            elif r < 0.2 and m['exp'] is True:
                m['xform'] = 'call'
            nd['meth'].append([name, m])
        if rng.random() < 0.25:
            name = rng.choice(NAMES + ['index', 'default'])
            if name not in used:
                used.add(name)
                nd['vals'].append([name, rng.choice(['text', 7, None, [1, 2], True])])
        if depth < maxdepth:
            for _ in range(rng.choice([0, 1, 1, 2, 2, 3])):
                name = rng.choice(NAMES + (['index', 'default'] if rng.random() < 0.1 else []))
                if name in used:
                    continue
                used.add(name)
                if len(nodes) > 2 and rng.random() < 0.08:
                    nd['kids'].append([name, rng.randrange(len(nodes))])
                else:
                    nd['kids'].append([name, new_node(depth + 1)])
        if with_disp and rng.random() < (0.6 if depth == 0 else 0.3):
            nd['disp'] = gen_disp(rng, depth, new_node, nodes, i)
        return i

    new_node(0)
    return {'nodes': nodes}


def gen_disp(rng, depth, new_node, nodes, me):
    def some_node(nocall=False):
        if not nocall and len(nodes) > 1 and rng.random() < 0.4:
            return rng.randrange(len(nodes))
        return new_node(min(depth + 1, 3), nocall=nocall)
    r = rng.random()
    if r < 0.2:
        return {'t': 'popargs_cls', 'n': rng.choice([0, 1, 1, 2, 3])}
    if r < 0.45:
        hk = rng.choice(['none', 'obj', 'fn', 'fn_none'])
        if hk == 'none':
            h = None
        elif hk == 'obj':
            h = ['obj', some_node(nocall=True)]
        elif hk == 'fn':
            h = ['fn', some_node()]
        else:
            h = ['fn', None]
        return {'t': 'popargs_attr', 'n': rng.choice([0, 1, 1, 2]), 'h': h}
    if r < 0.93:
        ret = rng.choice(['self', 'peek', 'fixed', 'fixed', 'fixed_none'])
        if ret == 'fixed':
            ret = ['fixed', some_node()]
        elif ret == 'fixed_none':
            ret = ['fixed', None]
        add = []
        ra = rng.random()
        if ra < 0.08:
            add = [rng.choice(NAMES)]
        elif ra < 0.12:
            add = [rng.choice(NAMES), rng.choice(NAMES)]
        d = {'t': 'custom', 'pop': rng.choice([0, 0, 1, 1, 2, 3]), 'add': add, 'ret': ret}
        if rng.random() < 0.08:
            d['exp'] = rng.choice([True, 1, False])
        return d
    return {'t': 'value', 'v': rng.choice(['text', 0, 5])}


def seg_variant(rng, name):
    if name in VARIANTS and rng.random() < 0.7:
        return rng.choice(VARIANTS[name])
    return name


def gen_path(rng, spec):
    """A path that mostly walks the tree, then leaves it."""
    nodes = spec['nodes']
    segs = []
    cur = 0
    steps = rng.choice([0, 1, 1, 2, 2, 3, 3, 4])
    for _ in range(steps):
        nd = nodes[cur] if cur is not None else None
        r = rng.random()
        if nd is not None and r < 0.7 and (nd['kids'] or nd['meth'] or nd['vals']):
            pool = [(n, j) for n, j in nd['kids']] * 3 + [(n, None) for n, _ in nd['meth']] + \
                   [(n, None) for n, _ in nd['vals']]
            for n, m in nd['meth']:
                al = m.get('alias') or []
                for a in ([al] if isinstance(al, str) else al):
                    pool.append((a, None))
            name, nxt = rng.choice(pool)
            segs.append(seg_variant(rng, name))
            cur = nxt
        elif r < 0.82:
            segs.append(rng.choice(UNKNOWN))
            cur = None
        elif r < 0.9:
            segs.append(rng.choice(SPECIAL))
            cur = None
        else:
            segs.append(seg_variant(rng, rng.choice(NAMES)))
            cur = None
    path = '/' + '/'.join(segs)
    r = rng.random()
    if r < 0.25 and segs:
        path += '/'
    elif r < 0.3:
        path = path.replace('/', '//', 1)
    elif r < 0.33:
        path += '//'
    return path


# ----------------------------------------------------------------------------------------------
# oracle: reference resolver written from the property statement
# ----------------------------------------------------------------------------------------------
_PUNCT = {ord(c): '_' for c in string.punctuation}


def _exposed(o):
    return bool(getattr(o, 'exposed', False))


def _restore(s):
    return s.replace('%2F', '/')


def ref_trail(root, segs, log, dname='_cp_dispatch'):
    """The objects the path leads through, written from the statement: [(object, segments matched so far)].

    A segment is matched by the attribute of that (translated) name; where there is none and the recording
    wrapper saw a `_cp_dispatch` call on that very object with exactly the segments that are left, the
    dispatcher matched whatever it removed from the list (at least one segment: a dispatcher that leaves the
    list alone has used the first one, the documented `return getattr(self, vpath[0], None)` idiom) and
    handed over to the object it returned.  Returns (chain, wellformed, note): `wellformed` is False once a
    dispatcher did anything but remove segments from the front; `note` is None, 'raised', 'added' or 'lost'
    (the recorded calls do not fit this reading of the path: the reference is not used then)."""
    chain = [(root, 0)]
    rest = list(segs)
    total = len(segs)
    node = root
    k = 0
    wf = True
    while rest:
        sub = getattr(node, rest[0].translate(_PUNCT), None)
        if sub is not None:
            rest.pop(0)
            node = sub
        else:
            ent = log[k] if k < len(log) else None
            d = getattr(node, dname, None)
            if ent is not None and d is not None and getattr(d, '__func__', d) is ent['fn'] and \
                    getattr(d, '__self__', None) is ent['self'] and ent['before'] == rest:
                k += 1
                if ent['raised'] or ent['after'] is None:
                    return chain, wf, 'raised'
                after = ent['after']
                if len(after) > len(rest):
                    return chain, wf, 'added'
                if after != rest[len(rest) - len(after):]:
                    wf = False
                if len(after) == len(rest):
                    after = after[1:]
                rest = list(after)
                node = ent['ret']
            else:
                rest.pop(0)
                node = None
        chain.append((node, total - len(rest)))
        if node is None:
            break
    if k != len(log):
        return chain, wf, 'lost'
    if node is not None and not rest:
        idx = getattr(node, 'index', None)
        if idx is not None:
            chain.append((idx, total))
    return chain, wf, None


def ref_candidates(root, path_info, log=(), dname='_cp_dispatch'):
    """The acceptable (callable, positional args) choices for this path, [] = must be 404; None = the
    reference has nothing to say (a dispatcher raised / added segments).

    Deepest object matching the longest prefix of the path; `index` for an exact match; at each depth
    the object's exposed `default` or the exposed object itself, with the unmatched segments (args None:
    any suffix, when a dispatcher rewrote the list instead of removing from its front)."""
    segs = [s for s in path_info.split('/') if s]
    chain, wf, note = ref_trail(root, segs, list(log), dname)
    if note is not None:
        return None, note
    for o, consumed in reversed(chain):
        if o is None:
            continue
        args = [_restore(s) for s in segs[consumed:]] if wf else None
        alts = []
        d = getattr(o, 'default', None)
        if d is not None and _exposed(d):
            alts.append((d, args))
        if _exposed(o):
            alts.append((o, args))
        if alts:
            return alts, None
    return [], None


def expected_kwargs(case, log):
    """Keyword arguments the statement lets the handler see: query and body parameters plus what `popargs`
    bound (the popped segments under the declared names, in order).  (dict, names to leave alone, problems)"""
    import urllib.parse
    kw = {}
    for k, v in urllib.parse.parse_qsl(case.get('query') or '', keep_blank_values=True):
        kw[k] = v
    if case.get('body'):
        for k, v in urllib.parse.parse_qsl(case['body'], keep_blank_values=True):
            kw[k] = v
    skip, bad = set(), []
    nodes = case['tree']['nodes']
    for ent in log:
        d = nodes[ent['node']].get('disp') or {}
        if not d.get('t', '').startswith('popargs') or ent['before'] is None or ent['raised']:
            continue
        names = list(d['names']) if d.get('names') is not None else ['p%d' % i for i in range(d.get('n', 0))]
        bound = dict(zip(names, ent['before']))
        h = d.get('h')
        if d['t'] == 'popargs_attr' and h is not None and h[0] == 'fn':
            if ent['hkw'] != bound:
                bad.append(('popargs handler function of node %d got %s for the segments %s, names %s'
                            % (ent['node'], ent['hkw'], ent['before'], names), 'popargs_handler_kwargs'))
            continue
        for k, v in bound.items():
            if k in kw and kw[k] != v:
                skip.add(k)
            kw[k] = v
    return kw, skip, bad


def dispatcher_call_oracle(built, case, log):
    """What may be called as a dynamic dispatcher, and what `cherrypy.popargs` promises about one call.

    * An exposed callable is a page: it is called as the handler of a request or not at all - never with
      `vpath=` as a dispatcher; and only the attribute named `dispatch_method_name` is a dispatcher.
    * popargs(*names, handler=h) called with a list: n = min(len(names), len(list)) segments are taken from the
      front; with a handler the rest stays and the handler (object, or the function's result) comes back; without
      one `self` is the ultimate handler: the next segment, if any, is taken too and resolved by getattr on self
      (so that the node's own dispatcher is not asked again), else self comes back."""
    bad = []
    nodes = case['tree']['nodes']
    dname = case['tree'].get('dispatch_name') or '_cp_dispatch'
    for ent in log:
        fn, slf = ent['fn'], ent['self']
        if bool(getattr(fn, 'exposed', False)):
            bad.append(('the exposed callable %r of node %d (a page) was called as a dynamic dispatcher with vpath=%s'
                        % (dname, ent['node'], ent['before']), 'exposed_called_as_dispatcher'))
        owner = slf if slf is not None else built.classes[ent['node']]
        d = getattr(owner, dname, None)
        if getattr(d, '__func__', d) is not fn:
            bad.append(('a callable of node %d that is not its %r attribute was called as a dynamic dispatcher '
                        'with vpath=%s' % (ent['node'], dname, ent['before']), 'not_the_dispatch_method'))
        d = nodes[ent['node']].get('disp') or {}
        if not d.get('t', '').startswith('popargs') or ent['before'] is None or ent['raised'] or ent['after'] is None:
            continue
        names = list(d['names']) if d.get('names') is not None else ['p%d' % i for i in range(d.get('n', 0))]
        before = ent['before']
        n = min(len(names), len(before))
        rest = before[n:]
        h = d.get('h') if d['t'] == 'popargs_attr' else None
        if h is None:
            want_after = rest[1:]
            want_ret = getattr(slf, rest[0], None) if rest else slf
        else:
            want_after = rest
            want_ret = None if h[1] is None else built.objs[h[1]]
        same = ent['ret'] is want_ret
        if not same:
            try:
                same = bool(ent['ret'] == want_ret) and type(ent['ret']) is type(want_ret)
            except Exception:
                same = False
        if ent['after'] != want_after or not same:
            bad.append(('popargs%s of node %d given %s: must leave %s and return %s, left %s and returned %s'
                        % (tuple(names), ent['node'], before, want_after,
                           'self' if want_ret is slf and slf is not None else _pid_of(want_ret) or repr(want_ret),
                           ent['after'], 'self' if ent['ret'] is slf and slf is not None else
                           _pid_of(ent['ret']) or repr(ent['ret'])), 'popargs_contract'))
    return bad


def expose_oracle(built):
    """`cherrypy.expose` sets the mark, and registers every alias (dots -> underscores) for the same callable."""
    bad = []
    for node, name, aliases, f, expect_true in built.exposed_by_decorator:
        if expect_true and getattr(f, 'exposed', None) is not True:
            bad.append(('cherrypy.expose did not set exposed=True on %d.%s (aliases %s)' % (node, name, aliases),
                        'expose_mark'))
        for a in aliases:
            if built.classes[node].__dict__.get(a.replace('.', '_')) is not f:
                bad.append(('cherrypy.expose(alias=%r) on %d.%s did not register attribute %r'
                            % (a, node, name, a.replace('.', '_')), 'expose_alias'))
    return bad


def _pid_of(o):
    import types
    p = getattr(o, '_pid', None)
    if isinstance(o, (types.MethodType, types.FunctionType)) and isinstance(p, str):
        return p
    if getattr(o, '_gen_node', False) is True and not isinstance(o, type):
        c = type(o).__dict__.get('__call__')
        if c is not None:
            return '%d()' % getattr(o, '_gen_inst', int(c._pid[:-2]))
    return None


def oracle(built, case, obs):
    """List of (what, signature) property failures on this observation."""
    bad = []
    spec, kind = case['tree'], case['kind']
    if obs.get('hang'):
        return [('the request for %r did not produce an answer (dispatcher does not terminate)' % case['path'],
                 'no_answer')]
    has_disp = any(nd.get('disp') is not None for nd in spec['nodes'])
    pi = obs['path_info']
    ran = obs['ran']
    if pi is None:
        return bad         # the request never reached the dispatcher (not this property's business)
    segs = [s for s in pi.split('/') if s]
    restored = [s.replace('%2F', '/') for s in segs]
    # (1) only exposed callables run, at most one
    if len(ran) > 1:
        bad.append(('more than one handler ran: %s' % ran, 'multiple_handlers'))
    for pid, args in ran:
        o = T.obj_for_pid(built, pid)
        if kind == 'D':
            if not _exposed(o):
                bad.append(('unexposed callable %s was called for %r' % (pid, pi), 'unexposed_called'))
        # (2) positional args: a suffix of the segments, %2F restored, in order
        if args != restored[len(restored) - len(args):] and not (len(args) > len(restored)):
            bad.append(('handler %s got args %s, not a suffix of the path segments %s' % (pid, args, restored),
                        'args_not_suffix'))
        if len(args) > len(restored):
            bad.append(('handler %s got more args %s than path segments %s' % (pid, args, restored),
                        'args_not_suffix'))
    log = obs.get('disp_log') or []
    if has_disp and not getattr(built, 'instrument', False):
        return bad         # nothing recorded what the dispatchers consumed: only the clauses above
    bad.extend(dispatcher_call_oracle(built, case, log))
    # (3) keyword arguments: query/body parameters and what popargs bound, nothing else
    want, skip, kbad = expected_kwargs(case, log)
    bad.extend(kbad)
    if len(ran) == 1 and obs.get('kwargs'):
        got = obs['kwargs'][0]
        if {k: v for k, v in got.items() if k not in skip} != {k: v for k, v in want.items() if k not in skip}:
            bad.append(('handler %s got keyword arguments %s; query/body parameters and popargs bindings are %s'
                        % (ran[0][0], got, want), 'wrong_kwargs'))
    alts, note = ref_candidates(built.root, pi, log, spec.get('dispatch_name') or '_cp_dispatch')
    if alts is None:
        obs['oracle_note'] = note
        return bad

    def args_ok(got, want):
        return want is None or got == want
    if kind == 'D':
        if not alts:
            if ran or obs['status'] != 404:
                bad.append(('no exposed candidate for %r but status %s, ran %s' % (pi, obs['status'], ran),
                            'not_404'))
            return bad
        ok = False
        for o, args in alts:
            pid = _pid_of(o)
            if not bool(o):
                ok = ok or (not ran and obs['status'] == 404)
            elif pid is None:
                ok = ok or not ran
            else:
                ok = ok or (len(ran) == 1 and ran[0][0] == pid and args_ok(ran[0][1], args))
        if not ok:
            want = [(_pid_of(o) or repr(o), a) for o, a in alts]
            if len(ran) == 1 and any(_pid_of(o) == ran[0][0] for o, a in alts):
                bad.append(('for %r the handler %s must get the unmatched segments %s but got %s'
                            % (pi, ran[0][0], [a for o, a in alts if _pid_of(o) == ran[0][0]][0], ran[0][1]),
                            'wrong_args'))
            else:
                bad.append(('for %r the most specific exposed candidate is %s but ran %s (status %s)'
                            % (pi, want, ran, obs['status']), 'wrong_handler'))
        return bad
    # method dispatcher
    if not alts:
        if ran or obs['status'] != 404:
            bad.append(('no exposed resource for %r but status %s, ran %s' % (pi, obs['status'], ran), 'not_404'))
        return bad
    meth = case['method'].upper()
    ok = False
    wants = []
    for res, args in alts:
        if not bool(res):
            ok = ok or (not ran and obs['status'] == 404)
            continue
        verbs = [m for m in dir(res) if m.isupper()]
        allow = sorted(set(verbs) | ({'HEAD'} if 'GET' in verbs else set()))
        target = getattr(res, meth, None)
        if target is None and meth == 'HEAD':
            target = getattr(res, 'GET', None)
        if target is None or not bool(target):
            wants.append(('405', allow))
            ok = ok or (not ran and obs['status'] == 405 and obs['allow'] == ', '.join(allow))
        else:
            pid = _pid_of(target)
            wants.append((pid, args, allow))
            if pid is None:
                ok = ok or not ran
            else:
                ok = ok or (len(ran) == 1 and ran[0][0] == pid and args_ok(ran[0][1], args) and
                            obs['allow'] == ', '.join(allow))
    if not ok:
        bad.append(('method dispatch of %s %r: expected one of %s, got ran=%s status=%s allow=%r'
                    % (meth, pi, wants, ran, obs['status'], obs['allow']), 'wrong_method_dispatch'))
    return bad


# ----------------------------------------------------------------------------------------------
# model side
# ----------------------------------------------------------------------------------------------
def model_expectation(line, view, kind):
    parts = line.split(' ')
    exp = {'allow': None}
    if parts[0] == 'H':
        nid = int(parts[1])
        args = [] if parts[2] == '_' else [T.dec_text(a) for a in parts[2].split(',')]
        pid = view.pid.get(nid)
        if pid is None:
            exp.update(ran=[], status=None, handler='node%d(no probe)' % nid)
        else:
            exp.update(ran=[[pid, args]], status=200)
        rest = parts[3:]
    else:
        exp.update(ran=[], status={'NF': 404, 'NA': 405}.get(parts[0], 500), outcome=parts[0])
        rest = parts[1:]
    for r in rest:
        if r.startswith('A='):
            v = r[2:]
            exp['allow'] = None if v == 'N' else ('' if v == '_' else ', '.join(T.dec_text(a) for a in v.split(',')))
        elif r.startswith('V='):
            exp['rest'] = r[2:]
        elif r.startswith('P='):
            kw = {}
            if r[2:] != '_':
                for item in r[2:].split(','):
                    k, v = item.split('~')
                    kw[T.dec_text(k)] = T.dec_text(v)
            exp['kwargs'] = kw
    return exp


def compare(exp, obs, kind):
    diffs = []
    if exp['ran'] != obs['ran']:
        diffs.append('ran')
    if exp['status'] is not None and exp['status'] != obs['status']:
        diffs.append('status')
    if kind == 'M' and exp['status'] is not None and exp['allow'] != obs['allow']:
        diffs.append('allow')
    if exp['ran'] and obs['ran'] and 'kwargs' in exp and [exp['kwargs']] != obs.get('kwargs', [{}]):
        diffs.append('kwargs')
    return diffs


# ----------------------------------------------------------------------------------------------
# shrinking of a failing case (tree simplifications, shorter path); used for the replay file only
# ----------------------------------------------------------------------------------------------
def tree_variants(spec):
    import copy
    if spec.get('sections'):
        yield {k: v for k, v in spec.items() if k != 'sections'}
    if spec.get('dispatch_name'):
        yield {k: v for k, v in spec.items() if k != 'dispatch_name'}
    for n, nd in enumerate(spec['nodes']):
        for field in ('kids', 'meth', 'vals', 'imeth', 'ivals'):
            for j in range(len(nd.get(field, []))):
                new = copy.deepcopy(spec)
                del new['nodes'][n][field][j]
                yield new
        for field in ('disp', 'conf', 'call', 'exp', 'iexp', 'same_as'):
            if nd.get(field) is not None:
                new = copy.deepcopy(spec)
                new['nodes'][n][field] = None
                yield new
        if nd.get('falsy'):
            new = copy.deepcopy(spec)
            new['nodes'][n]['falsy'] = False
            yield new
        for j, (name, m) in enumerate(nd.get('meth', [])):
            for field in ('alias', 'conf', 'tooldeco', 'xform'):
                if m.get(field):
                    new = copy.deepcopy(spec)
                    new['nodes'][n]['meth'][j][1].pop(field)
                    yield new
        if isinstance(nd.get('conf'), dict):
            for k in nd['conf']:
                new = copy.deepcopy(spec)
                del new['nodes'][n]['conf'][k]
                yield new


def path_variants(path):
    segs = path.split('/')
    for i in range(len(segs)):
        if segs[i]:
            p = '/'.join(segs[:i] + segs[i + 1:])
            yield p if p.startswith('/') else '/' + p


def gc_tree(spec):
    """Drop nodes that are no longer referenced and renumber."""
    import copy
    nodes = spec['nodes']
    reach, todo = [], [0]
    while todo:
        i = todo.pop()
        if i in reach:
            continue
        reach.append(i)
        nd = nodes[i]
        refs = [j for _, j in nd.get('kids', [])]
        if nd.get('same_as') is not None:
            refs.append(nd['same_as'])
        d = nd.get('disp') or {}
        if isinstance(d.get('h'), list) and d['h'][1] is not None:
            refs.append(d['h'][1])
        if isinstance(d.get('ret'), list) and d['ret'][1] is not None:
            refs.append(d['ret'][1])
        todo.extend(refs)
    reach.sort()
    idx = {old: new for new, old in enumerate(reach)}
    out = []
    for old in reach:
        nd = copy.deepcopy(nodes[old])
        nd['kids'] = [[n, idx[j]] for n, j in nd.get('kids', [])]
        if nd.get('same_as') is not None:
            nd['same_as'] = idx[nd['same_as']]
        d = nd.get('disp') or {}
        if isinstance(d.get('h'), list) and d['h'][1] is not None:
            d['h'][1] = idx[d['h'][1]]
        if isinstance(d.get('ret'), list) and d['ret'][1] is not None:
            d['ret'][1] = idx[d['ret'][1]]
        out.append(nd)
    res = {'nodes': out}
    for k in ('sections', 'dispatch_name'):
        if spec.get(k):
            res[k] = spec[k]
    return res


def shrink_generic(case, variants, fails, budget=500):
    improved = True
    while improved and budget > 0:
        improved = False
        for v in variants(case):
            budget -= 1
            if budget <= 0:
                break
            try:
                bad = fails(v)
            except Exception:
                bad = False
            if bad:
                case = v
                improved = True
                break
    return case


def case_messages(c, want_purity=True):
    """Run one case from scratch: all (what, signature) the oracle reports for it.  A case may carry a
    `history` (requests served by the same application before it): then the request is also asked of a freshly
    built tree and the two answers are compared (the choice is a function of (tree, path, method))."""
    hist = [tuple(h) for h in c.get('history') or []]
    try:
        built, view, obs, lines, again = run_tree(c['tree'], c['kind'], hist + [_case_req(c)],
                                                  want_purity and not hist, not c.get('plain'), c.get('front'))
    except BuildRaised as e:
        return [('the object tree could not be set up: %s' % e, 'tree_setup_raised')]
    msgs = oracle(built, c, obs[-1]) + expose_oracle(built)
    if again is not None and strip_obs(again[-1]) != strip_obs(obs[-1]):
        msgs.append(('the same request answered differently in a different history: %s vs %s'
                     % (strip_obs(obs[-1]), strip_obs(again[-1])), 'not_pure'))
    if hist:
        b2, v2, fresh, l2, a2 = run_tree(c['tree'], c['kind'], [_case_req(c)], False, not c.get('plain'),
                                         c.get('front'))
        if strip_obs(fresh[0]) != strip_obs(obs[-1]):
            msgs.append(('the same request answered differently after the history %s: %s, on a fresh application %s'
                         % (hist, strip_obs(obs[-1]), strip_obs(fresh[0])), 'not_pure'))
    return msgs


def shrink_case(case, sig, history=None):
    def variants(c):
        for p in path_variants(c['path']):
            yield dict(c, path=p)
        for f in ('query', 'body'):
            if c.get(f):
                yield {k: v for k, v in c.items() if k != f}
        h = c.get('history') or []
        for i in range(len(h)):
            yield dict(c, history=h[:i] + h[i + 1:])
        for t in tree_variants(c['tree']):
            yield dict(c, tree=t)

    def messages(c):
        return [w for w, s2 in case_messages(c, sig == 'not_pure') if s2 == sig]

    def fails(c):
        return bool(messages(c))
    if history and not fails(case):
        # the failure needs what the application served before: keep that in the case
        case = dict(case, history=[list(h) for h in history])
        if not fails(case):
            return case, None
    small = shrink_generic(case, variants, fails, budget=5 if sig == 'no_answer' else 500)
    try:
        g = dict(small, tree=gc_tree(small['tree']))
        # renumbering changes probe ids; keep it only if the failure is still there
        if fails(g):
            small = g
    except Exception:
        pass
    return small, (messages(small) or [None])[0]


def report_failure(ctx, case, what, sig, shrinker, history=None):
    """ctx.oracle_fail with the first failure of each signature shrunk (the others are reported as found).
    `history`: what the same application served before this request (kept in the replay case when the failure
    does not show without it)."""
    done = getattr(ctx, '_shrunk_sigs', None)
    if done is None:
        done = ctx._shrunk_sigs = set()
    if sig not in done and ctx.match_known(sig) is None and len(done) < 4:
        done.add(sig)
        try:
            small, what_small = shrinker(case, sig, history) if history is not None else shrinker(case, sig)
            if small != case and what_small:
                what = what_small + '  [shrunk]'
                case = dict(small, shrunk_from=case)
        except Exception as e:     # shrinking is a convenience, never a reason to fail
            ctx.note('shrinking failed: %r' % (e,))
    elif history:
        case = dict(case, history=[list(h) for h in history])
    ctx.oracle_fail(case, what, sig)


# ----------------------------------------------------------------------------------------------
class BuildRaised(Exception):
    """Decorating the generated classes (`cherrypy.expose`, `cherrypy.popargs`, `cherrypy.config`) or creating the
    Application / dispatcher wrappers raised: the documented forms must be accepted (reported as an oracle failure
    with the tree as the input, never as a harness error)."""


def _rq(r):
    """(path, method[, query[, body[, headers]]]) -> (path, method, query, body, headers)"""
    r = tuple(r)
    return r + ('', None, None)[len(r) - 2:] if len(r) < 5 else r[:5]


def _case_req(c):
    return (c['path'], c['method'], c.get('query') or '', c.get('body'), c.get('headers'))


def _mk_case(spec, kind, r, instrument=True, front=None):
    p, m, q, b, h = _rq(r)
    case = {'tree': spec, 'kind': kind, 'path': p, 'method': m}
    if q:
        case['query'] = q
    if b:
        case['body'] = b
    if h:
        case['headers'] = h
    if front:
        case['front'] = front
    if not instrument:
        case['plain'] = True
    return case


def has_mut(spec):
    return any((nd.get('disp') or {}).get('mut') for nd in spec['nodes'])


def run_tree(spec, kind, reqs, purity=False, instrument=True, front=None):
    """Build the tree, run the requests; returns (built, view, [obs], [line]).
    `spec['sections']` (optional): application config sections {path: {key: value}}."""
    try:
        built = T.Built(spec, instrument=instrument)
    except common.HarnessError:
        raise
    except Exception as e:
        # cherrypy.expose / cherrypy.popargs / cherrypy.config raised while the tree was being decorated
        raise BuildRaised('%s: %s' % (type(e).__name__, e))
    reqs = [_rq(r) for r in reqs]
    paths = [r[0] for r in reqs]
    sections = spec.get('sections') or {}
    try:
        runner = T.Runner(built, kind, sections=sections, front=front)
    except common.HarnessError:
        raise
    except Exception as e:
        raise BuildRaised('mounting the application: %s: %s' % (type(e).__name__, e))
    secs = ';'.join('%s|%s' % (T.enc_text(k), T.enc_conf(v)) for k, v in sections.items()) or '-'

    def one(r):
        p, m, q, b, h = r
        return runner.get(p, m, query=q, req_body=b.encode('utf-8') if b else None, headers=h)
    obs = []
    for r in reqs:
        obs.append(one(r))
        if obs[-1].get('hang'):
            break          # one request that does not terminate is enough (each costs the guard time)
    again = None
    if purity and not any(o.get('hang') for o in obs):
        again = [one(r) for r in reversed(reqs)][::-1]
    seen = [o['path_info'] or p for o, p in zip(obs, paths)]
    maxsegs = max([len([s for s in p.split('/') if s]) for p in seen] + [0])
    added = [a for nd in spec['nodes'] if nd.get('disp') for a in nd['disp'].get('add', [])]
    if has_mut(spec):
        # names a rewriting dispatcher can put into the list
        added += ['a', 'b'] + [s.lower() for p in seen for s in p.split('/') if s]
    rets = [e['ret'] for o in obs for e in (o.get('disp_log') or [])]
    view = T.View(built, T.alphabet_for(seen, [r[1] for r in reqs], extra=added), maxsegs + 4, extra_roots=rets)
    root, na, nodes = view.fields()
    nodes_f = view.fields(nodisp=True)[2] if instrument else None
    lines = []
    for o, (p, m, q, b, h) in zip(obs, reqs):
        pi = o['path_info'] if o['path_info'] is not None else p
        lines.append(' '.join([kind, T.enc_text(m.upper()), root, na, nodes, secs, T.enc_text(pi)]))
        if front is not None and o.get('outer_path') is not None:
            o['front_line'] = front_line(front, o['outer_path'], h)
        if instrument and o.get('disp_log'):
            # the same request for `find_handler` over the table of the dispatcher calls that were seen
            o['fline'] = ' '.join(['F', kind, T.enc_text(m.upper()), root, na, nodes_f, secs, T.enc_text(pi),
                                   disp_table(view, o['disp_log'])])
    return built, view, obs, lines, again


def _enc_names(l):
    return '+'.join(T.enc_text(x) for x in l) or '-'


def front_line(front, outer_path, headers):
    """Driver line for the path rewriting of `VirtualHost` / `XMLRPCDispatcher`."""
    if front[0] == 'xmlrpc':
        return 'X ' + T.enc_text(outer_path)
    h = headers or {}
    domain = h.get('HTTP_HOST', 'localhost')
    if front[2]:
        domain = h.get('HTTP_X_FORWARDED_HOST', domain)
    doms = ','.join('%s~%s' % (T.enc_text(k), T.enc_text(v)) for k, v in front[1].items()) or '-'
    return ' '.join(['V', doms, T.enc_text(domain), T.enc_text(outer_path)])


def disp_table(view, log):
    """The recorded `_cp_dispatch` calls of one request as the driver's table (dispatcher object, list before)
    -> (returned object, list after, request.params updates) | raised."""
    out = []
    for e in log:
        key = ('m', id(e['self']), id(e['fn'])) if e['self'] is not None else ('o', id(e['fn']))
        did = view.ids.get(key)
        if did is None:
            continue
        if e['before'] is None:
            continue
        if e['raised'] or e['after'] is None:
            out.append('%d|%s|R|-|-' % (did, _enc_names(e['before'])))
            continue
        rid = 'N' if e['ret'] is None else view.ids.get(T.View.key(e['ret']))
        if rid is None:
            continue
        ps = e.get('params')
        if ps is None or any(not isinstance(k, str) or not isinstance(v, str) for k, v in ps):
            continue
        out.append('%d|%s|%s|%s|%s' % (did, _enc_names(e['before']), rid, _enc_names(e['after']),
                                       ','.join('%s~%s' % (T.enc_text(k), T.enc_text(v)) for k, v in ps) or '-'))
    return ';'.join(out) or '-'


def strip_obs(o):
    d = {k: o[k] for k in ('status', 'ran', 'allow', 'path_info')}
    if any(o.get('kwargs') or []):
        d['kwargs'] = o['kwargs']
    if o.get('hang'):
        d['hang'] = True
    if o.get('disp_log'):
        # what the dispatchers consumed (segments only: objects have no stable name)
        d['dispatchers'] = [[e['node'], e['before'], e['after'], e['raised']] for e in o['disp_log']]
    return d


def check_batch(ctx, batch, compare_model=True):
    """batch: list of (spec, kind, [(path, method[, query, body, headers])…], purity[, instrument[, front]])."""
    pending = []
    fronts = []
    for item in batch:
        if getattr(ctx, '_hangs', 0) >= 2:
            # every further request would cost the guard time again: the hang is reported, stop here
            ctx.note('stopped early: requests do not terminate')
            break
        spec, kind, reqs, purity = item[:4]
        instrument = item[4] if len(item) > 4 else True
        front = item[5] if len(item) > 5 else None
        reqs = [_rq(r) for r in reqs]
        try:
            built, view, obs, lines, again = run_tree(spec, kind, reqs, purity, instrument, front)
        except BuildRaised as e:
            case = _mk_case(spec, kind, reqs[0], instrument, front)
            ctx.case(case, key=json.dumps(case, sort_keys=True))
            ctx.oracle_fail(case, 'the object tree could not be set up with cherrypy.expose / popargs / config / '
                            'Application: %s' % e, 'tree_setup_raised')
            continue
        ndisp = sum(1 for nd in spec['nodes'] if nd.get('disp') is not None)
        mut = has_mut(spec)
        for what, sig in expose_oracle(built):
            report_failure(ctx, _mk_case(spec, kind, reqs[0], instrument, front), what, sig, shrink_case)
        if built.exposed_by_decorator:
            ctx.count('expose_decorator_checked', len(built.exposed_by_decorator))
        for k, (r, o) in enumerate(zip(reqs, obs)):
            p, m, q, b, hd = r
            case = _mk_case(spec, kind, r, instrument, front)
            nseg = len([s for s in (o['path_info'] or p).split('/') if s])
            ctx.case(case, nontrivial=nseg > 0, key=json.dumps([spec, kind, p, m, q, b, hd, front], sort_keys=True))
            if front:
                ctx.count('front:' + front[0])
                if o.get('front_line'):
                    fronts.append((case, o['front_line'], o['path_info']))
            ctx.count('kind:' + kind)
            ctx.count('segments:%d' % min(nseg, 7))
            ctx.count('status:%d' % o['status'])
            ctx.count('dispatchers_in_tree:%d' % min(ndisp, 4))
            ctx.count('nodes:%d' % min(10 * (len(spec['nodes']) // 10), 30))
            if q or b:
                ctx.count('with_query_or_body')
            if p.endswith('/') and nseg:
                ctx.count('trailing_slash')
            if '%2F' in p:
                ctx.count('path_with_%2F')
            dl = o.get('disp_log') or []
            if ndisp:
                ctx.count('dispatcher_calls:%d' % min(len(dl), 4))
            for e in dl:
                if e['before'] is not None and e['after'] is not None and not e['raised']:
                    n = len(e['before']) - len(e['after'])
                    wf = e['after'] == e['before'][len(e['before']) - len(e['after']):] if n >= 0 else False
                    ctx.count('dispatcher_consumed:%s' % ('added' if n < 0 else min(n, 4)))
                    if not wf and n >= 0:
                        ctx.count('dispatcher_rewrote_vpath')
                elif e['raised']:
                    ctx.count('dispatcher_raised')
            if o['ran']:
                ctx.count('args:%d' % min(len(o['ran'][0][1]), 4))
                ctx.count('kwargs:%d' % min(len((o.get('kwargs') or [{}])[0]), 4))
                ctx.count('ran:' + ('call' if o['ran'][0][0].endswith('()') else
                                    o['ran'][0][0].split('.', 1)[1] if o['ran'][0][0].split('.', 1)[1] in
                                    ('index', 'default') + tuple(VERBS) else 'method'))
                if dl:
                    ctx.count('ran_after_dispatcher:%s' % ('default' if o['ran'][0][0].endswith('.default') else
                                                           'index' if o['ran'][0][0].endswith('.index') else 'other')
                              + ('+args' if o['ran'][0][1] else ''))
            if o.get('hang'):
                ctx._hangs = getattr(ctx, '_hangs', 0) + 1
            for what, sig in oracle(built, case, o):
                report_failure(ctx, case, what, sig, shrink_case, reqs[:k])
            if ndisp and instrument:
                ctx.count('oracle_reference:%s' % (o.get('oracle_note') or 'full'))
            if again is not None and strip_obs(again[k]) != strip_obs(o):
                report_failure(ctx, case, 'the same request answered differently in a different history: %s vs %s'
                               % (strip_obs(o), strip_obs(again[k])), 'not_pure', shrink_case,
                               reqs + reqs[k + 1:][::-1])
            if spec.get('dispatch_name'):
                ctx.count('custom_dispatch_method_name')      # the model knows the standard name only: oracle only
                continue
            if not mut:
                pending.append((case, view, kind, strip_obs(o), lines[k], False))
            if o.get('fline'):
                pending.append((case, view, kind, strip_obs(o), o['fline'], True))
    if not compare_model:
        return
    if fronts:
        fout = ctx.model([f[1] for f in fronts])
        for (case, line, inner), mline in zip(fronts, fout or []):
            ctx.compared()
            if mline == 'bad-op':
                raise common.HarnessError('driver rejected %r' % line)
            if T.dec_text(mline) != inner:
                ctx.disagree(case, {'inner_path_info': inner}, {'model_line': mline, 'inner_path_info': T.dec_text(mline)},
                             'path handed to the default dispatcher by the %s wrapper differs' % case['front'][0])
    out = ctx.model([p[4] for p in pending])
    if out is None:
        return
    for (case, view, kind, o, line, table_form), mline in zip(pending, out):
        ctx.compared()
        if table_form:
            ctx.count('compared_table_form')
            if mline == 'bad-op':
                raise common.HarnessError('driver rejected the table-form line for %s' % json.dumps(case)[:400])
            if 'outOfFuel' in mline:
                raise common.HarnessError('model artefact %s for case %s' % (mline, json.dumps(case)[:400]))
            # `unknownDispatch` here = the model asked a dispatcher the real walk did not ask: a disagreement
        elif 'unknownDispatch' in mline or 'outOfFuel' in mline:
            raise common.HarnessError('model artefact %s for case %s' % (mline, json.dumps(case)[:400]))
        exp = model_expectation(mline, view, kind)
        if 'kwargs' in exp:
            # request.params starts from the query string and ends with the body parameters (Python side:
            # urllib), the model contributes what popargs put in between
            qb, _, _ = expected_kwargs(dict(case, tree={'nodes': []}), [])
            exp['kwargs'] = dict(qb, **exp['kwargs'])
        if mline.startswith('E:'):
            ctx.count('model:' + mline.split(' ')[0])
        diffs = compare(exp, o, kind)
        if diffs:
            ctx.disagree(case, o, {'model_line': mline, 'expected': exp,
                                   'model': 'DispatchFn over the recorded dispatcher calls' if table_form
                                   else 'Dispatch (dispatcher descriptors)'},
                         'dispatch observables differ in %s' % diffs)


QUERIES = ['', '', '', 'q=1', 'q=1&r=x%2Fy', 'r=', 'q=a+b&q2=%C3%A9', 'index=1']
BODIES = [None, None, 'bq=1', 'bq=1&br=x%2Fy']
# what a popped / left-over segment looks like
VALUES = ['2009', '12', 'x', 'y', 'x%2Fy', '%2F', 'a.b', 'A', 'café', 'index', 'default', 'a', 'b', 'zz', 'p.q-r',
          'a%2fb', '0']


def _rich_req(rng, kind, path):
    m = rng.choice(REQ_METHODS) if kind == 'M' else rng.choice(['GET', 'GET', 'GET', 'HEAD', 'POST'])
    q = rng.choice(QUERIES)
    b = rng.choice(BODIES) if m in ('POST', 'PUT') else None
    return (path, m, q, b)


def _same_path_other_method(rng, reqs):
    """Two of the paths again with another method (same application, same resource, other verb)."""
    out = []
    for r in rng.sample(list(reqs), min(2, len(reqs))):
        r = _rq(r)
        m = rng.choice([x for x in REQ_METHODS if x.upper() != r[1].upper()])
        out.append((r[0], m, r[2], r[3] if m in ('POST', 'PUT') else None))
    return out


def gen_levels(rng, kind='D'):
    """A spine of 2..4 levels; every level owns a dispatcher (`cherrypy.popargs` in its forms, nested through
    handler=, or a hand-written `_cp_dispatch`) that consumes 0, 1, 2 or 3 segments and hands over to the next
    level, itself, another object or None; `index` / `default` / the exposed mark / aliases at every level."""
    nodes = []

    def plain(nocall=False, leaf=False):
        nd = {'exp': None, 'call': None, 'falsy': False, 'meth': [], 'vals': [], 'kids': [], 'disp': None,
              'conf': None}
        i = len(nodes)
        nodes.append(nd)
        if kind == 'M':
            nd['exp'] = _mark(rng, 0.8)
            for v in VERBS:
                if rng.random() < 0.5:
                    nd['meth'].append([v, {'exp': _mark(rng, 0.3)}])
        else:
            if not nocall and rng.random() < 0.3:
                nd['call'] = {}
            nd['exp'] = _mark(rng, 0.6 if nd['call'] is not None else 0.04)
        if rng.random() < 0.6:
            nd['meth'].append(['index', {'exp': _mark(rng, 0.8)}])
        if rng.random() < (0.75 if not leaf else 0.5):
            nd['meth'].append(['default', {'exp': _mark(rng, 0.8)}])
        # `_cp_config` on objects and handlers: no clause of this property reads it (C08 does), but the walk
        # collects it on the way and the model has to walk the same way
        r = rng.random()
        if r < 0.1:
            nd['conf'] = {'c02.k%d' % i: i}
        elif r < 0.14:
            nd['conf'] = {'tools.staticdir.dir': 'static%d' % i}
        for name, m in nd['meth']:
            if rng.random() < 0.1:
                m['conf'] = {'c02.m': name}
        used = {n for n, _ in nd['meth']}
        if rng.random() < 0.5:
            name = rng.choice(['a', 'b', 'a_b', 'x_y', 'c'])
            m = {'exp': _mark(rng, 0.7)}
            if rng.random() < 0.3:
                m['alias'] = rng.choice(['al', 'al.ias', ['p.q', 'al']])
                m['xform'] = rng.choice(['kw', 'pos', 'func'])
            if name not in used:
                nd['meth'].append([name, m])
        return i

    depth = rng.choice([2, 2, 3, 3, 4])
    spine = [plain(nocall=True) for _ in range(depth)]
    spec = {'nodes': nodes}
    # a dispatcher configured with its own dispatch method name (`Dispatcher('dispatch')`): generated dispatchers
    # live under that name, `_cp_dispatch` is then an ordinary attribute
    dname = '_cp_dispatch'
    if rng.random() < 0.12:
        # (names no generated probe ever carries: an unexposed probe under that name would BE a dispatcher)
        dname = spec['dispatch_name'] = rng.choice(['dispatch', 'route', 'resolve'])
    for lv, i in enumerate(spine):
        nd = nodes[i]
        nxt = spine[lv + 1] if lv + 1 < depth else None
        nd['meth'] = [m for m in nd['meth'] if m[0] != dname]
        used = {n for n, _ in nd['meth']} | {dname}
        if dname != '_cp_dispatch' and rng.random() < 0.3:
            nd['meth'].append(['_cp_dispatch', {'exp': _mark(rng, 0.5)}])    # an ordinary attribute here
        # ordinary children: the next level (so that attribute steps and dispatcher steps mix) and a leaf
        if nxt is not None and rng.random() < 0.7:
            name = rng.choice([n for n in ['n', 'a', 'b', 'a_b', 'x_y'] if n not in used])
            used.add(name)
            nd['kids'].append([name, nxt])
        if rng.random() < 0.5:
            name = rng.choice([n for n in ['leaf', 'a', 'c', 'a_2Fb'] if n not in used] or ['leaf2'])
            used.add(name)
            nd['kids'].append([name, plain(leaf=True)])
        names = ['y%d_%d' % (lv, k) for k in range(rng.choice([0, 1, 1, 2, 2, 2, 3]))]
        target = rng.choice([nxt, nxt, nxt, nxt, i, rng.choice(spine), None]) if nxt is not None else \
            rng.choice([i, None, plain(nocall=True, leaf=True), rng.choice(spine)])
        r = rng.random()
        if lv > 0 and r < 0.12:
            continue                      # a level without dispatcher
        if r < 0.17:
            # no dispatcher, but an exposed PAGE (probe) under the dispatch method's name (an unexposed callable there
            # would be a dispatcher)
            nd['meth'].append([dname, {'exp': rng.choice([True, True, 1])}])
            continue
        if r < 0.27:
            nd['disp'] = {'t': 'popargs_cls', 'names': names}
        elif r < 0.6:
            hk = rng.choice(['none', 'obj', 'obj', 'fn', 'fn', 'fn_none'])
            if hk == 'obj' and (target is None or nodes[target]['call'] is not None):
                hk = 'fn'
            h = {'none': None, 'obj': ['obj', target], 'fn': ['fn', target], 'fn_none': ['fn', None]}[hk]
            nd['disp'] = {'t': 'popargs_attr', 'names': names, 'h': h}
        else:
            ret = rng.choice(['fixed', 'fixed', 'fixed', 'self', 'peek', 'popget'])
            if ret == 'fixed':
                ret = ['fixed', target]
            d = {'t': 'custom', 'pop': rng.choice([0, 1, 1, 2, 2, 3]), 'add': [], 'ret': ret}
            ra = rng.random()
            if ra < 0.05:
                d['add'] = [rng.choice(['a', 'b'])]
            elif ra < 0.14:
                d['mut'] = rng.choice(['popback', 'lower', 'reverse', 'clear', 'rename0', 'rename1'])
            if rng.random() < 0.09:
                d['exp'] = rng.choice([True, True, 1, False])
            nd['disp'] = d
    # further instances of a level's class, with attributes of their own (per-instance handlers / verbs / mark)
    for i in list(spine):
        if rng.random() < 0.3 and nodes[0] is not nodes[i]:
            sib = sibling_instance(rng, nodes, i, kind)
            holder = nodes[rng.choice([j for j in spine if j != i] or [0])]
            free = [n for n in ['s', 'sib', 'b', 'c'] if n not in {k for k, _ in holder['kids']} and
                    n not in {k for k, _ in holder['meth']}]
            if free:
                holder['kids'].append([free[0], sib])
    return spec


def sibling_instance(rng, nodes, j, kind):
    """Another instance of node j's class with instance-level attributes (setattr on the instance)."""
    nd = {'exp': None, 'call': None, 'falsy': False, 'meth': [], 'vals': [], 'kids': [], 'disp': None, 'conf': None,
          'same_as': j, 'imeth': [], 'ivals': []}
    nodes.append(nd)
    i = len(nodes) - 1
    if kind == 'M':
        for v in VERBS + ['PATCH']:
            if rng.random() < 0.4:
                nd['imeth'].append([v, {'exp': _mark(rng, 0.3)}])
        if rng.random() < 0.15:
            nd['ivals'].append([rng.choice(VERBS), rng.choice([None, 0, 'text'])])
        if rng.random() < 0.15:
            nd['ivals'].append([rng.choice(['X', 'ZZ']), 5])
    else:
        for name in ('index', 'default', 'a'):
            if rng.random() < 0.4:
                nd['imeth'].append([name, {'exp': _mark(rng, 0.7)}])
    if rng.random() < 0.3:
        nd['iexp'] = rng.choice([True, True, False, 0, 1])
    return i


def gen_shared_class(rng, kind='M'):
    """Several resources that are instances of ONE class, told apart only by instance attributes (per-instance verbs
    for the method dispatcher; per-instance index / default / exposed mark for the default one), below a root, and a
    request sequence over them.  Returned twice: the sequence and its reverse (each on a fresh application)."""
    nodes = [{'exp': True if kind == 'M' else None, 'call': None, 'falsy': False, 'meth': [['index', {'exp': True}]],
              'vals': [], 'kids': [], 'disp': None, 'conf': None}]
    first = {'exp': _mark(rng, 0.85) if kind == 'M' else _mark(rng, 0.3),
             'call': {} if (kind == 'D' and rng.random() < 0.5) else None, 'falsy': False, 'meth': [], 'vals': [],
             'kids': [], 'disp': None, 'conf': None, 'imeth': [], 'ivals': []}
    if kind == 'M':
        for v in VERBS:
            if rng.random() < 0.35:
                first['meth'].append([v, {'exp': _mark(rng, 0.3)}])
    else:
        for name in ('index', 'default'):
            if rng.random() < 0.4:
                first['meth'].append([name, {'exp': _mark(rng, 0.7)}])
    nodes.append(first)
    names = ['r1', 'r2', 'r3', 'r4', 'a_b']
    nodes[0]['kids'].append([names[0], 1])
    for k in range(rng.choice([1, 2, 2, 3])):
        nodes[0]['kids'].append([names[k + 1], sibling_instance(rng, nodes, 1, kind)])
    if rng.random() < 0.5:
        # the first instance too has something of its own
        for v in (VERBS if kind == 'M' else ['index', 'default']):
            if rng.random() < 0.25 and v not in {n for n, _ in first['meth']}:
                first['imeth'].append([v, {'exp': _mark(rng, 0.5)}])
    if rng.random() < 0.3:
        # instances below an instance
        nodes[1]['kids'].append(['sub', sibling_instance(rng, nodes, 1, kind)])
    spec = {'nodes': nodes}
    reqs = []
    for _ in range(rng.choice([6, 8, 10])):
        k, _j = rng.choice(nodes[0]['kids'])
        p = '/' + seg_variant(rng, k) + rng.choice(['', '', '/', '/x', '/sub', '/sub/', '/x%2Fy/z'])
        m = rng.choice(REQ_METHODS) if kind == 'M' else rng.choice(['GET', 'GET', 'HEAD', 'POST'])
        reqs.append((p, m))
    return [(spec, kind, reqs, True), (spec, kind, reqs[::-1], False)]


def gen_batch_shared(rng, n):
    out = []
    for i in range(n):
        out += gen_shared_class(rng, 'M' if i % 3 != 2 else 'D')
    return out


def _hop(rng, spec, cur):
    """Roughly what the dispatcher of node `cur` does with the next segments: (segments to emit, next node or
    None).  Only steers the path generator; never used to judge anything."""
    nd = spec['nodes'][cur]
    d = nd['disp']
    kids = nd['kids']

    def kidstep():
        if kids and rng.random() < 0.8:
            name, j = rng.choice(kids)
            return [seg_variant(rng, name)], j
        return [rng.choice(VALUES)], None
    if d['t'] in ('popargs_cls', 'popargs_attr'):
        n = len(d['names']) if d.get('names') is not None else d.get('n', 0)
        segs = [rng.choice(VALUES) for _ in range(n)]
        h = d.get('h')
        if h is None:
            s2, j = kidstep()
            return segs + s2, j
        if not segs:
            segs = [rng.choice(VALUES)]
        return segs, h[1]
    if d['t'] == 'custom':
        segs = [rng.choice(VALUES) for _ in range(d.get('pop', 0))]
        ret = d['ret']
        if ret in ('peek', 'popget'):
            s2, j = kidstep()
            return segs + s2, j
        if not segs:
            segs = [rng.choice(VALUES)]
        return segs, (cur if ret == 'self' else ret[1])
    return [rng.choice(VALUES)], None


def gen_path_levels(rng, spec):
    nodes = spec['nodes']
    segs = []
    cur = 0
    for _ in range(rng.choice([1, 2, 2, 3, 3, 4])):
        if cur is None or len(segs) > 7:
            break
        nd = nodes[cur]
        r = rng.random()
        attrs = [(n, j) for n, j in nd['kids']] + [(n, None) for n, _ in nd['meth'] if n not in VERBS]
        for n, m in nd['meth']:
            al = m.get('alias') or []
            attrs += [(a, None) for a in ([al] if isinstance(al, str) else al)]
        if nd.get('disp') is not None and r < 0.65:
            s2, cur = _hop(rng, spec, cur)
            segs += s2
        elif attrs and r < (0.9 if nd.get('disp') is not None else 0.75):
            name, cur = rng.choice(attrs)
            segs.append(seg_variant(rng, name))
        else:
            break
    # what is left over for a `default` (or nothing: `index`)
    segs += [rng.choice(VALUES) for _ in range(rng.choice([0, 0, 1, 1, 2, 3]))]
    path = '/' + '/'.join(segs)
    r = rng.random()
    if r < 0.3 and segs:
        path += '/'
    elif r < 0.36:
        path += '//'
    elif r < 0.4:
        path = path.replace('/', '//', 1)
    return path


def gen_batch_levels(rng, n_trees, reqs_per_tree=10):
    batch = []
    for i in range(n_trees):
        kind = 'M' if i % 6 == 5 else 'D'
        spec = gen_levels(rng, kind)
        reqs = [_rich_req(rng, kind, gen_path_levels(rng, spec)) for _ in range(reqs_per_tree)]
        if kind == 'M':
            reqs += _same_path_other_method(rng, reqs)
        if i % 12 == 7:
            # application config sections along one of the paths (read by C08; here: walked past)
            segs = [x for x in reqs[0][0].split('/') if x]
            spec['sections'] = {'/' + '/'.join(segs[:k]): {'c02.s%d' % k: k} for k in range(1, len(segs) + 1)}
        if i % 10 == 4:
            front, reqs = gen_front(rng, spec, reqs)
            batch.append((spec, kind, reqs, i % 3 == 0, True, front))
            continue
        # every eighth tree runs without the recording wrappers (model comparison and the weak clauses only)
        batch.append((spec, kind, reqs, i % 3 == 0, i % 8 != 7))
    return batch


def gen_batch(rng, n_trees, reqs_per_tree=8):
    batch = []
    for i in range(n_trees):
        kind = 'M' if i % 5 == 4 else 'D'
        with_disp = (i % 5 in (1, 3))
        spec = gen_tree(rng, kind, with_disp)
        reqs = []
        for _ in range(reqs_per_tree):
            p = gen_path(rng, spec)
            m = rng.choice(REQ_METHODS) if kind == 'M' else rng.choice(['GET', 'GET', 'GET', 'HEAD', 'POST'])
            reqs.append((p, m))
        if kind == 'M':
            reqs += [r[:2] for r in _same_path_other_method(rng, reqs)]
        if i % 7 == 3:
            reqs = [(p, m, rng.choice(QUERIES), rng.choice(BODIES) if m in ('POST', 'PUT') else None)
                    for p, m in reqs]
        if i % 9 == 5:
            front, reqs = gen_front(rng, spec, reqs)
            batch.append((spec, kind, reqs, i % 4 == 0, True, front))
            continue
        batch.append((spec, kind, reqs, i % 4 == 0))
    return batch


HOSTS = ['a.example', 'www.a.example', 'b.example:8080', 'c.example', 'd.example', 'localhost']


def gen_front(rng, spec, reqs):
    """A `VirtualHost` (host -> prefix built from the tree's own names) or `XMLRPCDispatcher` wrapper in front of
    the dispatcher, and requests with Host / X-Forwarded-Host headers."""
    if rng.random() < 0.3:
        out = []
        for r in reqs:
            r = _rq(r)
            p = r[0]
            x = rng.random()
            if x < 0.35:
                p = '/RPC2' + p
            elif x < 0.45:
                p = '/RPC2'
            elif x < 0.5:
                p = '/rpc2' + p
            out.append((p,) + r[1:])
        return ['xmlrpc'], out
    kids = [n for n, j in spec['nodes'][0]['kids']] or ['a']
    domains = {}
    for h in rng.sample(HOSTS, rng.choice([1, 2, 3, 4])):
        x = rng.random()
        k = rng.choice(kids)
        if x < 0.5:
            domains[h] = '/' + seg_variant(rng, k)
        elif x < 0.65:
            sub = [n for n, j in spec['nodes'][0]['kids'] if n == k]
            domains[h] = '/' + k + '/' + rng.choice(NAMES)
        elif x < 0.75:
            domains[h] = '/' + k + '/'
        elif x < 0.82:
            domains[h] = ''
        elif x < 0.9:
            domains[h] = k
        else:
            domains[h] = '/' + rng.choice(UNKNOWN)
    use_xfh = rng.random() < 0.7
    out = []
    for r in reqs:
        r = _rq(r)
        hd = {}
        if rng.random() < 0.85:
            hd['HTTP_HOST'] = rng.choice(HOSTS)
        if rng.random() < 0.35:
            hd['HTTP_X_FORWARDED_HOST'] = rng.choice(HOSTS)
        out.append(r[:4] + (hd,))
    return ['vhost', domains, use_xfh], out


# ----------------------------------------------------------------------------------------------
# concurrency: two or three requests in flight through ONE mounted application (one Dispatcher instance), in real
# threads, gated deterministically where code of the generated tree runs during dispatch
# ----------------------------------------------------------------------------------------------
CONC_WAIT = 20.0       # wall seconds a scheduled thread may take to reach its gate / finish: beyond = no answer


class Sched:
    """Thread i runs until its `park_at`-th gate event (or to the end), then thread i+1 is started …; the last one
    runs to the end; the parked ones are resumed (lifo: innermost first; fifo: first parked first).  Only
    Event.wait hand-overs, no sleeps; a wait that times out is the observation "no answer"."""

    def __init__(self):
        self.plans = {}

    def gate(self, kind, info):
        import threading
        st = self.plans.get(threading.get_ident())
        if st is None:
            return
        n = st['count']
        st['count'] = n + 1
        if len(st['trace']) < 400:
            st['trace'].append([kind, info if isinstance(info, (str, int)) else repr(info)])
        if n == st['park_at'] and not st['released']:
            st['parked_here'] = [kind, info]
            st['stopped'].set()
            if not st['resume'].wait(CONC_WAIT * 3):
                st['gave_up'] = True


def run_conc(built, runner, items, order='lifo'):
    """items: [(request, park_at | None)]; returns [obs] (obs['hang'] when a thread did not answer in time;
    obs['parked'] = the gate it was parked at, if it got there)."""
    import threading
    sched = Sched()
    built.gate = sched.gate
    states = []
    try:
        for r, park_at in items:
            p, m, q, b, h = _rq(r)
            st = {'count': 0, 'trace': [], 'park_at': -1 if park_at is None else park_at, 'released': False,
                  'stopped': threading.Event(), 'resume': threading.Event(), 'done': threading.Event(),
                  'obs': None, 'parked_here': None}

            def body(st=st, p=p, m=m, q=q, b=b, h=h):
                sched.plans[threading.get_ident()] = st
                try:
                    st['obs'] = T.get_in_thread(runner, p, m, query=q, req_body=b.encode('utf-8') if b else None,
                                                headers=h)
                except BaseException as e:      # nothing may be lost silently in a worker thread
                    st['error'] = repr(e)
                finally:
                    st['done'].set()
                    st['stopped'].set()
            th = threading.Thread(target=body, daemon=True)
            st['thread'] = th
            states.append(st)
            th.start()
            if not st['stopped'].wait(CONC_WAIT):
                st['hang'] = True
                break
        parked = [st for st in states if not st['done'].is_set() and not st.get('hang')]
        for st in (reversed(parked) if order == 'lifo' else parked):
            st['released'] = True
            st['resume'].set()
            if not st['done'].wait(CONC_WAIT):
                st['hang'] = True
        # whoever is still parked (after a hang) is let go; the threads are daemons
        for st in states:
            st['released'] = True
            st['resume'].set()
    finally:
        built.gate = None
    out = []
    for st in states:
        o = st['obs']
        if o is None:
            o = {'status': 0, 'ran': [], 'kwargs': [], 'allow': None, 'path_info': None, 'disp_log': [],
                 'hang': True, 'error': st.get('error')}
        elif st.get('hang'):
            o = dict(o, hang=True)
        o['parked'] = st['parked_here']
        o['trace'] = st['trace']
        out.append(o)
    while len(out) < len(items):
        out.append(None)          # never started (an earlier thread did not answer)
    return out


def conc_case_messages(c):
    """One concurrency case from scratch: [(what, signature)].  Each request is first served alone (same
    application, nothing else in flight): that answer is the reference; then the requests are served interleaved as
    the case says and every one of them must get the answer it got alone, and satisfy the statement by itself."""
    spec, kind = c['tree'], c['kind']
    try:
        built = T.Built(spec, instrument=True, gates=True)
        runner = T.Runner(built, kind, sections=spec.get('sections') or {})
    except common.HarnessError:
        raise
    except Exception as e:
        return [('the object tree could not be set up: %s: %s' % (type(e).__name__, e), 'tree_setup_raised')], None
    items = [(tuple(r), k) for r, k in c['conc']]
    solo = []
    for r, k in items:
        p, m, q, b, h = _rq(r)
        solo.append(runner.get(p, m, query=q, req_body=b.encode('utf-8') if b else None, headers=h))
        if solo[-1].get('hang'):
            return [('the request for %r did not produce an answer (dispatcher does not terminate)' % p,
                     'no_answer')], None
    obs = run_conc(built, runner, items, c.get('order', 'lifo'))
    msgs = []
    for (r, k), s0, o in zip(items, solo, obs):
        if o is None:
            continue
        single = _mk_case(spec, kind, r)
        if o.get('hang'):
            msgs.append(('request %r did not produce an answer while %s were in flight (parked at %s)'
                         % (r[0], [x[0][0] for x in items], o.get('parked')), 'no_answer_concurrent'))
            continue
        for what, sig in oracle(built, single, o):
            msgs.append(('with %s in flight (this one parked at %s): %s'
                         % ([x[0][0] for x in items], o.get('parked'), what), sig))
        a, b2 = strip_obs(s0), strip_obs(o)
        if a != b2:
            msgs.append(('request %s %r answered %s alone but %s while %s were in flight (schedule: park at gate '
                         'events %s, resume %s; this one parked at %s)'
                         % (r[1], r[0], a, b2, [x[0][0] for x in items], [k2 for _, k2 in items],
                            c.get('order', 'lifo'), o.get('parked')), 'not_pure_concurrent'))
    return msgs, (solo, obs)


def gate_trace(spec, kind, r):
    """The gate events of one request served alone."""
    built = T.Built(spec, instrument=True, gates=True)
    runner = T.Runner(built, kind, sections=spec.get('sections') or {})
    trace = []
    built.gate = lambda kind_, info: trace.append((kind_, info))
    try:
        p, m, q, b, h = _rq(r)
        o = runner.get(p, m, query=q, req_body=b.encode('utf-8') if b else None, headers=h)
    finally:
        built.gate = None
    return trace, o


def pick_gates(rng, trace, n=3):
    """Where to park: inside a dispatcher / popargs handler function (the walk is half done), at a late
    `default` / `index` / `exposed` lookup (the scan), and anywhere."""
    if not trace:
        return [None]
    inside = [i for i, (k, _) in enumerate(trace) if k in ('disp_enter', 'disp_exit', 'handler_fn')]
    late = [i for i, (k, info) in enumerate(trace) if k == 'attr' and info in ('default', 'index', 'exposed')]
    out = []
    if inside:
        out.append(rng.choice(inside))
    if late:
        out.append(rng.choice(late[len(late) // 2:]))
    out.append(rng.randrange(len(trace)))
    return list(dict.fromkeys(out))[:n]


def gen_conc_cases(rng, n_trees, per_tree=4):
    cases = []
    for i in range(n_trees):
        kind = 'M' if i % 7 == 6 else 'D'
        spec = gen_levels(rng, kind) if i % 4 != 3 else gen_tree(rng, kind, True)
        mk = (lambda: _rich_req(rng, kind, gen_path_levels(rng, spec))) if i % 4 != 3 else \
            (lambda: (gen_path(rng, spec), rng.choice(REQ_METHODS) if kind == 'M' else 'GET'))
        reqs = [_rq(mk()) for _ in range(6)]
        try:
            traces = [gate_trace(spec, kind, r)[0] for r in reqs]
        except common.HarnessError:
            raise
        except Exception:
            traces = [[] for r in reqs]      # the failure shows again (and is reported) when the case runs
        for _ in range(per_tree):
            ia = rng.randrange(len(reqs))
            others = [j for j in range(len(reqs)) if reqs[j][:2] != reqs[ia][:2]] or [ia]
            ib = rng.choice(others)
            ka = rng.choice(pick_gates(rng, traces[ia]))
            conc = [[list(reqs[ia]), ka]]
            if rng.random() < 0.25:
                ic = rng.choice(others)
                conc.append([list(reqs[ib]), rng.choice(pick_gates(rng, traces[ib]))])
                conc.append([list(reqs[ic]), None])
            else:
                conc.append([list(reqs[ib]), None])
            cases.append({'tree': spec, 'kind': kind, 'conc': conc, 'order': rng.choice(['lifo', 'lifo', 'fifo'])})
    return cases


def shrink_conc(case, sig, history=None):
    def variants(c):
        if len(c['conc']) > 2:
            for i in range(1, len(c['conc'])):
                yield dict(c, conc=c['conc'][:i] + c['conc'][i + 1:])
        for i, (r, k) in enumerate(c['conc']):
            for p in path_variants(r[0]):
                yield dict(c, conc=c['conc'][:i] + [[[p] + list(r[1:]), k]] + c['conc'][i + 1:])
            if r[2] or r[3]:
                yield dict(c, conc=c['conc'][:i] + [[[r[0], r[1], '', None, r[4]], k]] + c['conc'][i + 1:])
        for t in tree_variants(c['tree']):
            yield dict(c, tree=t)

    def messages(c):
        return [w for w, s2 in conc_case_messages(c)[0] if s2 == sig]
    small = shrink_generic(case, variants, lambda c: bool(messages(c)), budget=5 if 'no_answer' in sig else 150)
    return small, (messages(small) or [None])[0]


def check_conc(ctx, cases):
    for c in cases:
        if getattr(ctx, '_hangs', 0) >= 2:
            ctx.note('stopped early: requests do not terminate')
            break
        msgs, runs = conc_case_messages(c)
        ctx.case(c, key=json.dumps(c, sort_keys=True))
        ctx.count('concurrent:%d_in_flight' % len(c['conc']))
        ctx.count('concurrent_order:' + c.get('order', 'lifo'))
        if runs is not None:
            solo, obs = runs
            for o in obs:
                if o is None:
                    continue
                pk = o.get('parked')
                ctx.count('concurrent_parked_at:%s' % (pk[0] if pk else 'not_parked'))
                if pk and pk[0] == 'attr':
                    ctx.count('concurrent_parked_attr:%s' % (pk[1] if pk[1] in ('default', 'index', 'exposed', '_cp_dispatch',
                                                                              '_cp_config') else 'other'))
        for what, sig in msgs:
            if 'no_answer' in sig:
                ctx._hangs = getattr(ctx, '_hangs', 0) + 1
            report_failure(ctx, c, what, sig, shrink_conc, [])


# ----------------------------------------------------------------------------------------------
# mounts: Tree.script_name / Tree.__call__ (model: DispatchFn.scriptName / treeRoute)
# ----------------------------------------------------------------------------------------------
MOUNT_KEYS = ['', '/app', '/app/sub', '/app/sub/deep', '/a', '/a.b', '/App', '/app2', '/x%20y', 'rel', '/app/', '//dbl']
MOUNT_TAILS = ['', '/', '/x', '/x/y', 'x', '/sub', '/subx', '/sub/', '/sub/deep/z', '//x', '/x//', '/a.b/c', '/index']


def gen_mount_case(rng):
    keys = rng.sample(MOUNT_KEYS, rng.choice([1, 2, 3, 4, 5]))
    if rng.random() < 0.5 and '' not in keys:
        keys.append('')
    reqs = []
    for _ in range(8):
        r = rng.random()
        base = rng.choice(keys) if r < 0.6 else rng.choice(MOUNT_KEYS) if r < 0.85 else rng.choice(['/zz', '/ap', '/apps'])
        pi = base + rng.choice(MOUNT_TAILS)
        sn0 = rng.choice(['', '', '', '/app', '/app/', '/zz', 'rel'])
        if sn0 and rng.random() < 0.5 and pi.startswith(sn0):
            pi = pi[len(sn0):]
        reqs.append([sn0, pi])
    return {'mounts': keys, 'reqs': reqs}


def run_mounts(case):
    """Mount one probe application per key on a fresh `Tree` and send the requests through `Tree.__call__`;
    also ask `Tree.script_name(path)` directly.  Returns (keys as stored, [obs])."""
    import io
    cherrypy = T.cp()
    from cherrypy import _cptree
    tree = _cptree.Tree()
    journal = []

    def make_root(i):
        def default(self, *a, **kw):
            # `tree.script_name()` without argument: the mount of the request being served
            env = cherrypy.request.wsgi_environ
            journal.append((i, list(a), env.get('SCRIPT_NAME'), env.get('PATH_INFO'), tree.script_name(),
                            cherrypy.request.script_name))
            return 'ok'
        default.exposed = True
        return type('Mount%d' % i, (object,), {'default': default, 'index': default})()
    for i, k in enumerate(case['mounts']):
        try:
            app = tree.mount(make_root(i), k, {'/': {'tools.trailing_slash.on': False}})
            app.log.screen = False
            app.log.error_file = ''
            app.log.access_file = ''
        except Exception as e:
            return list(getattr(tree, 'apps', {}).keys()), [{'sn0': s0, 'pi': pi, 'status': 'mount raised %s' % type(e).__name__,
                                                             'ran': [], 'script_name_of_joined': 'mount raised'}
                                                            for s0, pi in case['reqs']]
    keys = list(tree.apps.keys())
    obs = []
    for sn0, pi in case['reqs']:
        del journal[:]
        environ = {
            'REQUEST_METHOD': 'GET', 'SCRIPT_NAME': sn0, 'PATH_INFO': pi, 'QUERY_STRING': '',
            'SERVER_NAME': 'localhost', 'SERVER_PORT': '80', 'SERVER_PROTOCOL': 'HTTP/1.1',
            'CONTENT_LENGTH': '0', 'wsgi.version': (1, 0), 'wsgi.url_scheme': 'http',
            'wsgi.input': io.BytesIO(b''), 'wsgi.errors': io.StringIO(), 'wsgi.multithread': False,
            'wsgi.multiprocess': False, 'wsgi.run_once': False, 'REMOTE_ADDR': '127.0.0.1', 'HTTP_HOST': 'localhost',
        }
        got = {}

        def start_response(status, headers, exc_info=None):
            got['status'] = status
        o = {'sn0': sn0, 'pi': pi}
        try:
            with T.cpu_guard(4.0):
                res = tree(environ, start_response)
                try:
                    b''.join(res)
                finally:
                    if hasattr(res, 'close'):
                        res.close()
            o['status'] = int(got['status'].split()[0])
        except T.NoAnswer:
            o['status'] = 'no answer'
        except Exception as e:          # an observation, not a harness error
            o['status'] = 'raised ' + type(e).__name__
        o['ran'] = [list(j) for j in journal]
        try:
            import posixpath  # noqa: F401  (nothing from cherrypy: the joined path is computed by hand)
            joined = '/'.join(x for x in (sn0, pi) if x)
            while '//' in joined:
                joined = joined.replace('//', '/')
            joined = joined or '/'
            o['joined'] = joined
            with T.cpu_guard(4.0):
                o['script_name_of_joined'] = tree.script_name(joined)
        except T.NoAnswer:
            o['script_name_of_joined'] = 'no answer'
        except Exception as e:
            o['script_name_of_joined'] = 'raised ' + type(e).__name__
        obs.append(o)
    return keys, obs


def check_mounts(ctx, cases):
    lines, meta = [], []
    for case in cases:
        if getattr(ctx, '_hangs', 0) >= 2:
            ctx.note('stopped early: mount lookups do not terminate')
            break
        keys, obs = run_mounts(case)
        apps = '=' + ','.join(T.enc_text(k) for k in keys)
        for (sn0, pi), o in zip(case['reqs'], obs):
            single = {'mounts': case['mounts'], 'reqs': [[sn0, pi]]}
            ctx.case(single, nontrivial=True, key=json.dumps(single, sort_keys=True))
            ctx.count('mounts:%d' % len(keys))
            ctx.count('mount_status:%s' % o['status'])
            # exposed-only holds trivially here (every probe is exposed); at most one handler per request
            if len(o['ran']) > 1:
                ctx.oracle_fail(single, 'more than one handler ran: %s' % o['ran'], 'multiple_handlers')
            if o['status'] == 'no answer' or o.get('script_name_of_joined') == 'no answer':
                ctx._hangs = getattr(ctx, '_hangs', 0) + 1
                ctx.oracle_fail(single, 'the mount lookup for SCRIPT_NAME=%r PATH_INFO=%r did not produce an answer'
                                % (sn0, pi), 'no_answer')
            lines.append(' '.join(['S', apps, T.enc_text(sn0), T.enc_text(pi)]))
            meta.append((single, o, 'S'))
            lines.append(' '.join(['T', apps, T.enc_text(o.get('joined', '/'))]))
            meta.append((single, o, 'T'))
    out = ctx.model(lines)
    if out is None:
        return
    for (single, o, op), mline in zip(meta, out):
        ctx.compared()
        if mline == 'bad-op':
            raise common.HarnessError('driver rejected a mount line for %s' % json.dumps(single))
        if op == 'T':
            want = None if mline == 'N' else T.dec_text(mline)
            if o['script_name_of_joined'] != want:
                ctx.disagree(single, {'Tree.script_name': o['script_name_of_joined'], 'path': o.get('joined')},
                             {'model_line': mline, 'script_name': want}, 'Tree.script_name(path) differs')
            continue
        if mline == 'N':
            exp = {'status': 404, 'ran': []}
            got = {'status': o['status'], 'ran': o['ran']}
        else:
            sn, rest = [T.dec_text(x) for x in mline.split(' ')]
            # what Tree.__call__ put into the environ of the application it chose
            exp = {'SCRIPT_NAME': sn, 'PATH_INFO': rest, 'tree.script_name()': sn, 'request.script_name': sn}
            got = {'SCRIPT_NAME': o['ran'][0][2], 'PATH_INFO': o['ran'][0][3], 'tree.script_name()': o['ran'][0][4],
                   'request.script_name': o['ran'][0][5]} if len(o['ran']) == 1 else \
                {'status': o['status'], 'ran': o['ran']}
        if exp != got:
            ctx.disagree(single, got, {'model_line': mline, 'expected': exp},
                         'mount chosen by Tree.__call__ / path_info handed to the application differ')


# ----------------------------------------------------------------------------------------------
# which lines of the anchored functions does the run execute?  (sys.monitoring, LINE events on those code
# objects only; every location is switched off after its first hit, so the cost is negligible)
# ----------------------------------------------------------------------------------------------
class Coverage:
    TOOL = 3      # an id no debugger / coverage / profiler uses by convention

    def __init__(self):
        self.codes = {}       # code object -> label
        self.hit = set()      # (filename, line)
        self.on = False

    def anchored(self):
        cherrypy = T.cp()
        from cherrypy import _cpdispatch, _helper, _cptree, _cprequest
        from cherrypy.lib import xmlrpcutil
        fns = [
            ('Dispatcher.__call__', _cpdispatch.Dispatcher.__call__),
            ('Dispatcher.find_handler', _cpdispatch.Dispatcher.find_handler),
            ('MethodDispatcher.__call__', _cpdispatch.MethodDispatcher.__call__),
            ('PageHandler.__call__', _cpdispatch.PageHandler.__call__),
            ('LateParamPageHandler.kwargs', _cpdispatch.LateParamPageHandler.kwargs.fget),
            ('VirtualHost', _cpdispatch.VirtualHost),
            ('XMLRPCDispatcher', _cpdispatch.XMLRPCDispatcher),
            ('xmlrpcutil.patched_path', xmlrpcutil.patched_path),
            ('expose', _helper.expose),
            ('popargs', _helper.popargs),
            ('Tree.script_name', _cptree.Tree.script_name),
            ('Tree.__call__', _cptree.Tree.__call__),
            ('Request.get_resource', _cprequest.Request.get_resource),
        ]
        out = {}

        def add(label, code):
            out[code] = label
            for c in code.co_consts:
                if hasattr(c, 'co_code'):
                    add(label + '.' + c.co_name, c)
        for label, f in fns:
            code = getattr(f, '__code__', None)
            if code is not None:
                add(label, code)
        return out

    def start(self):
        import sys
        mon = getattr(sys, 'monitoring', None)
        if mon is None or self.on:
            return
        try:
            self.codes = self.anchored()
            if mon.get_tool(self.TOOL) is None:
                mon.use_tool_id(self.TOOL, 'verif-c02-lines')
            hit = self.hit

            def on_line(code, line):
                hit.add((code.co_filename, line))
                return mon.DISABLE
            mon.register_callback(self.TOOL, mon.events.LINE, on_line)
            for code in self.codes:
                mon.set_local_events(self.TOOL, code, mon.events.LINE)
            self.on = True
        except Exception:
            self.on = False

    def stop(self):
        import sys
        mon = getattr(sys, 'monitoring', None)
        if mon is None or not self.on:
            return
        try:
            for code in self.codes:
                mon.set_local_events(self.TOOL, code, 0)
            mon.register_callback(self.TOOL, mon.events.LINE, None)
            mon.free_tool_id(self.TOOL)
        except Exception:
            pass
        self.on = False

    def report(self):
        """{label: ["<line>: <source>", …]} for the lines that never ran, and the totals."""
        import linecache
        missing, total, ran = {}, 0, 0
        for code, label in self.codes.items():
            lines = sorted({l for _, _, l in code.co_lines() if l is not None and l != code.co_firstlineno})
            nested = set()
            for c in code.co_consts:
                if hasattr(c, 'co_code'):
                    nested.update(l for _, _, l in c.co_lines() if l is not None and l != c.co_firstlineno)
            for l in lines:
                if l in nested:
                    continue
                total += 1
                if (code.co_filename, l) in self.hit:
                    ran += 1
                else:
                    missing.setdefault(label, []).append('%d: %s' % (l, linecache.getline(code.co_filename, l).strip()))
        return missing, total, ran


COV = Coverage()


def enum_small():
    """Exhaustive small scope: a chain root -a-> n1 -b-> n2 where every node independently has
    exposed in {no, yes}, index in {absent, unexposed, exposed}, default in {absent, unexposed, exposed},
    callable in {no, yes} (n1, n2 only) x 18 paths walking into / falling off the chain."""
    import itertools
    shapes = list(itertools.product([None, True], [0, 1, 2], [0, 1, 2], [False, True]))
    # every way of walking into / falling off the chain (other names behave like 'zz' at that position)
    paths = ['/', '/a', '/a/', '/a/b', '/a/b/', '/a/b/zz', '/a/b/zz/zz', '/a/b/index', '/a/zz', '/a/zz/b', '/a/a',
             '/a/default', '/zz', '/zz/a/b', '/b', '/index', '/a/index/zz', '/a/b/default/zz/']

    def node(shape, kid):
        exp, idx, dfl, call = shape
        nd = {'exp': exp, 'call': {} if call else None, 'falsy': False, 'meth': [], 'vals': [],
              'kids': [], 'disp': None, 'conf': None}
        if idx:
            nd['meth'].append(['index', {'exp': True if idx == 2 else None}])
        if dfl:
            nd['meth'].append(['default', {'exp': True if dfl == 2 else None}])
        if kid is not None:
            nd['kids'].append(kid)
        return nd
    for s0 in shapes:
        if s0[3]:
            continue
        for s1 in shapes:
            for s2 in shapes:
                spec = {'nodes': [node(s0, ['a', 1]), node(s1, ['b', 2]), node(s2, None)]}
                yield spec, 'D', [(p, 'GET') for p in paths], False


def enum_disp():
    """Exhaustive small scope for `_cp_dispatch`: every generated dispatcher form on the root (and the same form on
    the child) x every child shape x paths that hit / miss attributes before, at and after the dispatcher."""
    import itertools
    disps = [{'t': 'popargs_cls', 'n': n} for n in (0, 1, 2, 3)]
    for n in (0, 1, 2, 3):
        for h in (None, ['obj', 2], ['fn', 1], ['fn', None]):
            disps.append({'t': 'popargs_attr', 'n': n, 'h': h})
    for pop in (0, 1, 2, 3):
        for ret in ('self', 'peek', 'popget', ['fixed', 1], ['fixed', None]):
            for add in ([], ['a']):
                if pop == 3 and add:
                    continue
                disps.append({'t': 'custom', 'pop': pop, 'add': add, 'ret': ret})
    for mut in ('popback', 'lower', 'reverse', 'clear', 'rename0', 'rename1'):
        for ret in ('self', ['fixed', 1]):
            disps.append({'t': 'custom', 'pop': 1, 'add': [], 'ret': ret, 'mut': mut})
    disps.append({'t': 'custom', 'pop': 1, 'add': [], 'ret': ['fixed', 1], 'exp': True})
    disps.append({'t': 'value', 'v': 'text'})
    shapes = list(itertools.product([None, True], [0, 2], [0, 1, 2], [False, True]))
    paths = ['/', '/a', '/a/', '/zz', '/zz/', '/zz/a', '/zz/b', '/zz/zz', '/zz/zz/b', '/a/zz', '/a/zz/b', '/zz/a/b/',
             '/zz/zz/zz/zz', '/b', '/zz/index', '/zz/default/x', '/zz/zz/zz/b', '/zz/Zz/zz/zz/x%2Fy/', '/zz/zz/zz/zz/a/b']

    def node(shape, kids, disp=None, nocall=False):
        exp, idx, dfl, call = shape
        nd = {'exp': exp, 'call': {} if (call and not nocall) else None, 'falsy': False, 'meth': [], 'vals': [],
              'kids': kids, 'disp': disp, 'conf': None}
        if idx:
            nd['meth'].append(['index', {'exp': True if idx == 2 else None}])
        if dfl:
            nd['meth'].append(['default', {'exp': True if dfl == 2 else None}])
        return nd
    plain = (None, 2, 0, False)
    for d in disps:
        for s1 in shapes:
            for child_disp in (False, True):
                spec = {'nodes': [node(plain, [['a', 1]], d),
                                  node(s1, [['b', 2]], d if child_disp and d['t'] != 'popargs_cls' else None),
                                  node((None, 2, 2, False), [], None, nocall=True)]}
                yield spec, 'D', [(p, 'GET') for p in paths], False


def _worker_enum_disp(args):
    lo, hi = args
    sub = common.Ctx(__import__('harness.c02', fromlist=['x']), 'thorough', 0)
    sub.lean = _WORKER_LEAN[0]
    import itertools
    check_batch(sub, list(itertools.islice(enum_disp(), lo, hi)))
    return _export(sub)


def corpus_cases():
    d = os.path.join(common.CORPUS, PROPERTY)
    out = []
    if os.path.isdir(d):
        for f in sorted(os.listdir(d)):
            if f.endswith('.json'):
                out.append(json.load(open(os.path.join(d, f))))
    return out


def _case_batch(c):
    return (c['tree'], c['kind'], [_case_req(c)], True, not c.get('plain'), c.get('front'))


def check_case(ctx, c):
    """One stored case (corpus / replay), with its history when it has one."""
    if 'mounts' in c:
        check_mounts(ctx, [c])
        return
    if 'conc' in c:
        check_conc(ctx, [c])
        return
    if c.get('history'):
        for what, sig in case_messages(c):
            ctx.oracle_fail(c, what, sig)
        ctx.case(c, key=json.dumps(c, sort_keys=True))
        ctx.count('case_with_history')
        return
    check_batch(ctx, [_case_batch(c)])


def _worker(args):
    """Thorough tier: one forked worker explores a slice and returns its findings."""
    seed, n_trees, tier = args
    import random
    sub = common.Ctx(__import__('harness.c02', fromlist=['x']), tier, seed)
    sub.rng = random.Random(seed)
    sub.lean = _WORKER_LEAN[0]
    check_batch(sub, gen_batch(sub.rng, n_trees))
    check_batch(sub, gen_batch_levels(sub.rng, n_trees // 3))
    check_batch(sub, gen_batch_shared(sub.rng, n_trees // 8))
    return _export(sub)


def _worker_enum(args):
    lo, hi = args
    sub = common.Ctx(__import__('harness.c02', fromlist=['x']), 'thorough', 0)
    sub.lean = _WORKER_LEAN[0]
    import itertools
    check_batch(sub, list(itertools.islice(enum_small(), lo, hi)))
    return _export(sub)


_WORKER_LEAN = [None]


def _export(sub):
    return {'lines_hit': sorted(COV.hit), 'evaluations': sub.evaluations, 'nontrivial': list(sub._nontrivial), 'hist': sub.hist,
            'oracle_failures': sub.oracle_failures, 'disagreements': sub.disagreements,
            'compared': sub.disagreements_checked, 'lines': sub.driver.lines if sub.driver else 0,
            'samples': sub.samples[:2]}


def _merge(ctx, res):
    COV.hit.update(tuple(x) for x in res.get('lines_hit', []))
    ctx.evaluations += res['evaluations']
    ctx._nontrivial.update(res['nontrivial'])
    for k, v in res['hist'].items():
        ctx.count(k, v)
    for c, w, s in res['oracle_failures']:
        ctx.oracle_fail(c, w, s)
    for c, i, m, w in res['disagreements']:
        ctx.disagree(c, i, m, w)
    ctx.compared(res['compared'])
    if ctx.driver:
        ctx.driver.lines += res['lines']
    for s in res['samples']:
        if len(ctx.samples) < 12:
            ctx.samples.append(s)


def run(ctx):
    COV.start()
    try:
        _run(ctx)
    finally:
        missing, total, ran = COV.report() if COV.codes else ({}, 0, 0)
        COV.stop()
        if total:
            ctx.extra['anchored_lines_not_executed'] = missing
            ctx.extra['anchored_lines'] = {'total': total, 'executed': ran}


def _run(ctx):
    # the popargs probe behind Gen/C02Popargs.lean (theorem C02_popargs_probe) ran in tables(), before the line
    # monitor was on: run it under the monitor too, so that its lines count as executed by the check
    try:
        popargs_probe_table(T.cp())
    except Exception:
        pass
    for c in corpus_cases():
        check_case(ctx, c)
        ctx.count('corpus')
    if ctx.quick():
        check_batch(ctx, gen_batch(ctx.rng, 900))
        check_batch(ctx, gen_batch_levels(ctx.rng, 320))
        check_batch(ctx, gen_batch_shared(ctx.rng, 100))
        check_mounts(ctx, [gen_mount_case(ctx.rng) for _ in range(60)])
        check_conc(ctx, gen_conc_cases(ctx.rng, 90))
        return
    check_mounts(ctx, [gen_mount_case(ctx.rng) for _ in range(1500)])
    check_conc(ctx, gen_conc_cases(ctx.rng, 1000))
    _WORKER_LEAN[0] = ctx.lean
    jobs = [(ctx.rng.randrange(1 << 30), 750, 'thorough') for _ in range(48)]
    for res in common.parallel_map(_worker, jobs):
        _merge(ctx, res)
    total = sum(1 for _ in enum_small())
    step = (total + 47) // 48
    for res in common.parallel_map(_worker_enum, [(lo, min(total, lo + step)) for lo in range(0, total, step)]):
        _merge(ctx, res)
    ctx.extra['exhaustive'] = True
    ctx.extra['exhaustive_small_scope_trees'] = total
    total_d = sum(1 for _ in enum_disp())
    step = (total_d + 31) // 32
    for res in common.parallel_map(_worker_enum_disp, [(lo, min(total_d, lo + step)) for lo in range(0, total_d, step)]):
        _merge(ctx, res)
    ctx.extra['exhaustive_dispatcher_trees'] = total_d


def search(ctx, around=None):
    """Deeper oracle-only hunt (called when the proof or the correspondence broke)."""
    if around is not None and 'tree' in around:
        spec, kind = around['tree'], around['kind']
        reqs = [_case_req(around)]
        for _ in range(60):
            reqs.append((gen_path(ctx.rng, spec), around['method']))
        for _ in range(60):
            reqs.append(_rich_req(ctx.rng, kind, gen_path_levels(ctx.rng, spec))[:1] + (around['method'],))
        check_batch(ctx, [(spec, kind, reqs, True, True)], compare_model=False)
        if ctx.oracle_failures:
            return
    if around is not None and 'conc' in around:
        check_conc(ctx, [around])
        if ctx.oracle_failures:
            return
    # trees full of dispatchers, judged through what the recording wrappers saw
    check_batch(ctx, gen_batch_levels(ctx.rng, 300), compare_model=False)
    if ctx.oracle_failures:
        return
    check_batch(ctx, gen_batch_shared(ctx.rng, 150), compare_model=False)
    if ctx.oracle_failures:
        return
    check_conc(ctx, gen_conc_cases(ctx.rng, 150))
    if ctx.oracle_failures:
        return
    # dispatcher-free trees get the full reference resolver
    batch = []
    for i in range(800):
        kind = 'M' if i % 4 == 3 else 'D'
        spec = gen_tree(ctx.rng, kind, with_disp=False)
        reqs = [(gen_path(ctx.rng, spec), ctx.rng.choice(REQ_METHODS) if kind == 'M' else 'GET') for _ in range(10)]
        batch.append((spec, kind, reqs, i % 3 == 0))
    check_batch(ctx, batch, compare_model=False)


def replay(ctx, case):
    if 'conc' in case:
        msgs, runs = conc_case_messages(case)
        if runs:
            for (r, k), s0, o in zip(case['conc'], runs[0], runs[1]):
                print('request:', r, 'park at gate event', k, '(%s)' % case.get('order', 'lifo'))
                print('  alone     :', json.dumps(strip_obs(s0)))
                print('  in flight :', json.dumps(strip_obs(o)) if o else None, 'parked at', o and o.get('parked'))
        print('oracle :', msgs or 'holds')
        check_conc(ctx, [case])
        return
    if 'mounts' in case:
        keys, obs = run_mounts(case)
        print('mounted:', keys)
        for o in obs:
            print('impl   :', json.dumps(o))
        check_mounts(ctx, [case])
        return
    spec, kind = case['tree'], case['kind']
    try:
        built, view, obs, lines, again = run_tree(spec, kind, [_case_req(case)], True, not case.get('plain'),
                                                  case.get('front'))
    except BuildRaised as e:
        print('setting up the tree raised:', e)
        check_case(ctx, case)
        return
    print('request:', case['method'], case['path'], '(dispatcher %s)' % kind,
          'query=%r body=%r' % (case.get('query'), case.get('body')))
    print('impl   :', json.dumps(strip_obs(obs[0])))
    m = ctx.model(lines) if not (has_mut(spec) or spec.get('dispatch_name')) else None
    if m:
        print('model  :', m[0], '->', json.dumps(model_expectation(m[0], view, kind)))
    if obs[0].get('fline') and not spec.get('dispatch_name'):
        m = ctx.model([obs[0]['fline']])
        if m:
            print('model/F:', m[0], '->', json.dumps(model_expectation(m[0], view, kind)))
    print('oracle :', oracle(built, case, obs[0]) or 'holds')
    if case.get('history'):
        print('history:', case['history'])
    check_case(ctx, case)
