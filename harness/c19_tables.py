"""C19: tables regenerated from the live modules (cherrypy under test + the CPython it runs on).

Everything here is obtained by *executing* / introspecting live objects, never by parsing cherrypy
source text.  `lean/CpModel/Gen/C19Tables.lean` is rewritten only when the content changes.
"""
import hashlib
import inspect
import sys
import unicodedata

from . import common

# sha256 of inspect.getsource(parse_http_list) + inspect.getsource(parse_keqv_list) for the CPython the
# Lean transcription (CpModel.Auth.parseHttpList / parseKeqvList) was written against.
URLLIB_PARSERS_SHA = '7176975d971633aa18db190319808e48e2ac39dfd928c549219524803488174b'


def lean_str(s):
    return '[' + ', '.join(("'%s'" % c) if (c.isascii() and (c.isalnum() or c in '-_')) else 'Char.ofNat %d' % ord(c)
                           for c in s) + ']'


def _safe(f, default):
    """a value read off the live modules; anything unexpected there (attribute gone, other type) yields a value that
    makes the generated table differ from what the theorems need - a failed proof obligation, not a harness error"""
    try:
        return f()
    except Exception:
        return default


def _strs(v):
    v = list(v)
    if not all(isinstance(x, str) for x in v):
        raise TypeError
    return v


def gen():
    import urllib.request as u
    try:
        import cherrypy
        from cherrypy.lib import auth_digest, auth_basic  # noqa: F401
    except Exception:
        # the code under test cannot even be imported: run() reports that as a violation; keep the tables
        return {}

    src = inspect.getsource(u.parse_http_list) + inspect.getsource(u.parse_keqv_list)
    if hashlib.sha256(src.encode()).hexdigest() != URLLIB_PARSERS_SHA:
        raise common.HarnessError('urllib.request.parse_http_list/parse_keqv_list differ from the version the '
                                  'Lean model transcribes; review CpModel/Auth.lean and update URLLIB_PARSERS_SHA')
    spaces = [c for c in range(0x110000) if chr(c).isspace()]
    upper = [(c, chr(c).upper()) for c in range(128, 0x110000) if chr(c).upper().isascii()]
    lower = [(c, chr(c).lower()) for c in range(128, 0x110000) if chr(c).lower().isascii()]
    zeros = [c for c in range(128, 0x110000) if unicodedata.decimal(chr(c), None) == 0]
    nd = [c for c in range(128, 0x110000) if unicodedata.decimal(chr(c), None) is not None]
    if sorted(nd) != sorted(z + i for z in zeros for i in range(10)) or \
            any(unicodedata.decimal(chr(z + i)) != i for z in zeros for i in range(10)):
        raise common.HarnessError('Unicode decimal digits are no longer runs of ten: pyInt model needs review')
    # ASCII case mapping must be the plain +-32 one (sanity of the transcription)
    for c in range(128):
        ch = chr(c)
        want_u = chr(c - 32) if 'a' <= ch <= 'z' else ch
        want_l = chr(c + 32) if 'A' <= ch <= 'Z' else ch
        if ch.upper() != want_u or ch.lower() != want_l:
            raise common.HarnessError('ASCII case mapping surprise at %d' % c)
    tb = _safe(lambda: cherrypy.tools.auth_basic, None)
    td = _safe(lambda: cherrypy.tools.auth_digest, None)
    points = _safe(lambda: list(cherrypy._cprequest.hookpoints), ['before_handler'])

    def tool_point(t):
        p = getattr(t, '_point', None)
        if isinstance(p, str):
            return p
        cands = [v for v in vars(t).values() if isinstance(v, str) and v in points]      # renamed attribute
        return cands[0] if len(cands) == 1 else '?'

    def tool_priority(t):
        p = getattr(t, '_priority', None)
        if isinstance(p, int):
            return p
        cands = [v for v in vars(t).values() if isinstance(v, int) and not isinstance(v, bool)]
        return cands[0] if len(cands) == 1 else 0

    def tool_calls(t, f):
        return getattr(t, 'callable', None) is f or any(v is f for v in vars(t).values())
    stale_default = _safe(lambda: int(inspect.signature(auth_digest.HttpDigestAuthorization.is_nonce_stale).parameters[
        'max_age_seconds'].default), 0)
    # what www_authenticate puts into a challenge when called the way _respond_401 calls it: read off its result
    # (by execution), falling back to the signature defaults
    import re

    def chal_param(name):
        v = auth_digest.www_authenticate('r', 'k')
        m = re.search(r'\b%s="?([^",]*)"?' % name, v)
        return m.group(1)
    wa_alg = _safe(lambda: chal_param('algorithm'),
                   _safe(lambda: str(inspect.signature(auth_digest.www_authenticate).parameters['algorithm'].default), '?'))
    wa_qop = _safe(lambda: chal_param('qop'),
                   _safe(lambda: str(inspect.signature(auth_digest.www_authenticate).parameters['qop'].default), '?'))
    valid_qops = _safe(lambda: _strs(auth_digest.valid_qops), ['?'])
    valid_algorithms = _safe(lambda: _strs(auth_digest.valid_algorithms), ['?'])
    fallback = _safe(lambda: str(auth_digest.FALLBACK_CHARSET), '?')
    L = []
    L.append('/-! GENERATED by harness/c19_tables.py from the live modules - do not edit. -/')
    L.append('namespace CpModel.Gen.C19')
    L.append('')
    L.append('/-- code points with `str.isspace()` (what `str.strip()` and `int()` strip) -/')
    L.append('def pySpace : List Nat := %s' % spaces)
    L.append('/-- non-ASCII code points whose `str.upper()` is pure ASCII, with the expansion -/')
    L.append('def upperToAscii : List (Nat × List Char) := [%s]'
             % ', '.join('(%d, %s)' % (c, lean_str(s)) for c, s in upper))
    L.append('/-- non-ASCII code points whose `str.lower()` is pure ASCII, with the expansion -/')
    L.append('def lowerToAscii : List (Nat × List Char) := [%s]'
             % ', '.join('(%d, %s)' % (c, lean_str(s)) for c, s in lower))
    L.append('/-- zero digits of the non-ASCII Unicode decimal-digit runs (each run is ten consecutive code points) -/')
    L.append('def decimalZeros : List Nat := %s' % zeros)
    L.append('/-- sys.get_int_max_str_digits() -/')
    L.append('def maxStrDigits : Nat := %d' % sys.get_int_max_str_digits())
    L.append('/-- auth_digest.valid_qops -/')
    L.append('def validQops : List (List Char) := [%s]' % ', '.join(lean_str(q) for q in valid_qops))
    L.append('/-- auth_digest.valid_algorithms -/')
    L.append('def validAlgorithms : List (List Char) := [%s]'
             % ', '.join(lean_str(a) for a in valid_algorithms))
    L.append('/-- auth_digest.FALLBACK_CHARSET -/')
    L.append('def fallbackCharset : List Char := %s' % lean_str(fallback))
    L.append('/-- defaults of www_authenticate(algorithm=, qop=) as used by _respond_401 -/')
    L.append('def challengeAlgorithm : List Char := %s' % lean_str(wa_alg))
    L.append('def challengeQop : List Char := %s' % lean_str(wa_qop))
    L.append('/-- default of is_nonce_stale(max_age_seconds=) -/')
    L.append('def maxAgeDefault : Nat := %d' % stale_default)
    L.append('/-- (hook point, priority) of cherrypy.tools.auth_basic / auth_digest -/')
    L.append('def toolBasic : List Char × Nat := (%s, %d)' % (lean_str(_safe(lambda: tool_point(tb), '?')),
                                                              _safe(lambda: tool_priority(tb), 0)))
    L.append('def toolDigest : List Char × Nat := (%s, %d)' % (lean_str(_safe(lambda: tool_point(td), '?')),
                                                               _safe(lambda: tool_priority(td), 0)))
    L.append('/-- the tools call basic_auth / digest_auth of the anchored modules -/')
    L.append('def toolCallables : Bool × Bool := (%s, %s)' % (
        'true' if _safe(lambda: tool_calls(tb, auth_basic.basic_auth), False) else 'false',
        'true' if _safe(lambda: tool_calls(td, auth_digest.digest_auth), False) else 'false'))
    L.append('')
    L.append('end CpModel.Gen.C19')
    return {'CpModel/Gen/C19Tables.lean': '\n'.join(L) + '\n'}


if __name__ == '__main__':
    for k, v in gen().items():
        print(v)
