"""C08 - which lines of the anchored functions the run executes (`sys.monitoring` LINE events restricted to the
code objects of those functions; every location reports once and is then disabled).  The lines that never ran
end up in ctx.extra['anchored_lines_not_executed']."""
import importlib
import linecache
import os
import sys
import types

ANCHORED = [
    ('cherrypy._cpdispatch', ['Dispatcher.find_handler', 'Dispatcher.__call__', 'MethodDispatcher.__call__']),
    ('cherrypy._cptree', ['Application.find_config', 'Application.merge']),
    ('cherrypy.lib.reprconf', ['NamespaceSet.__call__', 'Config.update', 'Config._apply', 'Config.__setitem__',
                               'Parser.optionxform', 'Parser.read', 'Parser.as_dict', 'Parser.dict_from_file', 'Parser.load',
                               '_Builder', 'unrepr', 'modules', 'attributes']),
    ('cherrypy._cpconfig', ['merge', 'Config.update', 'Config._apply', 'Config.__call__', '_Vars.setdefault',
                            '_server_namespace_handler', '_engine_namespace_handler']),
    ('cherrypy._cptools', ['Tool._merged_args', 'Tool.__call__', 'Tool._setup', 'HandlerTool.handler', 'HandlerTool._wrapper',
                           'HandlerTool._setup', 'Toolbox.__enter__', 'Toolbox.__exit__']),
    ('cherrypy._cprequest', ['hooks_namespace', 'request_namespace', 'response_namespace', 'error_page_namespace']),
]

# why a line can stay unexecuted whatever the generator does
EXPLAINED = [
    ('reprconf.py', 'build_Index', 'ast.Index is gone since Python 3.9 (the parser never produces it)'),
    ('reprconf.py', 'build_Str', 'ast.Str is gone since Python 3.8/3.12 (strings are ast.Constant)'),
    ('reprconf.py', 'build_Num', 'ast.Num is gone since Python 3.8/3.12 (numbers are ast.Constant)'),
    ('reprconf.py', 'build_NoneType', 'only reached through a `{**x}` dict display (key None), outside the statement'),
    ('reprconf.py', 'build_Call', 'the pre-3.5 branch below `if sys.version_info >= (3, 5): return ...` is dead'),
    ('reprconf.py', 'astnode', '`except ImportError: return eval(s)`: the ast module always imports'),
    ('reprconf.py', '_build_call35', '`if o.args is not None` is always true on Python 3'),
    ('reprconf.py', 'build_Name', 'None / True / False are ast.Constant since Python 3.8, never ast.Name'),
    ('reprconf.py', 'NamespaceSet.__call__', '`if exit is None: raise` sits in the branch taken only when exit is truthy'),
]


def _funcs(obj):
    if isinstance(obj, (classmethod, staticmethod)):
        obj = obj.__func__
    if isinstance(obj, types.FunctionType):
        return [obj]
    if isinstance(obj, type):
        out = []
        for v in vars(obj).values():
            out += _funcs(v)
        return out
    f = getattr(obj, '__func__', None)
    if isinstance(f, types.FunctionType):
        return [f]
    return []


class Coverage(object):
    def __init__(self):
        self.codes = {}
        self.hit = set()
        self.tid = None
        self.missing_anchors = []
        for modname, names in ANCHORED:
            try:
                mod = importlib.import_module(modname)
            except Exception:
                self.missing_anchors.append(modname)
                continue
            for qn in names:
                obj = mod
                try:
                    for part in qn.split('.'):
                        obj = vars(obj)[part] if isinstance(obj, type) else getattr(obj, part)
                except (AttributeError, KeyError):
                    self.missing_anchors.append('%s.%s' % (modname, qn))
                    continue
                fs = _funcs(obj)
                if not fs:
                    self.missing_anchors.append('%s.%s' % (modname, qn))
                for f in fs:
                    self._code(f.__code__)

    def _code(self, code):
        if code in self.codes:
            return
        self.codes[code] = True
        for c in code.co_consts:
            if isinstance(c, types.CodeType):
                self._code(c)

    def executable(self):
        out = set()
        for code in self.codes:
            for _, _, line in code.co_lines():
                if line is not None and line != code.co_firstlineno:
                    out.add((code.co_filename, line, code.co_qualname))
        return out

    def _line(self, code, line):
        self.hit.add((code.co_filename, line))
        return sys.monitoring.DISABLE

    def start(self):
        mon = getattr(sys, 'monitoring', None)
        if mon is None:
            return False
        for tid in (4, 3, 5, 2):
            try:
                mon.use_tool_id(tid, 'c08-cov')
            except ValueError:
                continue
            self.tid = tid
            break
        if self.tid is None:
            return False
        mon.register_callback(self.tid, mon.events.LINE, self._line)
        for code in self.codes:
            mon.set_local_events(self.tid, code, mon.events.LINE)
        return True

    def stop(self):
        if self.tid is None:
            return
        mon = sys.monitoring
        try:
            for code in self.codes:
                mon.set_local_events(self.tid, code, 0)
            mon.register_callback(self.tid, mon.events.LINE, None)
            mon.free_tool_id(self.tid)
        except ValueError:
            pass
        self.tid = None

    def hits(self):
        return sorted(self.hit)

    def add_hits(self, hits):
        for f, l in hits:
            self.hit.add((f, l))

    def report(self, ctx):
        ex = self.executable()
        missed = sorted((f, l, q) for f, l, q in ex if (f, l) not in self.hit)
        lines, unexplained = [], 0
        for f, l, q in missed:
            src = linecache.getline(f, l).strip()
            rel = f.split(os.sep + 'cherrypy' + os.sep, 1)[-1]
            why = ''
            for fn, qpart, text in EXPLAINED:
                if rel.endswith(fn) and qpart in q:
                    why = '   [' + text + ']'
            if not why:
                unexplained += 1
            lines.append('%s:%d %s: %s%s' % (rel, l, q, src[:100], why))
        ctx.extra['anchored_lines_executable'] = len(ex)
        ctx.extra['anchored_lines_executed'] = len(ex) - len(missed)
        ctx.extra['anchored_lines_not_executed'] = lines
        ctx.extra['anchored_lines_not_executed_unexplained'] = unexplained
        if self.missing_anchors:
            ctx.extra['anchored_functions_not_found'] = self.missing_anchors
        ctx.count('anchored_lines_not_executed', len(lines))
        ctx.count('anchored_lines_executable', len(ex))


_current = {'cov': None}


def start():
    cov = Coverage()
    if cov.start():
        _current['cov'] = cov
    return cov


def stop():
    cov = _current['cov']
    if cov is not None:
        cov.stop()
    _current['cov'] = None
    return cov
