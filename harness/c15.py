"""C15 - cached responses are genuine, fresh and never cross Vary variants.

Model: lean/CpModel/Cache.lean (+ generated lean/CpModel/Gen/C15Tables.lean), theorems:
lean/CpProofs/C15.lean, driver: lean/Drv/C15.lean.

Real code: `cherrypy.Application` called in-process (WSGI) with `tools.caching.on`; the module globals
`cherrypy.lib.caching.time` and `cherrypy._cprequest.time` are replaced by one logical clock whose `sleep`
is a gate, so the real `expire_cache` thread makes exactly one pass per "S" op; a fresh `cherrypy._cache`
(created by the real `caching.get` from the tool config) per history.  Handler outputs carry a generation
number (body prefix, `X-Gen` header, status) so a wrong hit is observable.
"""
import io
import json
import os
import sys
import threading

from . import common
from . import c15_sched as S

PROPERTY = 'C15'
LEAN_TARGETS = ['CpProofs.C15', 'CpProofs.C15Conc', 'CpProofs.C15Hdr', 'drv_c15']
DRIVER = 'drv_c15'
THEOREMS = [
    'CpProofs.C15.C15_hit_genuine',
    'CpProofs.C15.C15_hit_genuine_selecting',
    'CpProofs.C15.C15_hit_genuine_full_false',
    'CpProofs.C15.C15_generation_unique',
    'CpProofs.C15.C15_fresh',
    'CpProofs.C15.C15_age_header',
    'CpProofs.C15.C15_no_store',
    'CpProofs.C15.C15_no_store_step',
    'CpProofs.C15.C15_complete_only',
    'CpProofs.C15.C15_complete_only_step',
    'CpProofs.C15.C15_invalidate',
    'CpProofs.C15.C15_invalidating_request_not_cached',
    'CpProofs.C15.C15_invalidate_methods',
    'CpProofs.C15.C15_get_head_not_invalidating',
    'CpProofs.C15.C15_pragma_no_cache',
    'CpProofs.C15.C15_cc_no_cache',
    'CpProofs.C15.C15_uriKey_collision',
    'CpProofs.C15.C15_uriKey_injective_partial',
    'CpProofs.C15.C15_uriKey_injective_escaped',
    'CpProofs.C15.C15_sweep_by_names_leaks',
    'CpProofs.C15.C15_sweep_by_names_undercounts',
    'CpProofs.C15.C15_size_bounds',
    'CpProofs.C15.C15_stored_objects',
    'CpProofs.C15.C15_object_count',
    # interleavings (CpModel.CacheConc): every schedule of any number of request threads and the expiry thread
    'CpProofs.C15Conc.C15_conc_hit_genuine',
    'CpProofs.C15Conc.C15_conc_hit_genuine_selecting',
    'CpProofs.C15Conc.C15_conc_fresh_age',
    'CpProofs.C15Conc.C15_conc_generation_unique',
    'CpProofs.C15Conc.C15_conc_no_half_stored',
    'CpProofs.C15Conc.C15_conc_stored_objects',
    'CpProofs.C15Conc.C15_conc_woken_gets_value',
    'CpProofs.C15Conc.C15_conc_woken_value_served',
    'CpProofs.C15Conc.C15_conc_waiter_produces_only_after_timeout',
    'CpProofs.C15Conc.C15_conc_cursize_upper',
    'CpProofs.C15Conc.C15_conc_sweep_never_adds',
    'CpProofs.C15Conc.C15_conc_deleted_stays_deleted',
    'CpProofs.C15Conc.C15_conc_two_producers_witness',
    'CpProofs.C15Conc.C15_conc_single_producer_full_false',
    'CpProofs.C15Conc.C15_conc_cursize_negative_witness',
    'CpProofs.C15Conc.C15_conc_orphan_bucket_witness',
    'CpProofs.C15Conc.C15_conc_invalidate_race_witness',
    'CpProofs.C15Conc.C15_conc_negative_age_witness',
    'CpProofs.C15Conc.C15_conc_timeout_overwrite_witness',
    # header layer (CpModel.CacheHdr): tokenisation of Cache-Control / Pragma / Vary, key folding, validate_since
    # on a hit, the expires tool
    'CpProofs.C15Hdr.C15_raw_cc_no_cache',
    'CpProofs.C15Hdr.C15_raw_pragma_no_cache',
    'CpProofs.C15Hdr.C15_raw_no_store',
    'CpProofs.C15Hdr.C15_raw_vary',
    'CpProofs.C15Hdr.C15_title_idempotent',
    'CpProofs.C15Hdr.C15_vary_name_folded',
    'CpProofs.C15Hdr.C15_vary_name_case',
    'CpProofs.C15Hdr.C15_vary_star_is_a_name',
    'CpProofs.C15Hdr.values_noquote',
    'CpProofs.C15Hdr.splitOnComma_join',
    'CpProofs.C15Hdr.splitOnComma_no_comma',
    'CpProofs.C15Hdr.strip_spec',
    'CpProofs.C15Hdr.C15_producer_found',
    'CpProofs.C15Hdr.C15_not_modified_justified',
    'CpProofs.C15Hdr.C15_precondition_failed_justified',
    'CpProofs.C15Hdr.C15_final_from_hit',
    'CpProofs.C15Hdr.C15_expires_zero_force',
    'CpProofs.C15Hdr.C15_expires_no_indicator',
    'CpProofs.C15Hdr.C15_expires_keeps_existing',
    'CpProofs.C15Hdr.C15_expires_prevents_store',
    'CpProofs.C15Hdr.C15_expires_zero_app',
]
LEVEL = 'proof'
TECHNIQUE = ('Lean 4 proof: store invariant by induction over all request histories of a transcription of '
             'MemoryCache + caching.get/tee_output (with header tokenisation, validate_since and the expires tool), and '
             'a heap invariant over all schedules of an interleaving model at shared-access granularity; both models '
             'tied to the real tool by differential runs (logical clock, gated expiry thread, deterministic scheduler '
             'over instrumented dict/Event proxies with per-step snapshot comparison)')
LEVEL_TEXT = ('Proved in Lean for every configuration and every history (any number of requests, clock advances and expiry '
              'sweeps) of the transcribed MemoryCache + caching.get/tee_output/_wrapper: a response served from the cache '
              'is the output of an earlier handler run (unique generation number) that ran to completion, for the same '
              'store key, agrees with it on every selecting header, is no older in whole seconds than min(delay, request '
              'max-age), carries Age = elapsed whole seconds, was storable (no request/response no-store, no Pragma: '
              'no-cache, non-empty, below maxobj_size); POST/PUT/DELETE (live table) and Pragma/Cache-Control: no-cache '
              'reach the handler and the next request for the URI misses; cursize accounting bounds. '
              'Header layer (all strings): RE_HEADER_SPLIT / parse_header / strip / key folding are transcribed; for '
              'quote-free header values the element values are exactly the comma pieces cut at ";" and stripped, so a '
              'no-cache / no-store element in any white-space / parameter / ordering arrangement has its effect, header '
              'names in Vary are case-insensitive; a 304 / 412 answered from the cache (validate_since) comes from a hit '
              'whose producer is found in the history, with If-Modified-Since equal to the stored Last-Modified on GET/HEAD; '
              'the expires tool (exhaustive differential over all header-presence combinations) and that its '
              'Pragma: no-cache keeps the response out of the cache. '
              'Interleavings (any number of request threads + the expiry thread, one dict/Event/list/cursize access per '
              'step, every schedule, timeouts at any point): every value a thread obtains from a slot or from an Event is a '
              'logged, storable handler output for its own resource and variant key (genuine, fresh, Age); an Event that '
              'is set carries its result (no half-stored variant); a waiter that wakes up is handed that value and becomes '
              'the producer only after a timeout; cursize < maxsize (or <= 0) always; the sweep only removes slots. '
              'Proved FALSE with witness schedules replayed on the real threads: at most one producer per slot without a '
              'timeout (two threads read the empty slot before either writes its Event), 0 <= cursize (lost update), '
              'every stored response is eventually swept (put racing the sweep appends to an orphaned bucket), a POST '
              'stops an in-flight miss from being stored, Age >= 0. '
              'Partial: agreement on every header of the response\'s own Vary needs the hypothesis that a URI keeps its '
              'Vary list (full statement proved false, F16b); the store key path+?+query is injective only for paths '
              'without "?" (collision proved, C15-N1; the repaired key is proved injective and the model follows the '
              'live module through a probed flag); header values containing double quotes are covered by the '
              'correspondence run only; non-ASCII header names, RFC 2047 encoded words and normalize_path are parameters.')
LEVEL_NOTE = ('Trusted: Lean kernel (axioms propext, Classical.choice, Quot.sound only); the hand models '
              'lean/CpModel/Cache.lean, CacheHdr.lean, CacheConc.lean as validated on every run: sequential histories with '
              'raw header strings against the real tool (in-process WSGI, logical clock substituted for '
              'caching.time/_cprequest.time, real expire_cache thread driven one pass at a time), every header-layer '
              'function against the live function, interleaving scenarios with real threads whose every shared-state '
              'access (instrumented dict / Event / list / cursize proxies, not source lines) is one scheduler step, the '
              'whole shared state compared with the model after every step; the two cache models are cross-checked '
              'against each other on every sequential history.')
TRUSTED_BASE = [
    'the instrumented proxies of harness/c15_sched.py (a re-hosted copy of the live AntiStampedeCache on a hooked dict '
    'base, SharedDict/SharedList/SharedEvent, the cursize property) intercept every access the code under test makes '
    'to its shared objects; CPython executes one such access atomically (GIL)',
    'header names are ASCII; request header values carry no RFC 2047 encoded word; cherrypy.url path normalisation '
    'and trailing-slash adaptation are not modelled (the generator uses normalised paths)',
    'the expiry thread is driven through the fake time module (one pass per sweep op, or one access per step)',
]
ASSUMPTIONS = [
    'the clock is monotone; a request\'s response.time is taken when it begins',
    'tools.caching.antistampede_timeout = None in the sequential differential stream; in interleaving scenarios an '
    'Event.wait returns when the event is set or when the schedule lets the timeout elapse',
    'the process-wide cache object exists before requests run concurrently (created by a first request)',
]
RULE = ('(1) random request histories (3..60 ops) over 1-4 URLs (incl. decoded paths containing ? and %) x query strings '
        'x {GET,HEAD,POST,PUT,DELETE,PATCH,OPTIONS} x handler outcomes (bytes / chunk generator buffered or streamed, '
        'raising at chunk 0-2, exception or HTTPError before any body, client abandoning a stream, encode tool on/off, '
        'expires tool on/off) x 0-3 Vary headers with values permuted across headers x Cache-Control / Pragma / Vary '
        'in their wire spellings (white space of every kind, empty elements, parameters, quoted strings with commas, '
        'case variants, duplicates) x Last-Modified / If-Modified-Since / If-Unmodified-Since x clock steps placed on '
        'the delay / max-age boundaries (quarter seconds) x expiry sweeps x size limits; (2) interleaving scenarios: '
        '2-4 real request threads + the real expiry thread, schedules from targeted plans (stampede on one slot, two '
        'threads parked at chosen accesses, sequential prefix + clock at the expiry boundary) continued by a sticky '
        'random walk incl. timeouts, plus the witness schedules of the Lean theorems; (3) header-layer functions on '
        'generated strings, the expires tool exhaustively; non-trivial = a response came from the cache / a thread '
        'waited; distinct = distinct driver line')

TPS = 4            # clock ticks per second (must match CpModel.Cache.tps)
T0 = 1000000.0     # logical epoch
HDRS = ['X-A', 'X-B', 'X-C']
INVALIDATING = ('POST', 'PUT', 'DELETE')     # from the STATEMENT (the oracle's copy)


# ----------------------------------------------------------------------------------------------
# real-code runner
# ----------------------------------------------------------------------------------------------
class ExpiryThreadDied(Exception):
    pass


class ExpiryThreadStuck(Exception):
    pass


class RequestHung(BaseException):
    """Raised by the watchdog inside a request of the code under test that does not come back."""


class _FakeTime:
    """Stands in for the `time` module inside caching.py and _cprequest.py."""

    def __init__(self):
        import time as _real
        self._real = _real
        self.now = T0
        self.cv = threading.Condition()
        self.parks = {}          # thread -> number of times it reached sleep()
        self.go = {}             # thread -> pending permissions
        self.retired = set()

    def __getattr__(self, name):
        return getattr(self._real, name)

    def __bool__(self):
        return True

    def time(self):
        return self.now

    def sleep(self, secs):
        me = threading.current_thread()
        w = S.world()
        if w is not None and w.sched.active and me not in self.retired:
            # interleaving scenario: the expiry thread is the managed thread 'X', parked in its sleep()
            if w.sched.park_expiry() and w.sched.active:
                return
        with self.cv:
            if me in self.retired:
                raise SystemExit
            self.parks[me] = self.parks.get(me, 0) + 1
            self.cv.notify_all()
            while self.go.get(me, 0) == 0 and me not in self.retired:
                self.cv.wait()
            if me in self.retired:
                raise SystemExit
            self.go[me] -= 1

    def wait_parked(self, t, more_than=0):
        with self.cv:
            for _ in range(200):
                if self.cv.wait_for(lambda: self.parks.get(t, 0) > more_than, timeout=0.1):
                    return self.parks[t]
                if not t.is_alive():
                    raise ExpiryThreadDied()      # the code under test ended its own thread: an observation
            raise ExpiryThreadStuck()

    def one_pass(self, t):
        """Let thread t run exactly one iteration of its loop (from sleep() back to sleep())."""
        n = self.wait_parked(t)
        with self.cv:
            self.go[t] = self.go.get(t, 0) + 1
            self.cv.notify_all()
        self.wait_parked(t, more_than=n)

    def retire(self, t):
        with self.cv:
            self.retired.add(t)
            self.cv.notify_all()
        t.join(20)
        if t.is_alive():
            # a pass of the code under test that never returns to sleep(): leave the daemon thread behind
            self.retired.discard(t)
            return
        with self.cv:
            self.retired.discard(t)
            self.parks.pop(t, None)
            self.go.pop(t, None)


class _Env:
    inst = None

    def __init__(self):
        import cherrypy
        from cherrypy.lib import caching
        import cherrypy._cprequest as cpreq
        self.cherrypy = cherrypy
        self.caching = caching
        cherrypy.config.update({'environment': 'test_suite', 'log.screen': False})
        self.clock = _FakeTime()
        caching.time = self.clock
        cpreq.time = self.clock
        self.cur = {}
        self.tls = threading.local()
        self._errsize = {}
        env = self

        class Root:
            @cherrypy.expose
            def default(self, *args, **kwargs):
                w = S.world()
                if w is not None:
                    w.sched.yield_point(('handler', None))
                cur = env.cur
                cur['gen'] += 1
                g = cur['gen']
                plan = env.tls.plan
                resp = cherrypy.serving.response
                h = resp.headers
                vary, rcc, rpr, lm = plan_resp_headers(plan)
                if vary:
                    h['Vary'] = vary
                h['X-Gen'] = str(g)
                if rcc:
                    h['Cache-Control'] = rcc
                if rpr:
                    h['Pragma'] = rpr
                if lm:
                    h['Last-Modified'] = lm
                if plan.get('etag'):
                    h['ETag'] = '"g%d"' % g
                if plan.get('exp'):
                    h['Expires'] = 'Thu, 01 Jan 2026 00:00:00 GMT'
                req = cherrypy.serving.request
                size = plan['size']
                body = (b'g%d;' % g).ljust(size, b'.') if size else b''
                env.tls.prod = {'gen': g, 'hdrs': {k.lower(): v for k, v in req.headers.items()}, 'body': body,
                                'time': resp.time}
                mode = plan.get('mode', 'plain')
                if mode == 'exc':
                    raise ValueError('handler failed')
                if mode == 'http':
                    raise cherrypy.HTTPError(plan['hstatus'], 'handler says no')
                resp.status = 200 + g % 3
                if plan.get('stream'):
                    resp.stream = True
                if mode == 'gen':
                    third = max(1, (size + 2) // 3)
                    chunks = [body[i:i + third] for i in range(0, size, third)]
                    fail_at = plan.get('fail_at')

                    def it():
                        for i, c in enumerate(chunks):
                            if fail_at is not None and i >= fail_at:
                                raise ValueError('body iterator failed at chunk %d' % i)
                            yield c
                        if fail_at is not None:
                            raise ValueError('body iterator failed at its end')
                    return it()
                return body

        self.root = Root()

        def end_hook():
            r = cherrypy.serving.request
            env.tls.flags = (getattr(r, 'cached', None), getattr(r, 'cacheable', None))
            env.tls.rtime = getattr(cherrypy.serving.response, 'time', None)
        self.end_hook = end_hook

    @classmethod
    def get(cls):
        if cls.inst is None:
            cls.inst = _Env()
        return cls.inst

    def new_app(self, cfg):
        conf = {'/': {'tools.caching.on': True,
                      'tools.caching.delay': cfg['delay'],
                      'tools.caching.maxobjects': cfg['maxobjects'],
                      'tools.caching.maxobj_size': cfg['maxobj_size'],
                      'tools.caching.maxsize': cfg['maxsize'],
                      'tools.caching.antistampede_timeout': cfg.get('timeout'),
                      'tools.encode.on': bool(cfg.get('encode')),
                      'request.show_tracebacks': False,
                      'hooks.on_end_resource': self.end_hook}}
        if cfg.get('debug'):
            conf['/']['tools.caching.debug'] = True       # the log lines of the anchored functions run too
        if cfg.get('expires') is not None:
            conf['/'].update({'tools.expires.on': True, 'tools.expires.secs': cfg['expires']['secs'],
                              'tools.expires.force': bool(cfg['expires']['force']),
                              'tools.expires.debug': bool(cfg.get('debug'))})
        if cfg.get('cache_class') is not None:
            conf['/']['tools.caching.cache_class'] = cfg['cache_class']
        return self.cherrypy.Application(self.root, '', conf)

    def drop_cache(self):
        cp = self.cherrypy
        c = getattr(cp, '_cache', None)
        if c is not None:
            del cp._cache
            self.clock.retire(c.expiration_thread)

    def call(self, app, method, path, qs, headers, abandon=None):
        environ = {'REQUEST_METHOD': method, 'PATH_INFO': path, 'QUERY_STRING': qs, 'SCRIPT_NAME': '',
                   'SERVER_NAME': 'h', 'SERVER_PORT': '80', 'SERVER_PROTOCOL': getattr(self.tls, 'proto', 'HTTP/1.1'),
                   'HTTP_HOST': 'h',
                   'wsgi.version': (1, 0), 'wsgi.url_scheme': 'http', 'wsgi.input': io.BytesIO(b''),
                   'wsgi.errors': sys.stderr, 'wsgi.multithread': False, 'wsgi.multiprocess': False,
                   'wsgi.run_once': False}
        if method in ('POST', 'PUT', 'PATCH'):
            environ['CONTENT_LENGTH'] = '0'
        for k, v in headers.items():
            environ['HTTP_' + k.upper().replace('-', '_')] = v
        out = {}

        def start_response(status, hs, exc_info=None):
            out['status'] = status
            out['headers'] = list(hs)
        try:
            it = app(environ, start_response)
        except RequestHung:
            raise
        except Exception as e:           # the WSGI callable itself raised: no response at all
            return 599, [('X-Exception', type(e).__name__)], b'', True, False
        if 'status' not in out:
            out['status'], out['headers'] = '598 start_response never called', []
        chunks, aborted, abandoned = [], False, False
        try:
            limit = abandon if (abandon is not None and self.tls.prod is not None) else None
            itr = iter(it)
            while True:
                if limit is not None and len(chunks) >= limit:
                    abandoned = True
                    break
                try:
                    chunks.append(next(itr))
                except StopIteration:
                    break
        except Exception:
            aborted = True          # the stream broke after the status line was sent
        finally:
            if hasattr(it, 'close'):
                try:
                    it.close()
                except Exception:
                    aborted = True
        return int(out['status'].split()[0]), out['headers'], b''.join(chunks), aborted, abandoned

    def error_page_size(self, status):
        """len() of the HTTPError page the probe handler raises (a parameter of the model)."""
        if status not in self._errsize:
            saved_plan, saved_prod = getattr(self.tls, 'plan', None), getattr(self.tls, 'prod', None)
            saved_gen = self.cur.get('gen', 0)
            self.cur.setdefault('gen', 0)
            self.tls.plan = {'vary': [], 'size': 12, 'ns': False, 'pnc': False, 'mode': 'http', 'hstatus': status}
            app = self.cherrypy.Application(self.root, '', {'/': {'request.show_tracebacks': False}})
            st, hs, body, _, _ = self.call(app, 'GET', '/errsize', '', {})
            self.tls.plan, self.tls.prod = saved_plan, saved_prod
            self.cur['gen'] = saved_gen
            if st != status:
                raise common.HarnessError('error page probe answered %s for %s' % (st, status))
            self._errsize[status] = len(body)
        return self._errsize[status]


def _raw(x):
    """A header value of an op: None = absent, a list = its elements joined the usual way, a str = as it is."""
    if x is None:
        return ''
    if isinstance(x, (list, tuple)):
        return ', '.join(x)
    return x


def req_headers(op):
    """The HTTP request headers of an R op (all of them, names as sent)."""
    _, method, path, qs, hdrs, pragma, cc, plan = op
    h = dict(hdrs)
    if _raw(pragma):
        h['Pragma'] = _raw(pragma)
    if _raw(cc):
        h['Cache-Control'] = _raw(cc)
    return h


def plan_resp_headers(plan):
    """Raw values of the response headers the probe handler sets: Vary, Cache-Control, Pragma, Last-Modified
    ('' = header not set)."""
    vary = plan.get('vary_raw')
    if vary is None:
        vary = ', '.join(plan['vary'])
    rcc = plan.get('rcc_raw')
    if rcc is None:
        rcc = 'no-store' if plan['ns'] else ''
    rpr = plan.get('rpragma_raw')
    if rpr is None:
        rpr = 'no-cache' if plan['pnc'] else ''
    return vary, rcc, rpr, plan.get('lastmod') or ''


def otokens(raw):
    """The oracle's reading of a comma-separated header value, from HTTP's list syntax: elements separated by
    commas outside quoted strings, optional SP / HTAB around them.  None when the value is not well-formed for
    that purpose (unbalanced quotes, backslashes): then the statement demands nothing of it."""
    if not raw:
        return []
    if raw.count('"') % 2 or '\\' in raw:
        return None
    out, cur, inq = [], '', False
    for ch in raw:
        if ch == '"':
            inq = not inq
            cur += ch
        elif ch == ',' and not inq:
            out.append(cur.strip(' \t'))
            cur = ''
        else:
            cur += ch
    out.append(cur.strip(' \t'))
    return out


def do_request(env, app, op, prods):
    """One request on the calling thread; returns its observation and records a handler production."""
    _, method, path, qs, hdrs, pragma, cc, plan = op
    env.tls.plan = plan
    env.tls.prod = None
    env.tls.flags = None
    env.tls.rtime = None
    status, hs, body, aborted, abandoned = env.call(app, method, path, qs, req_headers(op),
                                                    abandon=plan.get('abandon'))
    hd = {}
    for k, v in hs:
        hd.setdefault(k, v)
    flags = env.tls.flags
    o = {'method': method, 'url': [path, qs], 'status': status, 'headers': [list(x) for x in hs],
         'body': body.decode('latin-1'), 'xgen': hd.get('X-Gen'), 'age': hd.get('Age'),
         'flags': list(flags) if flags else None, 'time': env.clock.now, 'rtime': env.tls.rtime,
         'handler_gen': None,
         'aborted': aborted, 'abandoned': abandoned}
    p = env.tls.prod
    if p is not None:
        o['handler_gen'] = p['gen']
        # what the client of this request actually received (HEAD: no body on the wire; the body a GET would
        # have carried is the handler's, when the handler's own response was the one delivered)
        if method == 'HEAD':
            pbody = p['body'].decode('latin-1') if status == 200 + p['gen'] % 3 else None
        else:
            pbody = o['body']
        # the header values of the producing request as they were SENT (not as cherrypy read them)
        sent = {k.lower(): v.strip(' \t') for k, v in req_headers(op).items()}
        prods[p['gen']] = {'gen': p['gen'], 'url': [path, qs], 'hdrs': sent, 'time': p['time'],
                           'status': status, 'headers': o['headers'], 'body': pbody,
                           'complete': not aborted and not abandoned,
                           'vary': [v for v in (otokens(hd.get('Vary', '')) or []) if v],
                           'lastmod': hd.get('Last-Modified'),
                           'req_no_store': 'no-store' in (otokens(_raw(cc)) or []),
                           'resp_no_store': 'no-store' in (otokens(hd.get('Cache-Control', '')) or [])}
    return o


def run_history(case):
    """Execute one history on the real tool.  Returns {'obs': [per-op], 'prods': {gen: ...}, 'final': ...}."""
    env = _Env.get()
    cp = env.cherrypy
    env.drop_cache()
    env.clock.now = T0
    env.cur = {'gen': 0, 'plan': None}
    app = env.new_app(case['cfg'])
    env.tls.proto = 'HTTP/1.0' if (case['cfg'].get('expires') or {}).get('http10') else 'HTTP/1.1'
    obs, prods = [], {}
    expiry = 'ok'
    try:
        for op in case['ops']:
            if op[0] == 'T':
                env.clock.now += op[1] / TPS
                obs.append(None)
            elif op[0] == 'S':
                c = getattr(cp, '_cache', None)
                if c is not None and expiry == 'ok':
                    try:
                        env.clock.one_pass(getattr(c, 'expiration_thread', None))
                    except ExpiryThreadDied:
                        expiry = 'dead'
                    except (ExpiryThreadStuck, AttributeError, TypeError):
                        expiry = 'stuck'
                obs.append(None)
            else:
                o = do_request(env, app, op, prods)
                c = getattr(cp, '_cache', None)
                if c is not None and expiry == 'ok':
                    # the thread's first pass (started inside this request) must be over before the clock moves
                    try:
                        env.clock.wait_parked(getattr(c, 'expiration_thread', None))
                    except ExpiryThreadDied:
                        expiry = 'dead'
                    except (ExpiryThreadStuck, AttributeError, TypeError):
                        expiry = 'stuck'
                obs.append(o)
        c = getattr(cp, '_cache', None)
        final = None
        if c is not None:
            try:
                vals = sum(1 for uc in c.store.values() for v in uc.values() if isinstance(v, tuple))
                final = {'cur': c.cursize, 'vals': vals, 'uris': len(c.store)}
            except Exception as e:       # the cache object no longer has the shape the property is anchored in
                final = {'cur': -1, 'vals': -1, 'uris': -1, 'note': type(e).__name__}
            if expiry != 'ok':
                final['expiry'] = expiry
        return {'obs': obs, 'prods': prods, 'final': final}
    finally:
        env.tls.proto = 'HTTP/1.1'
        env.drop_cache()


def stampede_to_conc(scn):
    """A two-thread anti-stampede scenario of the first harness generation (warm-up, T1 held inside the handler, T2
    asking meanwhile, follow-up) as an interleaving scenario."""
    reqs = [scn['warm'], scn['first'], scn['second']] + ([scn['follow']] if scn.get('follow') else [])
    plan = [['run', 0], ['until', 1, 'store.get', 2], ['until', 2, 'ev.wait', 1]]
    if scn.get('mode') == 'timeout':
        plan += [['w', 2], ['run', 2]]
    plan += [['run', 1], ['run', 2]] + ([['run', 3]] if scn.get('follow') else [])
    return {'cfg': scn['cfg'], 'waits': True, 'reqs': reqs, 'plan': plan, 'seed': 0}


# ----------------------------------------------------------------------------------------------
# interleaving scenarios: real request threads + the real expiry thread under the deterministic scheduler
# (harness/c15_sched.py), one shared-state access per step, compared step by step with CpModel.CacheConc
# ----------------------------------------------------------------------------------------------
BASE_URL = 'http://h'
MAX_ACTS = 600


def _install_conc(env):
    """Rebind the names through which caching.py reaches its shared objects (restored by _uninstall_conc)."""
    caching = env.caching
    saved = {'threading': caching.threading, 'AntiStampedeCache': caching.AntiStampedeCache,
             'dict': caching.__dict__.get('dict', None)}
    asc, mc = S.make_classes(caching)
    caching.threading = S.ThreadingShim()
    caching.AntiStampedeCache = asc
    caching.dict = S.DictNS
    return saved, mc


def _uninstall_conc(env, saved):
    caching = env.caching
    caching.threading = saved['threading']
    caching.AntiStampedeCache = saved['AntiStampedeCache']
    if saved['dict'] is None:
        caching.__dict__.pop('dict', None)
    else:
        caching.dict = saved['dict']


def _variant_gen(v):
    try:
        return str(dict.get(v[1], 'X-Gen'))
    except Exception:
        return '?'


def _hexkey(k):
    k = list(k)
    return '.'.join(hexs(x) for x in k) if k else '_'


def _rel(uri):
    return uri[len(BASE_URL):] if isinstance(uri, str) and uri.startswith(BASE_URL) else str(uri)


def _ticks(t):
    return int(round((t - T0) * TPS))


def _done_token(o):
    return canon_real({'obs': [o], 'final': None})[0][0]


def snap_real(world, names, obs):
    cache = world.cache
    st = ','.join('%s>%s' % (hexs(_rel(u)), getattr(uc, '_c15_id', '?')) for u, uc in dict.items(cache.store))
    ucs = []
    for uc in world.ucs:
        slots = []
        for k, v in dict.items(uc):
            if isinstance(v, S.SharedEvent):
                slots.append('%s=E%s' % (_hexkey(k), v._c15_id))
            else:
                slots.append('%s=V%s' % (_hexkey(k), _variant_gen(v)))
        ucs.append('%d:%s' % (uc._c15_id, ','.join(slots)))
    evs = ','.join('%d:%s:%d' % (e._c15_id, '-' if e._result is None else _variant_gen(e._result),
                                 1 if e._flag else 0) for e in world.evs)
    ex = ','.join('%d>%s' % (_ticks(t), getattr(b, '_c15_id', '?')) for t, b in dict.items(cache.expirations))
    bk = ';'.join('%d:%s' % (b._c15_id, '+'.join('%d/%s/%s' % (e[0], hexs(_rel(e[1])), _hexkey(e[2]))
                                                 for e in b.raw())) for b in world.buckets)
    th = []
    for n in names:
        stt = world.sched.threads[n]
        if stt.status == 'done':
            th.append(_done_token(obs[n]) if obs.get(n) is not None else 'EXC')
        else:
            th.append(stt.pending[0])
    x = world.sched.threads.get('X')
    xp = x.pending[0] if x is not None and x.pending else 'dead'
    return 'st[%s]uc[%s]ev[%s]ex[%s]bk[%s]cur=%d;th[%s]xp=%s' % (
        st, ';'.join(ucs), evs, ex, bk, cache.__dict__.get('_c15_cursize', 0), ','.join(th), xp)


def conc_line(scn, acts):
    c = scn['cfg']
    out = ['K:%d:%d:%d:%d:%d' % (c['delay'], c['maxobjects'], c['maxobj_size'], c['maxsize'],
                                 1 if scn['waits'] else 0)]
    for a in acts:
        if a[0] == 'N':
            out.append('N:' + model_line({'cfg': c, 'ops': [scn['reqs'][a[1]]]}).split(' ', 1)[1][2:])
        elif a[0] == 't':
            out.append('t%d' % a[1])
        elif a[0] == 'w':
            out.append('w%d' % a[1])
        elif a[0] == 'x':
            out.append('x')
        elif a[0] == 'T':
            out.append('T%d' % a[1])
    return ' '.join(out)


class _Strategy:
    """Chooses the next act from what the real threads are parked in front of (recorded: a scenario is then
    replayed from its concrete act list)."""

    def __init__(self, scn, rng):
        self.scn = scn
        self.rng = rng
        self.plan = list(scn.get('plan') or [])
        self.last = None

    def next(self, view):
        """view: {'spawned': n, 'total': n, 'pending': {j: label|None(done)}, 'set': {j: event is set}, 'xp': label}"""
        rng = self.rng
        # scripted prefix: ['run', j] = spawn (if needed) and run thread j to its end; ['T', n]; ['X'] = a whole pass;
        # ['until', j, label, k] = run j until it is parked in front of its k-th `label`
        while self.plan:
            item = self.plan[0]
            if item[0] == 'T':
                self.plan.pop(0)
                return ['T', item[1]]
            if item[0] == 'w':
                self.plan.pop(0)
                if view['pending'].get(item[1]) == 'ev.wait':
                    return ['w', item[1]]
                continue
            if item[0] == 'X':
                if item[-1] == 'started' and view['xp'] == 'sleep':
                    self.plan.pop(0)
                    continue
                if item[-1] != 'started':
                    item.append('started')
                return ['x']
            j = item[1]
            if j >= view['total']:
                self.plan.pop(0)
                continue
            if j >= view['spawned']:
                return ['N', view['spawned']]
            lab = view['pending'].get(j)
            if lab is None:
                self.plan.pop(0)
                continue
            if item[0] == 'until':
                if lab == item[2]:
                    item[3] -= 1
                    if item[3] <= 0:
                        self.plan.pop(0)
                        continue
            if lab == 'ev.wait' and not view['set'].get(j):
                if item[0] == 'until':
                    self.plan.pop(0)         # cannot get further without a timeout: hand over to the others
                    continue
                return ['w', j]
            return ['t', j]
        live = [j for j, lab in view['pending'].items() if lab is not None]
        runnable = [j for j in live if view['pending'][j] != 'ev.wait' or view['set'].get(j)]
        choices = []
        if view['spawned'] < view['total']:
            choices += [['N', view['spawned']]] * (3 if not live else 1)
        if self.last in runnable and rng.random() < 0.55:
            return ['t', self.last]
        for j in runnable:
            choices += [['t', j]] * 4
        for j in live:
            if j not in runnable:
                choices += [['w', j]] * (1 if runnable else 4)
        if view['xp'] != 'sleep':
            choices += [['x']] * 4
        elif rng.random() < 0.35:
            choices += [['x']] * 2
        if rng.random() < 0.25:
            d = self.scn['cfg']['delay'] * TPS
            choices += [['T', rng.choice([1, 2, d - 1, d, d + 1, 4])]]
        if not choices:
            return None
        a = rng.choice(choices)
        if a[0] == 't':
            self.last = a[1]
        return a


def run_conc(scn, rng=None):
    """Run one interleaving scenario on the real code.  Returns {'acts', 'snaps', 'obs', 'prods', 'spans', ...}."""
    import random
    env = _Env.get()
    cp = env.cherrypy
    env.drop_cache()
    env.clock.now = T0
    env.cur = {'gen': 0, 'plan': None}
    sched = S.Sched()
    world = S.World(sched)
    saved, mc = _install_conc(env)
    S._world[0] = world
    names = []
    obs, prods, spans, errors = {}, {}, {}, {}
    acts, snaps = [], []
    truncated = False
    try:
        app = env.new_app(dict(scn['cfg'], timeout=(30 if scn['waits'] else None), cache_class=mc))
        # the process-wide cache is created by the real tool code: an invalidating request to an unrelated URL
        do_request(env, app, ['R', 'POST', '/c15-warm-up', '', {}, None, None,
                              {'vary': [], 'size': 12, 'ns': False, 'pnc': False}], {})
        env.cur['gen'] = 0
        world.cache = getattr(cp, '_cache', None)
        if world.cache is None or not isinstance(world.cache, mc):
            raise common.HarnessError('interleaving scenario: tools.caching.cache_class was not honoured')
        if not sched.x_registered.wait(20):
            raise common.HarnessError('interleaving scenario: expiry thread did not reach sleep()')

        def spawn(k):
            op = scn['reqs'][k]

            def fn():
                obs[k] = do_request(env, app, op, prods)
            names.append(k)
            sched.spawn(k, fn)

        def view():
            pend, isset = {}, {}
            for k in names:
                stt = sched.threads[k]
                if stt.status == 'done':
                    pend[k] = None
                else:
                    pend[k] = stt.pending[0]
                    if stt.pending[0] == 'ev.wait':
                        isset[k] = bool(stt.pending[1]._flag)
            return {'spawned': len(names), 'total': len(scn['reqs']), 'pending': pend, 'set': isset,
                    'xp': sched.threads['X'].pending[0]}

        def do(a):
            if a[0] == 'N':
                if a[1] != len(names) or a[1] >= len(scn['reqs']):
                    return
                spawn(a[1])
            elif a[0] in ('t', 'w'):
                k = a[1]
                if k in sched.threads:
                    if k not in spans and sched.threads[k].status != 'done':
                        spans[k] = [len(acts), None]
                    sched.step(k, timeout=(a[0] == 'w'))
                    if sched.threads[k].status == 'done' and spans.get(k) and spans[k][1] is None:
                        spans[k][1] = len(acts)
                        if sched.threads[k].exc is not None:
                            errors[k] = repr(sched.threads[k].exc)
            elif a[0] == 'x':
                if sched.pending('X') == ('sleep',):
                    sched.step('X')              # sleep() returns, the pass reads the clock ...
                    if sched.pending('X')[0] == 'exp.copy':
                        sched.step('X')          # ... and copies the expirations
                else:
                    sched.step('X')
            elif a[0] == 'T':
                env.clock.now += a[1] / TPS

        for a in scn.get('acts') or []:
            do(a)
            acts.append(list(a))
            snaps.append(snap_real(world, names, obs))
        nfixed = len(acts)
        if True:
            # a recorded scenario is replayed from its act list; whatever is still unfinished afterwards (a witness
            # schedule that stops in the interesting state) is run to its end by the strategy
            strat = _Strategy(dict(scn, plan=None) if scn.get('acts') is not None else scn,
                              rng or random.Random(scn.get('seed', 0)))
            while True:
                v = view()
                if v['spawned'] == v['total'] and all(l is None for l in v['pending'].values()) \
                        and v['xp'] == 'sleep' and not strat.plan:
                    break
                a = strat.next(v)
                if a is None:
                    break
                do(a)
                acts.append(list(a))
                snaps.append(snap_real(world, names, obs))
                if len(acts) > MAX_ACTS:
                    truncated = True       # the model finishes every thread within ~25 accesses: reported as a difference
                    break
        unfinished = [] if truncated else [k for k in names if sched.threads[k].status != 'done']
        return {'acts': acts, 'snaps': snaps, 'obs': obs, 'prods': prods, 'spans': spans, 'errors': errors,
                'unfinished': unfinished, 'names': list(names), 'nfixed': nfixed, 'truncated': truncated}
    finally:
        sched.release_all()
        S._world[0] = None
        for k in names:
            t = sched.threads[k].thread
            if t is not None:
                t.join(20)
        _uninstall_conc(env, saved)
        env.drop_cache()


def oracle_conc(scn, res):
    """The statement on an interleaved run.  Genuineness, variant, freshness, Age, no-store and no-cache are
    evaluated for every response that did not come from the handler; the invalidation clause only where the order
    of the requests is unambiguous (producer finished before the POST began, POST finished before the GET began)."""
    bad = []
    delay = scn['cfg']['delay']
    prods = res['prods']
    prod_thread = {}
    for k, o in res['obs'].items():
        if o is not None and o['handler_gen'] is not None:
            prod_thread[o['handler_gen']] = k
    vary_seen = {}
    for g, p in prods.items():
        if p['status'] < 500:
            vary_seen.setdefault(tuple(p['url']), set()).add(tuple(sorted({v.lower() for v in p['vary']})))
    for k, o in sorted(res['obs'].items()):
        if o is None:
            continue
        op = scn['reqs'][k]
        _, method, path, qs, hdrs, pragma, cc, plan = op
        url = (path, qs)
        if o['handler_gen'] is not None and o['flags'] and o['flags'][0]:
            bad.append(('thread %d: handler ran but request.cached is true' % k, 'cached_flag_wrong'))
        if o['handler_gen'] is not None or o['status'] in (400, 412):
            continue
        where = 'thread %d %s %s?%s' % (k, method, path, qs)
        try:
            g = int(o['xgen'])
        except (TypeError, ValueError):
            g = None
        p = prods.get(g)
        if p is None:
            bad.append(('%s: response (status %s) came neither from the handler nor from a stored handler response'
                        % (where, o['status']), 'hit_unknown_generation'))
            continue
        bad += _check_hit(where, o, op, p, g, delay, len(vary_seen.get(url, ())) > 1, overlapping=True,
                          conditional=(o['status'] == 304))
        pk = prod_thread.get(g)
        for j, oj in res['obs'].items():
            if oj is None or j == k:
                continue
            opj = scn['reqs'][j]
            if opj[1] in INVALIDATING and (opj[2], opj[3]) == url:
                sp, sj, sk = res['spans'].get(pk), res['spans'].get(j), res['spans'].get(k)
                if sp and sj and sk and sp[1] is not None and sj[1] is not None and sp[1] < sj[0] and sj[1] < sk[0]:
                    bad.append(('%s: served generation %d, produced and stored before the %s of thread %d began, '
                                'after that request had finished' % (where, g, opj[1], j),
                                'served_after_invalidation'))
    return bad


def gen_conc(rng):
    delay = rng.choice([1, 2, 2, 3])
    tight = rng.random() < 0.3
    cfg = {'delay': delay, 'debug': rng.random() < 0.08,
           'maxobjects': rng.choice([1, 2, 3]) if tight and rng.random() < 0.4 else 1000,
           'maxobj_size': rng.choice([13, 21]) if tight and rng.random() < 0.3 else 100000,
           'maxsize': rng.choice([13, 25, 33, 41]) if tight and rng.random() < 0.6 else 10000000}
    n = rng.choice([2, 2, 3, 3, 4])
    same = rng.random() < 0.75
    path, qs = rng.choice(PATHS[:2]), rng.choice(QUERIES[:2])
    vary = rng.sample(HDRS, rng.choice([0, 1, 1, 2]))
    vals = ['p', 'q']
    with_validators = rng.random() < 0.15
    reqs = []
    for i in range(n):
        u = (path, qs) if same or rng.random() < 0.5 else (rng.choice(PATHS[:2]), rng.choice(QUERIES[:2]))
        method = rng.choices(['GET', 'HEAD', 'POST', 'DELETE'], weights=[80, 4, 12, 4])[0]
        hd = {h: (vals[0] if rng.random() < 0.7 else rng.choice(vals)) for h in HDRS if rng.random() < 0.9}
        r = rng.random()
        cc = None
        if r < 0.08:
            cc = ['no-cache']
        elif r < 0.2:
            cc = ['max-age=%d' % rng.choice([0, 1, delay])]
        elif r < 0.24:
            cc = ['no-store']
        elif r < 0.26:
            cc = ['max-age=x']
        pragma = ['no-cache'] if rng.random() < 0.04 else None
        plan = {'vary': list(vary), 'size': rng.choices([0, 12, 20], weights=[6, 60, 34])[0],
                'ns': rng.random() < 0.04, 'pnc': rng.random() < 0.03}
        if with_validators:
            plan['lastmod'] = LASTMODS[0]
            if rng.random() < 0.4:
                hd[rng.choice(['If-Modified-Since', 'If-Modified-Since', 'If-Unmodified-Since'])] = \
                    rng.choice([LASTMODS[0], LASTMODS[0], LASTMODS[1]])
        reqs.append(['R', method, u[0], u[1], hd, pragma, cc, plan])
    plan = []
    r = rng.random()
    d = delay * TPS
    waits = rng.random() < 0.75
    labs = ['store.get', 'uc.get', 'uc.set', 'handler', 'cur.get', 'exp.setdefault', 'bucket.append', 'cur.set',
            'ev.result=', 'ev.set', 'store.len', 'store.set', 'store.pop']
    if r < 0.45 and n >= 3:
        # stampede: the resource exists (thread 0 stored some variant), thread 1 misses another / the expired /
        # the swept variant and is parked somewhere between its placeholder and the end of its put, thread 2 asks
        # for the same variant
        waits = rng.random() < 0.9
        reqs[0][1] = 'GET'
        reqs[0][5] = reqs[0][6] = None
        reqs[0][7] = dict(reqs[0][7], size=12, ns=False, pnc=False)
        for j in (1, 2):
            reqs[j][2], reqs[j][3] = reqs[0][2], reqs[0][3]
            if rng.random() < 0.85:
                reqs[j][1] = 'GET'
        if vary:
            other = dict(reqs[0][4])
            other[vary[0]] = 'q' if other.get(vary[0], '') != 'q' else 'p'
            reqs[1][4] = dict(other)
            reqs[2][4] = dict(other) if rng.random() < 0.85 else dict(reqs[0][4])
            plan.append(['run', 0])
        else:
            reqs[1][4] = dict(reqs[0][4])
            reqs[2][4] = dict(reqs[0][4])
            plan += [['run', 0], ['T', rng.choice([d, d + 1, d + 4])], ['X']]
        plan.append(['until', 1, rng.choice(['handler', 'handler', 'store.get', 'store.len', 'cur.get', 'exp.setdefault',
                                             'bucket.append', 'uc.get', 'uc.set', 'ev.result=', 'ev.set', 'cur.set']),
                     rng.choice([1, 1, 2])])
        plan.append(['until', 2, rng.choice(['ev.wait', 'ev.wait', 'uc.get', 'ev.result?']), rng.choice([1, 1, 2])])
        if rng.random() < 0.3:
            plan.append(['T', rng.choice([1, 4, d, d + 1])])
    elif r < 0.65:
        # a sequential prefix (populate), clock near the expiry boundary, then everything interleaved
        k = rng.choice([1, 1, 2])
        for j in range(min(k, n - 1)):
            plan.append(['run', j])
        if rng.random() < 0.7:
            plan.append(['T', rng.choice([1, d - 1, d, d + 1, d + 4, 2 * d])])
        if rng.random() < 0.3:
            plan.append(['X'])
    elif r < 0.85:
        # two threads parked at chosen accesses, then the rest
        plan.append(['until', 0, rng.choice(labs), rng.choice([1, 1, 2])])
        plan.append(['until', 1, rng.choice(labs), rng.choice([1, 1, 2])])
        if rng.random() < 0.3:
            plan.append(['T', rng.choice([d, d + 1, 1])])
    return {'cfg': cfg, 'waits': waits, 'reqs': reqs, 'plan': plan, 'seed': rng.randrange(1 << 30)}


def _examine_conc(scn):
    import random
    if _HANGS[0] >= 2:
        return {'acts': [], 'snaps': [], 'toks': {}, 'errors': {}, 'unfinished': [], 'nfixed': 0, 'truncated': False,
                'nhit': 0, 'bad': [], 'skipped': True}
    try:
        with _Watchdog(120):
            res = run_conc(scn, random.Random(scn.get('seed', 0)))
    except RequestHung:
        _HANGS[0] += 1
        _Env.inst = None
        return {'acts': [], 'snaps': [], 'toks': {}, 'errors': {}, 'unfinished': [], 'nfixed': 0, 'truncated': False,
                'nhit': 0, 'bad': [('the interleaving scenario never came back (120 s): a real blocking call in the '
                                    'code under test', 'request_never_answered')]}
    toks = {k: (_done_token(o) if o is not None else 'EXC') for k, o in res['obs'].items()}
    return {'acts': res['acts'], 'snaps': res['snaps'], 'bad': oracle_conc(scn, res), 'toks': toks,
            'errors': res['errors'], 'unfinished': res['unfinished'], 'nfixed': res['nfixed'],
            'truncated': res['truncated'],
            'nhit': sum(1 for t in toks.values() if t.startswith('H'))}


def _examine_conc_many(scns):
    out = [_examine_conc(s) for s in scns]
    if out:
        out[-1]['cov'] = cov_snapshot()
    return out


def check_conc(ctx, scns, procs=None, expects=None, compare=True):
    """expects (witness schedules of the Lean theorems): per scenario a list of [index into the recorded acts
    (-1: the last recorded one), substring the snapshot there must contain]."""
    if not scns:
        return
    if procs and procs > 1 and len(scns) >= 4 * procs:
        k = (len(scns) + procs * 4 - 1) // (procs * 4)
        chunks = [scns[i:i + k] for i in range(0, len(scns), k)]
        results = [r for chunk in common.parallel_map(_examine_conc_many, chunks, procs=procs) for r in chunk]
    else:
        results = _examine_conc_many(scns)
    for r in results:
        cov_merge(r.pop('cov', None))
    lines = [conc_line(s, r['acts']) for s, r in zip(scns, results)]
    model_out = ctx.model(lines) if compare else None
    for idx, (scn, r) in enumerate(zip(scns, results)):
        if r.get('skipped'):
            ctx.count('skipped-after-hangs')
            continue
        case = {'conc': dict(scn, acts=r['acts'], plan=None)}
        ctx.case(case, nontrivial=(r['nhit'] > 0 or any('ev.wait' in s for s in r['snaps'][-1:])), key=lines[idx])
        ctx.count('conc:threads:%d' % len(scn['reqs']))
        ctx.count('conc:acts:%02d-%02d' % (len(r['acts']) // 20 * 20, len(r['acts']) // 20 * 20 + 19))
        for t in r['toks'].values():
            ctx.count('conc:outcome:' + {'H': 'hit', 'M': 'handler', 'N': 'not-modified-from-cache',
                                         'P': 'precondition-failed-on-cached'}.get(t[0], t))
        for a in r['acts']:
            ctx.count('conc:act:' + a[0])
        if any('ev.wait' in s for s in r['snaps']):
            ctx.count('conc:some-thread-waited')
        if r['unfinished']:
            raise common.HarnessError('interleaving scenario left threads unfinished: %r' % (r['unfinished'],))
        for what, sig in r['bad']:
            ctx.oracle_fail(case, 'interleaving scenario: ' + what, 'conc:' + sig)
        for at, sub in (expects[idx] if expects else []):
            k = (r['nfixed'] - 1) if at < 0 else at
            if k >= len(r['snaps']) or sub not in r['snaps'][k]:
                ctx.disagree(case, r['snaps'][k] if k < len(r['snaps']) else '(no such act)', sub,
                             'witness schedule of a Lean theorem: the real threads are not in the proved state after '
                             'act %d' % k)
        if model_out is not None:
            ctx.compared()
            if r['bad']:
                continue
            msn = model_out[idx].split(' ') if model_out[idx] else []
            if r['truncated'] and msn == r['snaps']:
                ctx.disagree(case, 'threads still running after %d shared accesses' % len(r['acts']),
                             'every thread is done', 'interleaving scenario: the real threads do not come to an end')
            if msn != r['snaps']:
                first = next((i for i, (a, b) in enumerate(zip(r['snaps'], msn)) if a != b), min(len(msn), len(r['snaps'])))
                impl = r['snaps'][first] if first < len(r['snaps']) else '(no snapshot)'
                mod = msn[first] if first < len(msn) else '(no snapshot)'
                ctx.disagree(case, impl, mod, 'interleaving scenario: shared state / pending accesses differ after act %d '
                             '(%s) of %d' % (first, r['acts'][first] if first < len(r['acts']) else '-', len(r['acts'])))


# ----------------------------------------------------------------------------------------------
# canonical forms
# ----------------------------------------------------------------------------------------------
def hexs(s):
    return s.encode('latin-1').hex() if s else '-'


def hexlist(xs):
    return ','.join(hexs(x) for x in xs) if xs else '_'


def model_line(case):
    c = case['cfg']
    out = ['C:%d:%d:%d:%d' % (c['delay'], c['maxobjects'], c['maxobj_size'], c['maxsize'])]   # encode: see docs
    if c.get('expires') is not None:
        out[0] += ':%d:%d:%d' % (c['expires']['secs'], 1 if c['expires']['force'] else 0,
                                 0 if c['expires'].get('http10') else 1)
    for op in case['ops']:
        if op[0] == 'T':
            out.append('T%d' % op[1])
        elif op[0] == 'S':
            out.append('S')
        else:
            _, method, path, qs, hdrs, pragma, cc, plan = op
            allh = req_headers(op)
            h = ','.join('%s=%s' % (hexs(k), hexs(v)) for k, v in sorted(allh.items())) if allh else '_'
            mode = plan.get('mode', 'plain')
            vary, rcc, rpr, lm = plan_resp_headers(plan)
            size = plan['size']
            stream = bool(plan.get('stream'))
            etag, exp = bool(plan.get('etag')), bool(plan.get('exp'))
            if mode == 'http':
                etag = exp = False           # clean_headers drops ETag, Last-Modified, Expires, Vary
                # HTTPError.set_response: clean_headers drops Vary, the body is the error page; for the statuses
                # in _ie_friendly_error_sizes it also presets Content-Length, so finalize does not drain the
                # body: the tee runs only when the WSGI consumer iterates it, exactly like a streamed body
                from cherrypy import _cperror
                vary, lm, size = '', '', _Env.get().error_page_size(plan['hstatus'])
                stream = plan['hstatus'] in _cperror._ie_friendly_error_sizes
            body_fails = mode == 'exc' or (mode == 'gen' and plan.get('fail_at') is not None)
            # the client goes away only if there is something left to read after `abandon` chunks
            third = max(1, (plan['size'] + 2) // 3)
            nchunks = len(range(0, plan['size'], third))
            ab = plan.get('abandon')
            goes_away = ab is not None and (ab == 0 or ab < nchunks)
            flags = ((1 if stream else 0) + (2 if body_fails else 0) + (4 if goes_away else 0)
                     + (8 if etag else 0) + (16 if exp else 0))
            out.append('R:%s:%s:%s:%s:%s:%s:%s:%s:%d:%d' % (
                hexs(method), hexs(path), hexs(qs), h, hexs(rcc), hexs(rpr), hexs(vary), hexs(lm), size, flags))
    return ' '.join(out)


def canon_real(res):
    toks = []
    for o in res['obs']:
        if o is None:
            toks.append('-')
        elif o['handler_gen'] is not None:
            toks.append('M%d.%d' % (o['handler_gen'], 1 if (o['flags'] and o['flags'][1]) else 0))
        elif o['status'] == 400:
            toks.append('E400')
        elif o['status'] == 304 and o['xgen'] is not None:
            toks.append('N%s.%s' % (o['xgen'], o['age']))          # Not Modified, built from the cached headers
        elif o['status'] == 412 and o['xgen'] is not None:
            toks.append('P%s' % o['xgen'])                         # Precondition Failed on a cached response
        elif o['xgen'] is not None and o['flags'] and o['flags'][0]:
            toks.append('H%s.%s' % (o['xgen'], o['age']))
        else:
            toks.append('X%d' % o['status'])
    f = res['final']
    tail = '|cur=%d vals=%d uris=%d' % (f['cur'], f['vals'], f['uris']) if f else '|cur=0 vals=0 uris=0'
    if f and f.get('expiry'):
        tail += ' expiry-thread-' + f['expiry']
    return toks, tail


def canon_model(line):
    """(tokens, tail, seq) of a driver line for a sequential history; seq is 'ok' when the interleaving model,
    run under the sequential schedule, agrees with the sequential model (else its own line)."""
    seq = 'ok'
    if ' seq=' in line:
        line, seq = line.split(' seq=', 1)
    head, tail = line.split(' |', 1) if ' |' in line else ('', line.lstrip('|'))
    return head.split(' ') if head else [], '|' + tail, seq


# ----------------------------------------------------------------------------------------------
# oracle: the property statement evaluated on what the real tool did (no model involved)
# ----------------------------------------------------------------------------------------------
def _max_ages(cc):
    out = []
    for v in otokens(_raw(cc)) or []:
        if v.startswith('max-age=') and v[8:].isdigit() and v[8:].isascii():
            out.append(int(v[8:]))
    return out


def _no_cache_requested(op):
    _, method, path, qs, hdrs, pragma, cc, plan = op
    return 'no-cache' in (otokens(_raw(pragma)) or []) or 'no-cache' in (otokens(_raw(cc)) or [])


TOOL_HEADERS = ('Pragma', 'Cache-Control', 'Expires')     # what tools.expires may add to any response it sees


def _check_hit(where, o, op, p, g, delay, unstable, overlapping=False, conditional=False, expires=None,
               collided=False):
    """The clauses of the statement about ONE response that did not come from the handler (`o`, answering request
    `op`) and the handler production `p` (generation g) it claims to be: independent of the order of requests.
    conditional: `o` is a 304 Not Modified built from the cached response (it must be justified by that response
    like a hit, but is of course not identical to it)."""
    bad = []
    _, method, path, qs, hdrs, pragma, cc, plan = op
    url = (path, qs)
    reqh = {k.lower(): v.strip(' \t') for k, v in req_headers(op).items()}
    # the producing response was produced and delivered to its end
    if not p['complete']:
        bad.append(('%s: served generation %d, a response whose delivery broke off (handler body '
                    'failed mid-stream or its client went away)' % (where, g),
                    'hit_incomplete_production'))
    # identical in status, body and stored headers (Content-Length is framing: a streamed original
    # has none)
    want_body = '' if method == 'HEAD' else p['body']
    hs = sorted(tuple(x) for x in o['headers'] if x[0] not in ('Age', 'Content-Length'))
    ps = sorted(tuple(x) for x in p['headers'] if x[0] not in ('Age', 'Content-Length'))
    if want_body is None:
        want_body = o['body']
    if expires is not None:
        # the expires tool runs on the response served from the cache as on any other: the stored headers must be
        # there unchanged, headers the tool adds (or, forced, rewrites) are its business
        pnames = {x[0] for x in ps}
        hs = [x for x in hs if not (x[0] in TOOL_HEADERS and (expires['force'] or x[0] not in pnames))]
        if expires['force']:
            ps = [x for x in ps if x[0] not in TOOL_HEADERS]
    if conditional:
        # a 304 is right only if the validator the client holds is the stored response's, on a GET / HEAD
        ims = reqh.get('if-modified-since', '')
        if not ims or ims != (p.get('lastmod') or '') or method not in ('GET', 'HEAD') or o['body']:
            bad.append(('%s: 304 Not Modified from the cache, but the If-Modified-Since of the request %r is not the '
                        'Last-Modified of the stored response %r (method %s)' % (where, ims, p.get('lastmod'), method),
                        'not_modified_unjustified'))
    elif o['status'] != p['status'] or o['body'] != want_body or hs != ps:
        bad.append(('%s: cached response differs from what the handler produced as generation %d '
                    '(status %s/%s, body %r/%r, headers %s/%s)'
                    % (where, g, o['status'], p['status'], o['body'][:20], want_body[:20], hs, ps),
                    'hit_not_identical'))
    # same URL and query string
    n1 = False
    if tuple(p['url']) != url:
        sig = 'hit_other_url'
        if (p['url'][0] + ('?' + p['url'][1] if p['url'][1] else '')) == (path + ('?' + qs if qs else '')):
            sig = 'N1:path_with_question_mark'
            n1 = True        # the two URLs share their AntiStampedeCache: a variant mismatch is the same finding
        bad.append(('%s: served generation %d which was produced for %s' % (where, g, p['url']), sig))
    # same value of every request header named in that response's Vary
    for hname in p['vary']:
        if reqh.get(hname.lower(), '') != p['hdrs'].get(hname.lower(), ''):
            bad.append(('%s: served generation %d (Vary %s) produced for %s=%r to a request with %s=%r'
                        % (where, g, p['vary'], hname, p['hdrs'].get(hname.lower(), ''), hname,
                           reqh.get(hname.lower(), '')),
                        'N1:path_with_question_mark' if n1 else
                        'F16b:vary_list_changed' if unstable else 'hit_vary_mismatch'))
            break
    # fresh: no longer ago than delay / the request's smaller max-age (whole seconds)
    t_hit = o['time']
    if overlapping and o.get('rtime') is not None:
        t_hit = o['rtime']        # the clock moved while the request was in progress: its response.time counts
    elapsed = int(t_hit - p['time'])
    limit = delay
    ma = _max_ages(cc)
    if ma:
        limit = min(limit, max(ma))
    # (requests that overlap in time: the reader's response.time may precede the producer's)
    if (t_hit < p['time'] and not overlapping) or elapsed > limit:
        sig = 'hit_stale'
        if ma and elapsed > delay and elapsed <= max(ma):
            sig = 'F16a:max_age_beyond_delay'
        bad.append(('%s: served generation %d produced %s s ago, limit %d s (delay %d, request '
                    'max-age %s)' % (where, g, t_hit - p['time'], limit, delay, ma or None), sig))
    # Age = elapsed whole seconds (a request in progress while the clock moves: any instant of it)
    ages = {str(elapsed)}
    if overlapping:
        ages = {str(a) for a in range(elapsed, max(elapsed, int(o['time'] - p['time'])) + 1)}
    if o['age'] not in ages:
        bad.append(('%s: Age header %r, elapsed whole seconds %d' % (where, o['age'], elapsed),
                    'age_header_wrong'))
    # never stored when marked no-store
    if p['req_no_store'] or p['resp_no_store']:
        bad.append(('%s: served generation %d although the %s was marked no-store'
                    % (where, g, 'request' if p['req_no_store'] else 'response'), 'no_store_served'))
    # request no-cache reaches the handler
    if _no_cache_requested(op):
        bad.append(('%s: request carried no-cache but the handler was not reached' % where,
                    'no_cache_request_served_from_cache'))
    if n1:
        # the response served was produced for ANOTHER URL whose text path+?+query is the same (finding C15-N1,
        # repaired by e10b542): whatever else is wrong with it (the other URL's Vary list, its invalidation) is that
        # finding.  (Two such URLs merely occurring in one history - `collided` - no longer relabels anything: since the
        # repair they do not share a store entry, and a response served for its OWN URL across a changed Vary list is
        # F16b whatever other URLs the history holds.)
        bad = [(w, 'N1:path_with_question_mark') for w, _ in bad]
    return bad


def store_key(url):
    """The text cherrypy.url(qs=...) ends with: what finding C15-N1 is about."""
    return url[0] + ('?' + url[1] if url[1] else '')


def oracle(case, res):
    """Return a list of (what, signature) for every way this run contradicts the statement."""
    bad = []
    key_urls = {}            # store key text -> the URLs (path, query) of this history that have it
    delay = case['cfg']['delay']
    prods = res['prods']
    last_req = {}            # url -> method of the previous request to it
    inval_time_idx = {}      # url -> index of the last invalidating request
    vary_seen = {}           # url -> set of Vary lists produced so far
    prod_idx = {}            # gen -> op index
    for i, (op, o) in enumerate(zip(case['ops'], res['obs'])):
        if o is None:
            continue
        _, method, path, qs, hdrs, pragma, cc, plan = op
        url = (path, qs)
        key_urls.setdefault(store_key(url), set()).add(url)
        collided = len(key_urls[store_key(url)]) > 1
        # 412 Precondition Failed on a cached response is an error answer, not "a response served from the cache"
        served_from_cache = o['handler_gen'] is None and o['status'] not in (400, 412)
        if o['handler_gen'] is not None:
            prod_idx[o['handler_gen']] = i
            if o['status'] < 500:
                vary_seen.setdefault(url, set()).add(tuple(sorted({v.lower() for v in prods[o['handler_gen']]['vary']})))
            if o['flags'] and o['flags'][0]:
                bad.append(('op %d: handler ran but request.cached is true' % i, 'cached_flag_wrong'))
        if served_from_cache:
            where = 'op %d %s %s?%s' % (i, method, path, qs)
            g = None
            try:
                g = int(o['xgen'])
            except (TypeError, ValueError):
                pass
            p = prods.get(g)
            if p is None:
                bad.append(('%s: response (status %s) came neither from the handler nor from a stored handler '
                            'response' % (where, o['status']), 'hit_unknown_generation'))
            else:
                collided = collided or (tuple(p['url']) != url and store_key(p['url']) == store_key(url))
                bad += _check_hit(where, o, op, p, g, delay, len(vary_seen.get(url, ())) > 1,
                                  conditional=(o['status'] == 304), expires=case['cfg'].get('expires'),
                                  collided=collided)
                # not across an invalidating request
                if url in inval_time_idx and prod_idx.get(g, -1) < inval_time_idx[url]:
                    bad.append(('%s: served generation %d stored before the %s at op %d'
                                % (where, g, case['ops'][inval_time_idx[url]][1], inval_time_idx[url]),
                                'N1:path_with_question_mark' if collided else 'served_after_invalidation'))
            if o['flags'] is not None and p is not None and not o['flags'][0]:
                bad.append(('%s: served from the cache but request.cached is %r' % (where, o['flags'][0]),
                            'cached_flag_wrong'))
            # the next GET after POST/PUT/DELETE reaches the handler
            if last_req.get(url) in INVALIDATING:
                bad.append(('%s: directly after a %s to the same URL the handler was not reached'
                            % (where, last_req[url]),
                            'N1:path_with_question_mark' if collided else 'served_after_invalidation'))
            # request no-cache reaches the handler (part of _check_hit when the generation is known)
            if p is None and _no_cache_requested(op):
                bad.append(('%s: request carried no-cache but the handler was not reached' % where,
                            'no_cache_request_served_from_cache'))
        last_req[url] = method
        if method in INVALIDATING:
            inval_time_idx[url] = i
    return bad


# ----------------------------------------------------------------------------------------------
# generator
# ----------------------------------------------------------------------------------------------
PATHS = ['/a', '/b', '/a/b', '/c']
QUERIES = ['', 'x=1', 'x=2', 'x=1&y=2', 'y=2&x=1']
VALUES = ['p', 'q', 'p', 'q', '', 'X-A', 'X-B', 'r']


def gen_cfg(rng):
    delay = rng.choice([1, 2, 2, 3, 5, 10])
    tight = rng.random() < 0.25
    expires = None
    if rng.random() < 0.12:
        expires = {'secs': rng.choice([0, 0, 60, 3600]), 'force': rng.random() < 0.25, 'http10': rng.random() < 0.2}
    return {'delay': delay, 'encode': rng.random() < 0.25, 'expires': expires, 'debug': rng.random() < 0.08,
            'maxobjects': rng.choice([1, 2, 3, 4]) if tight and rng.random() < 0.6 else 1000,
            'maxobj_size': rng.choice([12, 13, 20, 21, 40]) if tight and rng.random() < 0.5 else 100000,
            'maxsize': rng.choice([24, 32, 33, 40, 52, 60, 100]) if tight and rng.random() < 0.6 else 10000000}


def gen_cc(rng, delay):
    r = rng.random()
    if r < 0.55:
        return None
    n = rng.choice([0, 1, max(delay - 1, 0), delay, delay + 1, 2 * delay, 1000])
    ma = 'max-age=%d' % n
    if r < 0.75:
        return [ma]
    if r < 0.81:
        return ['no-cache']
    if r < 0.86:
        return ['no-store']
    return rng.choice([
        [ma, 'no-cache'], ['no-cache', ma], ['no-store', ma], [ma, 'no-store'], ['max-age'], ['max-age=abc'],
        ['max-age='], ['max-age=5', 'max-age=100'], ['max-age=100', 'max-age=%d' % delay], ['no-cache=x'],
        ['only-if-cached'], ['private', ma], ['zzz', ma], ['no-cache', 'max-age=abc'], ['no-store', 'no-cache'],
        ['max-age=007'], ['max-age=' + '9' * 18], ['max-age=1' + '0' * 18], ['max-age=\xb2'], ['public', 'no-store=1'], ['max-age=1=2'], ['xno-cache'], ['no-cachex', ma]])


LASTMODS = ['Mon, 01 Jan 2024 00:00:00 GMT', 'Tue, 02 Jan 2024 10:20:30 GMT']
SEPS = [', ', ', ', ',', ' , ', ',\t', ',  ', ', ,', ' ,']
PADS = ['', '', '', ' ', '\t', '  ', '\x0b', '\xa0', '\x1f ', '\x85']


def _recase(rng, tok):
    r = rng.random()
    if r < 0.5:
        return tok.upper()
    if r < 0.8:
        return tok.title()
    return ''.join(c.upper() if rng.random() < 0.5 else c.lower() for c in tok)


def render_list(rng, toks, names=False):
    """A comma-separated header value the way clients / proxies / applications really write it: varying white
    space (also characters only Python's strip() removes), empty elements, parameters, quoted strings that
    contain commas, upper / mixed case, repeated elements, several header lines folded into one."""
    out = []
    for t in toks:
        r = rng.random()
        if r < 0.06:
            t = _recase(rng, t)
        elif r < 0.10:
            t = t + rng.choice([';q=1', ' ; x=y', ';', ';a="b,c"', '; q="\\""'])
        elif r < 0.12:
            t = '"%s"' % t
        elif r < 0.14 and not names:
            t = rng.choice(['foo="a, %s"' % t, 'x="%s, b"' % t, 'community="UCI, %s"' % t])
        elif r < 0.16:
            out.append(t)                     # the same element twice
        out.append(rng.choice(PADS) + t + rng.choice(PADS))
    if rng.random() < 0.05:
        out.insert(rng.randrange(len(out) + 1), rng.choice(['', ' ', 'x="', '"', 'a=\\"b']))
    sep = rng.choice(SEPS)
    return sep.join(out) if rng.random() < 0.7 else ''.join(o + rng.choice(SEPS) for o in out[:-1]) + out[-1]


def raw_variant(rng, toks, names=False):
    """The element list as it is (joined with ', ' by req_headers) or one of its wire spellings."""
    if not toks:
        return toks
    return render_list(rng, list(toks), names) if rng.random() < 0.3 else toks


def gen_outcome(rng):
    """How the handler's answer comes about: plain bytes, a chunk generator (buffered or streamed) that may
    raise at chunk 0/1/2 or at its end, an exception or HTTPError before any body, a client that goes away."""
    r = rng.random()
    if r < 0.60:
        return {}
    if r < 0.72:
        return {'mode': 'gen', 'stream': rng.random() < 0.5}
    if r < 0.84:
        return {'mode': 'gen', 'stream': rng.random() < 0.5, 'fail_at': rng.choice([0, 1, 1, 2, 2, 3])}
    if r < 0.88:
        return {'mode': 'exc'}
    if r < 0.94:
        return {'mode': 'http', 'hstatus': rng.choice([404, 403, 410, 402, 418])}
    return {'mode': 'gen', 'stream': True, 'abandon': rng.choice([0, 1, 1, 2])}


def gen_case(rng, unstable=None, long=False):
    cfg = gen_cfg(rng)
    delay = cfg['delay']
    nurl = rng.choice([1, 1, 2, 2, 3, 4])
    urls = []
    while len(urls) < nurl:
        u = (rng.choice(PATHS[:2] if rng.random() < 0.6 else PATHS), rng.choice(QUERIES))
        if rng.random() < 0.04:
            # a decoded path that contains the characters the store key treats specially (sent as %3F / %25)
            u = (rng.choice(['/a?x=1', '/a%3Fx=1', '/a%', '/b?', '/a?x=1&y=2']), rng.choice(['', '', 'x=1']))
        if u not in urls:
            urls.append(u)
    nvary = rng.choice([0, 1, 1, 2, 2, 2, 3])
    policy = {}
    for u in urls:
        names = rng.sample(HDRS, rng.choice([nvary, nvary, rng.randint(0, 3)]))
        policy[u] = names
    if unstable is None:
        unstable = rng.random() < 0.04
    odd_spelling = rng.random() < 0.35
    lastmod = {u: (rng.choice(LASTMODS) if rng.random() < 0.3 else None) for u in urls}
    vals = rng.sample(VALUES, rng.choice([2, 2, 3])) if rng.random() < 0.8 else ['p', 'q']
    n = rng.randint(30, 60) if long else rng.choice([3, 5, 8, 12, 16, 20, 25, 30, 40, 50, 60])
    ops = []
    req_times = []       # times (ticks) of requests that reached or may have reached the handler
    now = 0
    nreq = 0
    while len(ops) < n:
        u = rng.choice(urls)
        method = rng.choices(['GET', 'HEAD', 'POST', 'PUT', 'DELETE', 'PATCH', 'OPTIONS'],
                             weights=[64, 9, 9, 7, 7, 2, 2])[0]
        hdrs = {}
        for hname in HDRS:
            if rng.random() < 0.85:
                hdrs[hname if rng.random() < 0.9 else _recase(rng, hname)] = rng.choice(vals)
        if ops and rng.random() < 0.35:
            # re-issue an earlier request's selecting values, possibly permuted across headers
            prev = rng.choice([o for o in ops if o[0] == 'R'] or [None])
            if prev is not None:
                hdrs = dict(prev[4])
                if rng.random() < 0.4 and len(hdrs) >= 2:
                    a, b = rng.sample(sorted(hdrs), 2)
                    hdrs[a], hdrs[b] = hdrs[b], hdrs[a]
                if rng.random() < 0.5:
                    u = (prev[2], prev[3])
                for k in [k for k in hdrs if k.lower().startswith('if-')]:
                    del hdrs[k]
        pragma = None
        r = rng.random()
        if r < 0.07:
            pragma = ['no-cache']
        elif r < 0.10:
            pragma = rng.choice([['foo'], ['foo', 'no-cache'], ['no-cache', 'foo'], ['no-cachex']])
        pragma = raw_variant(rng, pragma)
        cc = raw_variant(rng, gen_cc(rng, delay))
        vary = list(policy[u])
        if unstable and rng.random() < 0.4:
            vary = rng.sample(HDRS, rng.randint(0, 3))
        plan = {'vary': vary,
                'size': rng.choices([0, 12, 20, 40], weights=[5, 50, 30, 15])[0],
                'ns': rng.random() < 0.06, 'pnc': rng.random() < 0.05}
        # how the application spells its headers: case of the names in Vary, white space, `*`, parameters
        if vary and odd_spelling and rng.random() < 0.5:
            names = [v if rng.random() < 0.6 else _recase(rng, v) for v in vary]
            if rng.random() < 0.15:
                names.append(rng.choice(names).lower())
            if rng.random() < 0.06:
                names.append('*')
            plan['vary_raw'] = render_list(rng, names, names=True)
        elif odd_spelling and rng.random() < 0.03:
            plan['vary_raw'] = rng.choice(['*', ' * ', '*, X-A'])
        if plan['ns'] and rng.random() < 0.3:
            plan['rcc_raw'] = render_list(rng, rng.choice([['no-store'], ['private', 'no-store'], ['no-store', 'max-age=0']]))
        elif rng.random() < 0.03:
            plan['rcc_raw'] = rng.choice(['No-Store', 'no-store;x=1', 'private', 'x="a, no-store"', 'no-storex', 'max-age=60'])
        if plan['pnc'] and rng.random() < 0.3:
            plan['rpragma_raw'] = render_list(rng, ['no-cache'])
        # validators: the resource's Last-Modified (stable per URL, sometimes changing), the client's copy of it
        if lastmod.get(u) is not None:
            plan['lastmod'] = lastmod[u] if rng.random() < 0.9 else rng.choice(LASTMODS)
        if rng.random() < (0.3 if lastmod.get(u) is not None else 0.04):
            which = rng.choice(['If-Modified-Since', 'If-Modified-Since', 'If-Unmodified-Since', 'both'])
            for name in (['If-Modified-Since', 'If-Unmodified-Since'] if which == 'both' else [which]):
                hdrs[name] = rng.choice([lastmod.get(u) or LASTMODS[0]] * 3 + LASTMODS + ['garbage', ' ' + LASTMODS[0]])
        if cfg.get('expires') is not None or rng.random() < 0.03:
            plan['etag'] = rng.random() < 0.3
            plan['exp'] = rng.random() < 0.15
        plan.update(gen_outcome(rng))
        ops.append(['R', method, u[0], u[1], hdrs, pragma, cc, plan])
        req_times.append(now)
        nreq += 1
        # clock
        r = rng.random()
        if r < 0.5:
            if rng.random() < 0.55 and req_times:
                # land on a boundary relative to some earlier request
                base = rng.choice(req_times[-6:])
                ma = rng.choice([delay, delay, delay, max(delay - 1, 0), delay + 1, 1, 2 * delay])
                target = base + TPS * ma + rng.choice([-1, 0, 0, 1, 2, 3, 4, 5])
                dt = target - now
                if dt <= 0:
                    dt = rng.choice([1, 2, 3, 4])
            else:
                dt = rng.choice([1, 1, 2, 3, 4, 4, 5, 8, TPS * delay - 1, TPS * delay, TPS * delay + 1])
            if dt > 0:
                ops.append(['T', dt])
                now += dt
            if rng.random() < 0.3:
                ops.append(['S'])
        elif r < 0.55:
            ops.append(['S'])
    return {'cfg': cfg, 'ops': ops[:max(n, 1)]}


# ----------------------------------------------------------------------------------------------
# which lines of the anchored functions did this run execute?  (sys.monitoring, one callback per line, then disabled)
# ----------------------------------------------------------------------------------------------
_COV = {'on': False, 'seen': set(), 'codes': {}}
_COV_TOOL = 3


def _anchored_codes():
    """code object -> (file, qualified name) of the functions the property is anchored in."""
    env = _Env.get()
    from cherrypy import _cptools
    from cherrypy.lib import cptools
    caching = env.caching
    asc = caching.__dict__.get('_c15_live_asc') or caching.AntiStampedeCache
    fns = [('caching.py', 'AntiStampedeCache.wait', asc.__dict__.get('wait')),
           ('caching.py', 'AntiStampedeCache.__setitem__', asc.__dict__.get('__setitem__'))]
    for n in ('__init__', 'clear', 'expire_cache', 'get', 'put', 'delete'):
        fns.append(('caching.py', 'MemoryCache.' + n, caching.MemoryCache.__dict__.get(n)))
    for n in ('get', 'tee_output', 'expires'):
        fns.append(('caching.py', n, caching.__dict__.get(n)))
    fns.append(('_cptools.py', 'CachingTool._wrapper', _cptools.CachingTool.__dict__.get('_wrapper')))
    fns.append(('cptools.py', 'validate_since', cptools.__dict__.get('validate_since')))
    codes = {}

    def add(code, f, name):
        codes[code] = (f, name)
        for c in code.co_consts:
            if hasattr(c, 'co_code'):
                add(c, f, name + '.' + c.co_name)
    for f, name, fn in fns:
        fn = getattr(fn, '__func__', fn)
        if fn is not None and hasattr(fn, '__code__'):
            add(fn.__code__, f, name)
    return codes


def cov_start():
    """Start recording (parent process, before the workers are forked: they inherit the set-up)."""
    mon = getattr(sys, 'monitoring', None)
    if mon is None or _COV['on']:
        return
    try:
        mon.use_tool_id(_COV_TOOL, 'c15-lines')
    except ValueError:
        return
    _COV['codes'] = _anchored_codes()

    def on_line(code, line):
        _COV['seen'].add((_COV['codes'][code][1], line))
        return mon.DISABLE
    mon.register_callback(_COV_TOOL, mon.events.LINE, on_line)
    for code in _COV['codes']:
        mon.set_local_events(_COV_TOOL, code, mon.events.LINE)
    _COV['on'] = True


def cov_snapshot():
    return sorted(_COV['seen'])


def cov_merge(items):
    for it in items or ():
        _COV['seen'].add(tuple(it))


def cov_report(ctx):
    """ctx.extra['anchored_lines_not_executed']: the lines (with a statement on them) of the anchored functions
    that no case of this run executed."""
    if not _COV['on']:
        ctx.extra['anchored_lines_not_executed'] = ['(sys.monitoring not available)']
        return
    import linecache
    missing = []
    total = 0
    for code, (f, name) in sorted(_COV['codes'].items(), key=lambda kv: (kv[1][0], kv[0].co_firstlineno)):
        lines = sorted({l for _, _, l in code.co_lines() if l is not None and l != code.co_firstlineno})
        for l in lines:
            src = linecache.getline(code.co_filename, l).strip()
            if not src or src[0] in '#"\'' or src in ('else:', 'try:', 'finally:'):
                continue
            total += 1
            if (name, l) not in _COV['seen']:
                missing.append('%s:%d %s: %s' % (f, l, name, src[:90]))
    ctx.extra['anchored_lines_not_executed'] = missing
    ctx.extra['anchored_lines_total'] = total
    mon = sys.monitoring
    try:
        for code in _COV['codes']:
            mon.set_local_events(_COV_TOOL, code, 0)
        mon.register_callback(_COV_TOOL, mon.events.LINE, None)
        mon.free_tool_id(_COV_TOOL)
    except Exception:
        pass
    _COV['on'] = False


# ----------------------------------------------------------------------------------------------
# checking
# ----------------------------------------------------------------------------------------------
class _Watchdog:
    """SIGALRM based: a history of the code under test that does not come back within `secs` is an observation
    (the request hung), never a hang of the check.  Main thread only (workers run their chunks on it)."""

    def __init__(self, secs):
        self.secs = secs
        self.armed = False

    def __enter__(self):
        import signal
        if threading.current_thread() is threading.main_thread():
            def on_alarm(signum, frame):
                raise RequestHung()
            self.old = signal.signal(signal.SIGALRM, on_alarm)
            signal.alarm(self.secs)
            self.armed = True
        return self

    def __exit__(self, *a):
        import signal
        if self.armed:
            signal.alarm(0)
            signal.signal(signal.SIGALRM, self.old)
        return False


_HANGS = [0]     # requests of the code under test that never came back, in this process


def _examine(case):
    """Worker: run one history on the real code, evaluate the oracle.  Picklable result."""
    if _HANGS[0] >= 2:
        # this process has met two hanging requests already: they are reported; do not spend the run on more
        return {'toks': [], 'tail': '|', 'nhit': 0, 'bad': [], 'skipped': True}
    try:
        with _Watchdog(15):
            res = run_history(case)
    except RequestHung:
        _HANGS[0] += 1
        _Env.inst = None       # whatever that request left behind is not reused
        return {'toks': ['HUNG'], 'tail': '|', 'nhit': 0,
                'bad': [('a request of this history never came back (15 s)', 'request_never_answered')]}
    toks, tail = canon_real(res)
    return {'toks': toks, 'tail': tail, 'bad': oracle(case, res),
            'nhit': sum(1 for t in toks if t.startswith('H'))}


def _examine_many(cases):
    out = [_examine(c) for c in cases]
    if out:
        out[-1]['cov'] = cov_snapshot()
    return out


def _fails_with(case, sig):
    try:
        return any(s == sig for _, s in _examine(case)['bad'])
    except common.HarnessError:
        raise
    except Exception:
        return False


def shrink_case(case, pred):
    ops = common.shrink_list(case['ops'], lambda ops: pred({'cfg': case['cfg'], 'ops': ops}), max_rounds=60)
    return {'cfg': case['cfg'], 'ops': ops}


def check_cases(ctx, cases, compare=True, procs=None):
    if not cases:
        return
    if procs and procs > 1 and len(cases) >= 4 * procs:
        k = (len(cases) + procs * 4 - 1) // (procs * 4)
        chunks = [cases[i:i + k] for i in range(0, len(cases), k)]
        results = [r for chunk in common.parallel_map(_examine_many, chunks, procs=procs) for r in chunk]
    else:
        results = _examine_many(cases)
    for r in results:
        cov_merge(r.pop('cov', None))
    lines = [model_line(c) for c in cases]
    model_out = ctx.model(lines) if compare else None
    reported = set()
    for idx, (case, r) in enumerate(zip(cases, results)):
        if r.get('skipped'):
            ctx.count('skipped-after-hangs')
            continue
        ctx.case(case, nontrivial=r['nhit'] > 0, key=lines[idx])
        ctx.count('ops:%02d-%02d' % (len(case['ops']) // 10 * 10, len(case['ops']) // 10 * 10 + 9))
        for t in r['toks']:
            if t != '-':
                ctx.count('outcome:' + {'H': 'hit', 'M': 'handler', 'N': 'not-modified-from-cache',
                                        'P': 'precondition-failed-on-cached'}.get(t[0], t))
        for op in case['ops']:
            if op[0] == 'R':
                ctx.count('method:' + op[1])
                ctx.count('vary:%d' % len(op[7]['vary']))
                pl = op[7]
                if pl.get('mode'):
                    ctx.count('handler:%s%s%s%s' % (pl['mode'], ':stream' if pl.get('stream') else '',
                                                    ':fail@%s' % pl['fail_at'] if pl.get('fail_at') is not None else '',
                                                    ':abandon' if pl.get('abandon') is not None else ''))
                if op[6]:
                    toks = otokens(_raw(op[6]))
                    ctx.count('cc:' + ('malformed' if toks is None else 'max-age' if any(v.startswith('max-age') for v in toks)
                                       else (toks[0] if toks[0] in ('no-cache', 'no-store') else 'other')))
                    if isinstance(op[6], str):
                        ctx.count('cc:wire-spelling')
                if op[5]:
                    ctx.count('pragma' + (':wire-spelling' if isinstance(op[5], str) else ''))
                if pl.get('vary_raw') is not None:
                    ctx.count('vary:wire-spelling' + (':star' if '*' in pl['vary_raw'] else ''))
                if pl.get('lastmod'):
                    ctx.count('resp:last-modified')
                if case['cfg'].get('expires') is not None:
                    ctx.count('tools.expires:secs=%s%s' % (case['cfg']['expires']['secs'],
                                                           ':force' if case['cfg']['expires']['force'] else ''))
                for hn in op[4]:
                    if hn.lower().startswith('if-'):
                        ctx.count('req:' + hn.lower())
            else:
                ctx.count('op:' + op[0])
        for what, sig in r['bad']:
            if sig in reported:
                ctx.oracle_fail(case, what, sig)
                continue
            reported.add(sig)
            small = case
            if ctx.match_known(sig) is None and len(case['ops']) > 3:
                small = shrink_case(case, lambda c, s=sig: _fails_with(c, s))
                w2 = [w for w, s in _examine(small)['bad'] if s == sig]
                what = w2[0] if w2 else what
            ctx.oracle_fail(small, what, sig)
        if model_out is not None:
            ctx.compared()
            mtoks, mtail, mseq = canon_model(model_out[idx])
            if mseq != 'ok':
                ctx.disagree(case, ' '.join(mtoks) + ' ' + mtail, mseq,
                             'the interleaving model under the sequential schedule differs from the sequential model')
            if r['bad']:
                continue          # the oracle already speaks for this case
            if mtoks != r['toks'] or mtail != r['tail']:
                first = next((i for i, (a, b) in enumerate(zip(r['toks'], mtoks)) if a != b), None)
                what = ('cache outcomes differ (first at op %s of the unshrunk history)' % first
                        if first is not None else 'final cache accounting (cursize / stored responses) differs')
                if len(ctx.disagreements) == 0:
                    small = shrink_case(case, lambda c: _differs(ctx, c))
                    rs = _examine(small)
                    ms = canon_model(ctx.model([model_line(small)])[0])
                    ctx.disagree(small, ' '.join(rs['toks']) + ' ' + rs['tail'], ' '.join(ms[0]) + ' ' + ms[1], what)
                else:
                    ctx.disagree(case, ' '.join(r['toks']) + ' ' + r['tail'], ' '.join(mtoks) + ' ' + mtail, what)


def _differs(ctx, case):
    try:
        r = _examine(case)
        if r['bad']:
            return False
        m = canon_model(ctx.model([model_line(case)])[0])
        return m[0] != r['toks'] or m[1] != r['tail'] or m[2] != 'ok'
    except common.HarnessError:
        raise
    except Exception:
        return False


def corpus_cases():
    d = os.path.join(common.CORPUS, PROPERTY)
    out = []
    if os.path.isdir(d):
        for f in sorted(os.listdir(d)):
            if f.endswith('.json'):
                out.append(json.load(open(os.path.join(d, f))))
    return out


def witness_case(e):
    w = e.get('witness', {})
    if 'ops' in w:
        return {'cfg': w['cfg'], 'ops': w['ops']}
    if 'vary' in w and 'first' in w:       # the F15 record written before this harness existed
        plan = {'vary': w['vary'], 'size': 12, 'ns': False, 'pnc': False}
        return {'cfg': {'delay': 10, 'maxobjects': 1000, 'maxobj_size': 100000, 'maxsize': 10000000},
                'ops': [['R', 'GET', '/a', '', w['first'], None, None, plan],
                        ['R', 'GET', '/a', '', w['second'], None, None, plan]]}
    return None


# ----------------------------------------------------------------------------------------------
# every function of CpModel.CacheHdr / the conditional stage against the live function, on generated inputs
# ----------------------------------------------------------------------------------------------
class _Obj:
    pass


def _live_values(v):
    from cherrypy.lib import httputil
    return sorted(e.value for e in httputil.header_elements('Cache-Control', v))


def _live_validate_since(method, ims, ius, lm):
    env = _Env.get()
    cp = env.cherrypy
    from cherrypy.lib import cptools, httputil
    req, resp = _Obj(), _Obj()
    req.method = method
    req.headers = httputil.HeaderMap()
    if ims:
        req.headers['If-Modified-Since'] = ims
    if ius:
        req.headers['If-Unmodified-Since'] = ius
    resp.headers = httputil.HeaderMap()
    resp.status = ''                 # as it still is when caching.get calls validate_since
    if lm:
        resp.headers['Last-Modified'] = lm
    old = (getattr(cp.serving, 'request', None), getattr(cp.serving, 'response', None))
    cp.serving.request, cp.serving.response = req, resp
    try:
        cptools.validate_since()
        return 'serve'
    except cp.HTTPRedirect as e:
        return str(e.status)
    except cp.HTTPError as e:
        return str(e.status)
    finally:
        cp.serving.request, cp.serving.response = old


def _live_expires(secs, force, http11, bits, as_delta):
    import datetime
    env = _Env.get()
    cp = env.cherrypy
    from cherrypy.lib import httputil
    req, resp = _Obj(), _Obj()
    req.protocol = (1, 1) if http11 else (1, 0)
    resp.headers = httputil.HeaderMap()
    resp.time = 1000000.0
    names = ['Etag', 'Last-Modified', 'Age', 'Expires', 'Pragma', 'Cache-Control']
    for i, n in enumerate(names):
        if bits >> i & 1:
            resp.headers[n] = 'orig'
    old = (getattr(cp.serving, 'request', None), getattr(cp.serving, 'response', None))
    cp.serving.request, cp.serving.response = req, resp
    try:
        env.caching.expires(secs=datetime.timedelta(seconds=secs) if as_delta else secs, force=force)
    finally:
        cp.serving.request, cp.serving.response = old
    h = resp.headers
    pr = 1 if h.get('Pragma') == 'no-cache' else 0
    cc = 1 if h.get('Cache-Control') == 'no-cache, must-revalidate' else 0
    ex = h.get('Expires')
    if ex == ('orig' if bits >> 3 & 1 else None):
        d = 'none'
    elif ex == httputil.HTTPDate(1169942400.0):
        d = 'past'
    elif ex == httputil.HTTPDate(resp.time + secs):
        d = '+%d' % secs
    else:
        d = 'other:%r' % (ex,)
    return '%d%d:%s' % (pr, cc, d)


def gen_function_inputs(rng, n):
    """(driver line, thunk computing the live answer) pairs."""
    out = []
    alpha = 'abno-cachestrmxg=;,", \t\\019' + '\x0b\xa0\x85'
    toks = ['no-cache', 'no-store', 'max-age=5', 'max-age=0', 'private', 'x="a,b"', 'X-A', 'x-b', '*', 'foo;q=1']
    for i in range(n):
        k = i % 5
        if k == 0:
            if rng.random() < 0.6:
                v = render_list(rng, rng.sample(toks, rng.randint(1, 4)))
            else:
                v = ''.join(rng.choice(alpha) for _ in range(rng.randint(0, 14)))
            out.append(('HV:' + hexs(v), lambda v=v: ','.join(hexs(x) for x in _live_values(v)) or '_', 'values'))
        elif k == 1:
            v = ''.join(rng.choice('abzABZ09-_* .xX') for _ in range(rng.randint(0, 10)))
            out.append(('TI:' + hexs(v), lambda v=v: hexs(v.title()), 'title'))
        elif k == 2:
            v = ''.join(rng.choice(' \t\n\x0b\x0c\r\x1c\x1f\x85\xa0ab\x00\x7f\xad') for _ in range(rng.randint(0, 8)))
            out.append(('ST:' + hexs(v), lambda v=v: hexs(v.strip()), 'strip'))
        elif k == 3:
            method = rng.choice(['GET', 'HEAD', 'PATCH', 'OPTIONS', 'get'])
            vals = [''] * 2 + LASTMODS + ['garbage']
            ims, ius, lm = rng.choice(vals), rng.choice(vals), rng.choice(vals)
            out.append(('VS:%s:%s:%s:%s' % (hexs(method), hexs(ims), hexs(ius), hexs(lm)),
                        lambda a=(method, ims, ius, lm): _live_validate_since(*a), 'validate_since'))
        else:
            secs = rng.choice([0, 0, 1, 60, 3600, -5, 86400 * 2])
            force, h11, bits = rng.random() < 0.4, rng.random() < 0.7, rng.randrange(64)
            as_delta = rng.random() < 0.3 and secs >= 0
            out.append(('EX:%d:%d:%d:%d' % (secs, force, h11, bits),
                        lambda a=(secs, force, h11, bits, as_delta): _live_expires(*a), 'expires'))
    return out


def check_functions(ctx, n):
    items = gen_function_inputs(ctx.rng, n)
    # exhaustive part: the expires tool over all presence combinations x secs in {0, 60} x force x protocol
    for secs in (0, 60):
        for force in (False, True):
            for h11 in (False, True):
                for bits in range(64):
                    items.append(('EX:%d:%d:%d:%d' % (secs, force, h11, bits),
                                  lambda a=(secs, force, h11, bits, False): _live_expires(*a), 'expires'))
    out = ctx.model([l for l, _, _ in items])
    for (line, thunk, what), mo in zip(items, out or [None] * len(items)):
        try:
            live = thunk()
        except Exception as e:        # an exception of the code under test is an observation
            live = 'EXC:' + type(e).__name__
        if line.startswith('HV:') and mo is not None and mo != '_':
            mo = ','.join(sorted(mo.split(','), key=lambda h: bytes.fromhex(h) if h != '-' else b''))
        case = {'function': what, 'line': line}
        ctx.case(case, nontrivial=True, key=line)
        ctx.count('fn:' + what)
        if mo is not None:
            ctx.compared()
            if mo != live:
                ctx.disagree(case, live, mo, 'model function %s differs from the live function' % what)


# ----------------------------------------------------------------------------------------------
# tables regenerated from the live modules
# ----------------------------------------------------------------------------------------------
def _lean_str(s):
    return '[' + ', '.join("'%s'" % c for c in s) + ']'


def _int_attr(obj, name):
    try:
        return max(0, int(getattr(obj, name)))
    except Exception:
        return 0


def tables(ctx):
    import inspect
    from cherrypy.lib import caching
    try:
        inv = tuple(inspect.signature(caching.get).parameters['invalid_methods'].default)
    except Exception:
        inv = ()          # no such default any more: the theorem about the table (POST, PUT, DELETE in it) fails
    inv = tuple(m for m in inv if isinstance(m, str) and m.isascii() and m.isalnum())
    mc = caching.MemoryCache
    # behavioural probe: does the sweep remove an expired variant of a resource with a non-empty Vary?
    plan = {'vary': ['X-A'], 'size': 12, 'ns': False, 'pnc': False}
    probe = {'cfg': {'delay': 1, 'maxobjects': 1000, 'maxobj_size': 100000, 'maxsize': 10000000},
             'ops': [['R', 'GET', '/probe', '', {'X-A': 'p'}, None, None, plan], ['T', 2 * TPS], ['S']]}
    res = run_history(probe)
    by_names = bool(res['final'] and res['final']['vals'] == 1)
    # behavioural probe: is the store key injective in (path, query)?  '/probe?x' + '' against '/probe' + 'x'
    plan0 = {'vary': [], 'size': 12, 'ns': False, 'pnc': False}
    res = run_history({'cfg': probe['cfg'], 'ops': [['R', 'GET', '/probe?x', '', {}, None, None, plan0],
                                                    ['R', 'GET', '/probe', 'x', {}, None, None, plan0]]})
    key_escapes = res['obs'][1]['handler_gen'] is not None
    src = '''/- GENERATED by harness/c15.py from the live cherrypy.lib.caching / cherrypy._cptools; do not edit. -/
namespace CpModel.Gen.C15

/-- default of `caching.get(invalid_methods=...)` -/
def invalidMethods : List (List Char) := [%s]

/-- `MemoryCache` class attributes -/
def defaultDelay : Nat := %d
def defaultMaxobjects : Nat := %d
def defaultMaxobjSize : Nat := %d
def defaultMaxsize : Nat := %d

/-- probed: does an expired entry of a resource with a non-empty Vary survive the sweep because
    `put` records the selecting header NAMES as the key to delete? -/
def sweepKeyIsNames : Bool := %s

/-- code points below 256 for which `str.isspace()` holds (what `str.strip()` removes) -/
def pyWhitespace : List Nat := [%s]

/-- probed: does the store key keep a decoded path containing `?` apart from the shorter path with a query
    string (the path's `%%` and `?` percent-encoded in the key)? -/
def keyEscapesPath : Bool := %s

end CpModel.Gen.C15
''' % (', '.join(_lean_str(m) for m in inv), _int_attr(mc, 'delay'), _int_attr(mc, 'maxobjects'),
       _int_attr(mc, 'maxobj_size'), _int_attr(mc, 'maxsize'), 'true' if by_names else 'false',
       ', '.join(str(c) for c in range(256) if chr(c).isspace()), 'true' if key_escapes else 'false')
    return {'CpModel/Gen/C15Tables.lean': src}


# ----------------------------------------------------------------------------------------------
def run(ctx):
    cov_start()
    try:
        _run(ctx)
    finally:
        cov_report(ctx)


def _run(ctx):
    for e in ctx.known:
        c = witness_case(e)
        if c is not None:
            check_cases(ctx, [c])
    check_cases(ctx, [c for c in corpus_cases() if 'stampede' not in c and 'conc' not in c])
    check_conc(ctx, [stampede_to_conc(c['stampede']) for c in corpus_cases() if 'stampede' in c])
    procs = min(ctx.budget(8, 16), os.cpu_count() or 4)
    check_functions(ctx, ctx.budget(1500, 40000))
    # interleavings: real request threads + the real expiry thread, one shared-state access per step, every
    # step's shared state compared with CpModel.CacheConc
    cc = [c for c in corpus_cases() if 'conc' in c]
    check_conc(ctx, [c['conc'] for c in cc], expects=[c.get('expect') or [] for c in cc])
    nconc = ctx.budget(600, 40000)
    done = 0
    while done < nconc:
        m = min(4000, nconc - done)
        check_conc(ctx, [gen_conc(ctx.rng) for _ in range(m)], procs=procs)
        done += m
        if ctx.oracle_failures or len(ctx.disagreements) > 3:
            break
    n = ctx.budget(2000, 150000)
    done = 0
    while done < n:
        m = min(6000, n - done)
        cases = [gen_case(ctx.rng, long=(i % 7 == 6)) for i in range(m)]
        check_cases(ctx, cases, procs=procs)
        done += m
        if ctx.oracle_failures or len(ctx.disagreements) > 3:
            break


def search(ctx, around=None):
    """Deeper oracle-only hunt (called when the proof or the correspondence broke)."""
    procs = min(16, os.cpu_count() or 4)
    cases = []
    if around is not None and 'conc' not in around and 'cfg' not in around:
        around = None          # a function-level difference: hunt over everything
    if around is not None and 'conc' in around:
        # the disagreement was found under an interleaving: hunt there first (same configuration, then any)
        scns = []
        for i in range(3000):
            sc = gen_conc(ctx.rng)
            if i % 2 == 0:
                sc['cfg'] = dict(around['conc']['cfg'])
                sc['waits'] = around['conc']['waits']
            scns.append(sc)
        check_conc(ctx, scns, procs=procs, compare=False)
        around = None
        if ctx.oracle_failures:
            return
    if around is not None:
        # the neighbourhood of the disagreement: same configuration and URL/header alphabet, new histories
        for i in range(2000):
            c = gen_case(ctx.rng, long=(i % 2 == 0))
            c['cfg'] = dict(around['cfg'])
            cases.append(c)
    cases += [gen_case(ctx.rng, long=(i % 3 == 0)) for i in range(6000)]
    check_cases(ctx, cases, compare=False, procs=procs)


def replay(ctx, case):
    if 'function' in case:
        m = ctx.model([case['line']])
        print('line :', case['line'])
        print('model:', m[0] if m else None)
        return
    if 'stampede' in case:
        case = {'conc': stampede_to_conc(case['stampede'])}
    if 'conc' in case:
        scn = case['conc']
        r = _examine_conc(scn)
        m = ctx.model([conc_line(scn, r['acts'])])
        msn = m[0].split(' ') if m else []
        for i, a in enumerate(r['acts']):
            print('act %2d %-8s impl : %s' % (i, a, r['snaps'][i]))
            if i < len(msn) and msn[i] != r['snaps'][i]:
                print('%16s model: %s' % ('', msn[i]))
        check_conc(ctx, [scn])
        return
    if 'stampede' in case:
        case = {'conc': stampede_to_conc(case['stampede'])}
    res = run_history(case)
    toks, tail = canon_real(res)
    print('history:', model_line(case))
    print('impl   :', ' '.join(toks), tail)
    m = ctx.model([model_line(case)])
    if m:
        print('model  :', m[0])
    check_cases(ctx, [case])
