"""C16 - which lines of the anchored functions the run executes.

`sys.monitoring` LINE events restricted to the code objects of the functions the property is anchored in (Range
parsing, static serving, the validators, the 304 / error response builders, finalize, the header-element parser);
every location reports once and is then disabled, so the cost is negligible.  The lines that never ran end up in
ctx.extra['anchored_lines_not_executed'].
"""
import linecache
import os
import sys
import types

# (module, [qualified names]); a class name stands for all its functions
ANCHORED = [
    ('cherrypy.lib.httputil', ['get_ranges', '_get_ranges', '_range_pos', 'header_elements', 'HeaderElement.parse',
                               'HeaderElement.from_str', 'HeaderElement.__str__', 'HeaderElement.__lt__',
                               'HeaderMap.elements']),
    ('cherrypy._private_api.compat.headers', ['parse_header', '_parse_param']),
    ('cherrypy.lib.static', ['serve_file', 'serve_fileobj', '_serve_fileobj', 'staticdir', '_attempt']),
    ('cherrypy.lib', ['file_generator_limited']),
    ('cherrypy.lib.cptools', ['validate_etags', 'validate_since']),
    ('cherrypy._cperror', ['HTTPRedirect.set_response', 'HTTPError.set_response', 'clean_headers']),
    ('cherrypy._cprequest', ['Response.finalize', 'Response.collapse_body', 'Response._flush_body']),
]


# parts of an anchored function that belong to other properties: (qualified name, first line contains, up to but
# excluding the line that contains | None = one line, why)
EXCLUDED = [
    ('HTTPRedirect.set_response', "response.headers['Content-Type'] = 'text/html;charset=utf-8'", 'elif status == 304:',
     'redirect statuses 300-308'),
    ('HTTPRedirect.set_response', 'elif status == 305:', None, 'status 305 and unknown statuses'),
    ('header_elements', 'AcceptElement.from_str(element)', '', 'Accept* / TE headers'),
]


def _excluded_lines(code):
    """line numbers of `code` covered by EXCLUDED"""
    out = {}
    try:
        lines, first = linecache.getlines(code.co_filename), code.co_firstlineno
    except Exception:
        return out
    last = max([l for _, _, l in code.co_lines() if l is not None] or [first])
    for qn, start, stop, why in EXCLUDED:
        if code.co_qualname != qn:
            continue
        inside = False
        for ln in range(first, last + 1):
            text = lines[ln - 1] if ln - 1 < len(lines) else ''
            if not inside and start in text:
                inside = True
                if stop == '':
                    out[ln] = why
                    inside = False
                    continue
            elif inside and stop is not None and stop in text:
                inside = False
            if inside:
                out[ln] = why
    return out


def _funcs(obj):
    if isinstance(obj, (classmethod, staticmethod)):
        obj = obj.__func__
    if isinstance(obj, property):
        return [f for f in (obj.fget, obj.fset, obj.fdel) if f is not None]
    if isinstance(obj, types.FunctionType):
        return [obj]
    if isinstance(obj, type):
        out = []
        for v in vars(obj).values():
            out += _funcs(v)
        return out
    w = getattr(obj, '__wrapped__', None)
    if isinstance(w, types.FunctionType):
        return [w]
    return []


class Coverage(object):
    def __init__(self):
        import importlib
        self.codes = {}
        self.hit = set()
        self.tid = None
        self.missing_anchors = []
        for modname, names in ANCHORED:
            try:
                mod = importlib.import_module(modname)
            except Exception:
                self.missing_anchors.append(modname)
                continue
            for qn in names:
                obj = mod
                try:
                    for part in qn.split('.'):
                        obj = vars(obj)[part] if isinstance(obj, type) else getattr(obj, part)
                except (AttributeError, KeyError):
                    self.missing_anchors.append('%s.%s' % (modname, qn))
                    continue
                fs = _funcs(obj)
                if not fs:
                    self.missing_anchors.append('%s.%s' % (modname, qn))
                for f in fs:
                    self._code(f.__code__)

    def _code(self, code):
        if code in self.codes:
            return
        self.codes[code] = True
        for c in code.co_consts:
            if isinstance(c, types.CodeType):
                self._code(c)

    def executable(self):
        out = set()
        self.excluded = {}
        for code in self.codes:
            skip = _excluded_lines(code)
            for _, _, line in code.co_lines():
                if line is not None and line != code.co_firstlineno:
                    if line in skip:
                        self.excluded[skip[line]] = self.excluded.get(skip[line], 0) + 1
                        continue
                    out.add((code.co_filename, line, code.co_qualname))
        return out

    def _line(self, code, line):
        self.hit.add((code.co_filename, line))
        return sys.monitoring.DISABLE

    def start(self):
        mon = getattr(sys, 'monitoring', None)
        if mon is None:
            return False
        for tid in (4, 3, 5, 2):
            try:
                mon.use_tool_id(tid, 'c16-cov')
            except ValueError:
                continue
            self.tid = tid
            break
        if self.tid is None:
            return False
        mon.register_callback(self.tid, mon.events.LINE, self._line)
        for code in self.codes:
            mon.set_local_events(self.tid, code, mon.events.LINE)
        return True

    def stop(self):
        if self.tid is None:
            return
        mon = sys.monitoring
        try:
            for code in self.codes:
                mon.set_local_events(self.tid, code, 0)
            mon.register_callback(self.tid, mon.events.LINE, None)
            mon.free_tool_id(self.tid)
        except ValueError:
            pass
        self.tid = None

    def hits(self):
        return sorted(self.hit)

    def add_hits(self, hits):
        for f, l in hits:
            self.hit.add((f, l))

    def report(self, ctx):
        ex = self.executable()
        missed = sorted((f, l, q) for f, l, q in ex if (f, l) not in self.hit)
        lines = []
        for f, l, q in missed:
            src = linecache.getline(f, l).strip()
            rel = f.split(os.sep + 'cherrypy' + os.sep, 1)[-1]
            lines.append('%s:%d %s: %s' % (rel, l, q, src[:100]))
        ctx.extra['anchored_lines_executable'] = len(ex)
        ctx.extra['anchored_lines_executed'] = len(ex) - len(missed)
        ctx.extra['anchored_lines_not_executed'] = lines
        ctx.extra['anchored_lines_out_of_scope'] = dict(sorted(self.excluded.items()))
        if self.missing_anchors:
            ctx.extra['anchored_functions_not_found'] = self.missing_anchors
        ctx.count('anchored_lines_not_executed', len(lines))
        ctx.count('anchored_lines_executable', len(ex))


_current = {'cov': None}


def start():
    cov = Coverage()
    if cov.start():
        _current['cov'] = cov
    return cov


def current():
    return _current['cov']


def stop():
    cov = _current['cov']
    if cov is not None:
        cov.stop()
    _current['cov'] = None
    return cov
