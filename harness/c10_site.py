"""C10 - generated sites, probe handlers/hooks/tools, mutate ops and introspection snapshots.

Everything here runs the REAL cherrypy code in-process.  A *site* is a list of applications (own
root tree, own per-path config, optionally an own toolbox); a *plan* describes one WSGI call
(app, path, kind, token, mutate ops per stage, park points).  The probe handler / probe hooks find
the plan of the call they run in through a harness-side `threading.local` (the ground truth) and
report what cherrypy's own thread-local machinery (`cherrypy.request`, `cherrypy.response`,
`cherrypy.serving`) shows them.
"""
import io
import json
import re
import sys
import threading

from . import common  # noqa: F401  (sets sys.path for CHERRYPY_REPO before cherrypy is imported)

import cherrypy
from cherrypy import _cprequest, _cpreqbody, _cptree, _cpwsgi, _cptools

cherrypy.config.update({'environment': 'test_suite', 'log.screen': False})

CUR = threading.local()          # .plan, .rec : ground truth of "which call runs on this thread"
EVENTS = []                      # global order of (kind, token, ...) events of the running case (baton => total order)

HOOKPOINTS = list(_cprequest.hookpoints)
TOKEN_RE = re.compile(r'(?i)[tm]k(\d{3})k')


def token_of(n):
    return 'tk%03dk' % n


def marker_of(n, k):
    return 'mk%03dkx%d' % (n, k)


# ------------------------------------------------------------------------------------------------
# named no-op callbacks / error pages / processors used by generated configs
# ------------------------------------------------------------------------------------------------
def _mk_cb(name):
    def cb(**kw):
        return None
    cb.__name__ = cb.c10name = name
    return cb


CBS = {('cb%d' % i): _mk_cb('cb%d' % i) for i in range(6)}


def _mk_ep(name):
    def ep(status, message, traceback, version):
        return 'errpage %s %s %s' % (name, status, message)
    ep.__name__ = ep.c10name = name
    return ep


EPS = {('ep%d' % i): _mk_ep('ep%d' % i) for i in range(3)}


def _mk_proc(name):
    def proc(entity):
        maybe_fault('processor')
        data = entity.fp.read()
        cherrypy.serving.request.c10_body = '%s:%s' % (name, data.decode('latin-1'))
    proc.__name__ = proc.c10name = name
    return proc


PROCS = {('proc%d' % i): _mk_proc('proc%d' % i) for i in range(3)}


class MarkerCallback(object):
    """A hook callback attached by a mutate op; journals where it runs."""

    def __init__(self, marker, owner_token):
        self.c10name = self.__name__ = marker
        self.owner = owner_token

    def __call__(self, **kw):
        rec = getattr(CUR, 'rec', None)
        if rec is not None:
            rec['hook_runs'].append((self.c10name, self.owner))


# Custom tools (registered once on the default toolbox: process-level setup, done before the
# pristine class-level fingerprint is taken).
def _tool_start(tag='t0'):
    cherrypy.serving.response.headers['X-C10-T0'] = str(tag)


def _tool_proc(which='proc0', ct='application/x-c10-0'):
    cherrypy.serving.request.body.processors[ct] = PROCS[which]


def _tool_handler(tag='t2'):
    cherrypy.serving.request.c10_t2 = str(tag)


def _tool_final(name='X-C10-T3', value='t3'):
    cherrypy.serving.response.headers[name] = str(value)


for _f, _n in ((_tool_start, 'c10t0'), (_tool_proc, 'c10t1'), (_tool_handler, 'c10t2'), (_tool_final, 'c10t3')):
    _f.__name__ = _f.c10name = _n
if not hasattr(cherrypy.tools, 'c10t0'):
    cherrypy.tools.c10t0 = _cptools.Tool('on_start_resource', _tool_start, priority=40)
    cherrypy.tools.c10t1 = _cptools.Tool('before_request_body', _tool_proc, priority=45)
    cherrypy.tools.c10t2 = _cptools.Tool('before_handler', _tool_handler, priority=55)
    cherrypy.tools.c10t3 = _cptools.Tool('before_finalize', _tool_final, priority=60)


class C10MW(object):
    """Pass-through WSGI middleware some generated applications put into their own pipeline."""
    c10name = 'C10MW'

    def __init__(self, nextapp, tag=None):
        self.nextapp, self.tag = nextapp, tag

    def __call__(self, environ, start_response):
        if environ.get('PATH_INFO', '').endswith('/mwfail'):
            # fails before any request object exists: only the ExceptionTrapper can answer
            raise ValueError('c10 middleware failure')
        prev, mine = environ.get('c10.mw', ''), '|' + str(self.tag)
        environ['c10.mw'] = prev if prev.endswith(mine) else prev + mine     # an internal redirect passes here again
        return self.nextapp(environ, start_response)


def _tb_tool(tag='tb'):
    cherrypy.serving.request.c10_tb = str(tag)


_tb_tool.__name__ = _tb_tool.c10name = 'c10tbtool'


# ------------------------------------------------------------------------------------------------
# faults: a plan may say that a callback site of the request lifecycle raises ({'at': site, 'exc': kind})
# ------------------------------------------------------------------------------------------------
FAULT_SITES = ['hook:' + p for p in _cprequest.hookpoints] + ['body', 'bodyclose', 'close', 'close_before',
                                                              'error_response', 'tool_setup', 'processor',
                                                              'bus:before_request', 'bus:after_request']
FAULT_EXCS = ['value', 'httperror', 'redirect', 'iredirect', 'base']


class C10BaseFault(BaseException):
    """Neither an Exception nor KeyboardInterrupt / SystemExit: nothing in the framework catches it by name."""


def fault_for(at):
    """The fault the running call's plan schedules for callback site `at`, or None."""
    plan, rec = getattr(CUR, 'plan', None), getattr(CUR, 'rec', None)
    if not plan or rec is None:
        return None
    for f in plan.get('faults') or ():
        if f['at'] == at:
            if f['exc'] == 'iredirect' and rec.get('sub', 0) > 0:
                continue            # an internal redirect raised again by the sub-request would only loop
            return f
    return None


def raise_fault(f):
    plan, rec = CUR.plan, CUR.rec
    rec['faults_fired'].append(f['at'])
    EVENTS.append(('F', plan['token'], rec.get('sub', 0), f['at']))
    kind, where = f['exc'], '%s for %s' % (f['at'], plan['token'])
    if kind == 'httperror':
        raise cherrypy.HTTPError(409, 'c10 fault at ' + where)
    if kind == 'redirect':
        raise cherrypy.HTTPRedirect('/c10-elsewhere?token=%s' % plan['token'])
    if kind == 'iredirect':
        raise cherrypy.InternalRedirect(plan.get('redirect_to') or '/', 'token=%s&via=fault' % plan['token'])
    if kind == 'base':
        raise C10BaseFault('c10 fault at ' + where)
    raise ValueError('c10 fault at ' + where)


def maybe_fault(at):
    f = fault_for(at)
    if f is not None:
        raise_fault(f)


def _mk_fault_hook(point):
    def hook(**kw):
        maybe_fault('hook:' + point)
    hook.__name__ = hook.c10name = 'c10fault_' + point
    return hook


FAULT_HOOKS = {p: _mk_fault_hook(p) for p in _cprequest.hookpoints}


def _tool_noop():
    pass


_tool_noop.__name__ = _tool_noop.c10name = 'c10tf'


class FaultTool(_cptools.Tool):
    """A tool whose attachment to the request (`_setup`, run by the `tools` namespace when the request's config
    is applied) may fail."""

    def _setup(self):
        maybe_fault('tool_setup')
        _cptools.Tool._setup(self)


if not hasattr(cherrypy.tools, 'c10tf'):
    cherrypy.tools.c10tf = FaultTool('before_handler', _tool_noop, priority=56)


def _tool_err(tag='e0'):
    """The callable of an ErrorTool: answers for the failed request, saying which settings it was called with."""
    resp = cherrypy.serving.response
    resp.status = 500
    resp.headers['Content-Type'] = 'text/plain'
    resp.headers.pop('Content-Length', None)
    tok = CUR.plan['token'] if getattr(CUR, 'plan', None) else 'NONE'
    resp.body = ('errtool tag=%s token=%s' % (tag, tok)).encode('latin-1')


def _tool_h(tag='h0'):
    """The callable of a HandlerTool (runs at before_handler, does not take the request over)."""
    cherrypy.serving.response.headers['X-C10-H'] = str(tag)
    return False


_tool_err.__name__ = _tool_err.c10name = 'c10err'
_tool_h.__name__ = _tool_h.c10name = 'c10h'
if not hasattr(cherrypy.tools, 'c10err'):
    cherrypy.tools.c10err = _cptools.ErrorTool(_tool_err)
    cherrypy.tools.c10h = _cptools.HandlerTool(_tool_h)


def c10_error_response():
    """request.error_response of sites with the `errresp` flag: what Request.run installs, or a fault."""
    maybe_fault('error_response')
    cherrypy.HTTPError(500).set_response()


c10_error_response.c10name = 'c10_error_response'


class C10Request(_cprequest.Request):
    """request_class of applications with the `reqclass` flag: close() may fail (before or after the hooks)."""

    def close(self):
        maybe_fault('close_before')
        _cprequest.Request.close(self)
        maybe_fault('close')


def _bus_before_request():
    maybe_fault('bus:before_request')


def _bus_after_request():
    maybe_fault('bus:after_request')


# process-level setup (like the tools above): two engine listeners that do nothing unless a plan says so
if not getattr(cherrypy.engine, '_c10_listeners', False):
    cherrypy.engine.subscribe('before_request', _bus_before_request)
    cherrypy.engine.subscribe('after_request', _bus_after_request)
    cherrypy.engine._c10_listeners = True


class FaultIter(object):
    """A streamed body whose close() fails (the iterator is what AppResponse.close closes after the release)."""

    def __init__(self, it):
        self.it = it

    def __iter__(self):
        return self

    def __next__(self):
        return next(self.it)

    def close(self):
        self.it.close()
        maybe_fault('bodyclose')


# ------------------------------------------------------------------------------------------------
# canonical rendering of values
# ------------------------------------------------------------------------------------------------
def cname(v):
    n = getattr(v, 'c10name', None)
    if n:
        return n
    if isinstance(v, _cptools.Toolbox):
        return 'Toolbox:%s' % v.namespace
    if isinstance(v, _cptools.Tool):
        return 'Tool:%s' % v._name
    if isinstance(v, _cprequest.Hook):
        return canon_hook(v)
    f = getattr(v, '__func__', v)
    n = getattr(f, '__qualname__', None) or getattr(f, '__name__', None)
    if n:
        return 'fn:' + n.replace('<', '').replace('>', '')
    return 'obj:' + type(v).__name__


def canon_hook(h):
    return 'hook:%s:%r:%r:%s' % (cname(h.callback), h.priority, bool(h.failsafe),
                                 canon(dict(h.kwargs)))


def canon(v, depth=0):
    if v is None or isinstance(v, (bool, int, float)):
        return v
    if isinstance(v, str):
        return v
    if isinstance(v, bytes):
        return 'b:' + v.decode('latin-1')
    if depth > 6:
        return 'deep'
    if isinstance(v, dict):
        return {str(canon(k, depth + 1)): canon(x, depth + 1) for k, x in list(v.items())}
    if isinstance(v, (list, tuple)):
        return [canon(x, depth + 1) for x in list(v)]
    if isinstance(v, (set, frozenset)):
        return sorted(json.dumps(canon(x, depth + 1), sort_keys=True) for x in v)
    return cname(v)


def canon_headers(h):
    out = {}
    for k, v in list(dict.items(h)):
        k = str(k)
        out[k] = 'DATE' if k.lower() == 'date' else str(v)
    return out


def canon_cookie(c):
    return {k: m.value for k, m in list(c.items())}


REQ_SCALARS = ['show_tracebacks', 'show_mismatched_params', 'login', 'throw_errors', 'methods_with_bodies',
               'scheme', 'server_protocol', 'protocol', 'method', 'query_string_encoding', 'script_name',
               'path_info', 'base', 'is_index', 'closed', 'error_response', 'dispatch', 'handler', 'prev']
RESP_SCALARS = ['stream', 'status']
BODY_SCALARS = ['maxbytes', 'bufsize', 'default_content_type', 'length', 'part_class']


def slot_objects(req, resp):
    """The per-request collection objects, by slot name (None when the attribute does not exist)."""
    body = getattr(req, 'body', None)
    tm = getattr(req, 'toolmaps', None)
    hooks = getattr(req, 'hooks', None)
    o = {
        'reqObj': req, 'respObj': resp, 'bodyObj': body,
        'reqDict': vars(req), 'respDict': vars(resp),
        'hooks': hooks,
        'errorPage': req.error_page, 'namespaces': req.namespaces, 'toolmaps': tm,
        'toolmapTools': tm.get('tools') if isinstance(tm, dict) else None,
        'params': req.params, 'headers': req.headers, 'headerList': req.header_list,
        'cookie': req.cookie, 'config': req.config,
        'uniqueId': getattr(req, 'unique_id', None), 'local': req.local, 'remote': req.remote,
        'respHeaders': resp.headers, 'respCookie': resp.cookie,
        'respBody': getattr(resp, '_body', None),
    }
    if isinstance(hooks, dict):
        for p in HOOKPOINTS:
            o['hookList.' + p] = hooks.get(p)
    if body is not None:
        o.update({
            'bodyDict': vars(body),
            'processors': body.processors, 'attemptCharsets': body.attempt_charsets,
            'bodyParams': body.params, 'parts': body.parts,
            'bodyHeaders': body.headers, 'requestParams': getattr(body, 'request_params', None),
        })
    return o


def _safe_url():
    """cherrypy.url() as application code sees it (mount point + path of the running request)."""
    try:
        return cherrypy.url()
    except Exception as e:
        return 'ERROR:' + type(e).__name__


def slot_contents(req, resp):
    """Canonical contents of every per-request collection: what a request 'observes'."""
    body = getattr(req, 'body', None)
    hooks = req.hooks
    c = {
        'hooks': {str(p): [canon_hook(h) if isinstance(h, _cprequest.Hook) else cname(h) for h in list(hs)]
                  for p, hs in list(hooks.items())},
        'errorPage': canon(dict(req.error_page)),
        'namespaces': canon(dict(req.namespaces)),
        'toolmaps': canon(req.toolmaps),
        'params': canon(dict(req.params)),
        'headers': canon_headers(req.headers),
        'headerList': canon(list(req.header_list)),
        'cookie': canon_cookie(req.cookie),
        'config': canon(dict(req.config)) if isinstance(req.config, dict) else canon(req.config),
        'local': canon(dict(vars(req.local))), 'remote': canon(dict(vars(req.remote))),
        'respHeaders': canon_headers(resp.headers),
        'respCookie': canon_cookie(resp.cookie),
        'reqAttrs': sorted(vars(req)),
        'respAttrs': sorted(vars(resp)),
        'reqScalars': {k: canon(getattr(req, k, 'ABSENT')) for k in REQ_SCALARS},
        'respScalars': {k: canon(getattr(resp, k, 'ABSENT')) for k in RESP_SCALARS},
        'url': _safe_url(),
        'adhoc': {k: canon(v) for k, v in list(vars(req).items()) if k.startswith('c10_') or 'mk' in k.lower()},
        'respAdhoc': {k: canon(v) for k, v in list(vars(resp).items()) if k.startswith('c10_') or 'mk' in k.lower()},
    }
    if body is not None:
        c.update({
            'processors': canon(dict(body.processors)),
            'attemptCharsets': canon(list(body.attempt_charsets)),
            'bodyParams': canon(dict(body.params)),
            'parts': canon(list(body.parts)),
            'bodyAttrs': sorted(vars(body)),
            'bodyScalars': {k: canon(getattr(body, k, 'ABSENT')) for k in BODY_SCALARS},
            'bodyAdhoc': {k: canon(v) for k, v in list(vars(body).items()) if 'mk' in k.lower()},
        })
    return c


def class_level_objects():
    """Named process-lifetime objects a per-request slot could (wrongly) alias."""
    R, P, E = _cprequest.Request, _cprequest.Response, _cpreqbody.Entity
    A, W = _cptree.Application, _cpwsgi.CPWSGIApp
    dreq, dresp = cherrypy._Serving.request, cherrypy._Serving.response
    o = {
        'Request.hooks': R.hooks, 'Request.error_page': R.error_page, 'Request.namespaces': R.namespaces,
        'Request.toolmaps': R.toolmaps, 'Request.params': R.params, 'Request.headers': R.headers,
        'Request.header_list': R.header_list, 'Request.cookie': R.cookie,
        'Request.local': R.local, 'Request.remote': R.remote,
        'default.request.local': dreq.local, 'default.request.remote': dreq.remote,
        'Response.headers': P.headers, 'Response.cookie': P.cookie, 'Response.header_list': P.header_list,
        'Entity.processors': E.processors, 'Entity.attempt_charsets': E.attempt_charsets,
        'Part.attempt_charsets': _cpreqbody.Part.attempt_charsets,
        'Application.config': A.config, 'Application.namespaces': A.namespaces,
        'Application.toolboxes': A.toolboxes,
        'CPWSGIApp.pipeline': W.pipeline, 'CPWSGIApp.config': W.config,
        'Hook.kwargs': _cprequest.Hook.kwargs,
        'cherrypy.config': cherrypy.config,
        'default.request': dreq, 'default.response': dresp,
        'default.request.dict': vars(dreq), 'default.response.dict': vars(dresp),
        'default.request.error_page': dreq.error_page, 'default.request.namespaces': dreq.namespaces,
        'default.response.headers': dresp.headers, 'default.response.cookie': dresp.cookie,
        'default.response._body': dresp._body,
    }
    for p in list(R.hooks):
        o['Request.hooks.' + str(p)] = R.hooks[p]
    return o


def class_level_fingerprint():
    """Canonical contents of the class-level / process-level state the property says stays untouched."""
    R, P, E = _cprequest.Request, _cprequest.Response, _cpreqbody.Entity
    A, W = _cptree.Application, _cpwsgi.CPWSGIApp
    dreq, dresp = cherrypy._Serving.request, cherrypy._Serving.response
    fp = {
        'Request.hooks': {str(p): [canon_hook(h) if isinstance(h, _cprequest.Hook) else cname(h) for h in hs]
                          for p, hs in R.hooks.items()},
        'Request.error_page': canon(dict(R.error_page)),
        'Request.namespaces': canon(dict(R.namespaces)),
        'Request.toolmaps': canon(R.toolmaps), 'Request.params': canon(R.params),
        'Request.headers': canon_headers(R.headers), 'Request.header_list': canon(R.header_list),
        'Request.cookie': canon_cookie(R.cookie), 'Request.config': canon(R.config),
        'Request.local': canon(dict(vars(R.local))), 'Request.remote': canon(dict(vars(R.remote))),
        'default.request.local': canon(dict(vars(dreq.local))), 'default.request.remote': canon(dict(vars(dreq.remote))),
        'Request.attrs': sorted(k for k in vars(R) if not k.startswith('__')),
        'Request.scalars': {k: canon(vars(R).get(k, 'ABSENT')) for k in REQ_SCALARS},
        'Response.headers': canon_headers(P.headers), 'Response.cookie': canon_cookie(P.cookie),
        'Response.header_list': canon(P.header_list),
        'Response.attrs': sorted(k for k in vars(P) if not k.startswith('__')),
        'Response.scalars': {k: canon(vars(P).get(k, 'ABSENT')) for k in RESP_SCALARS},
        'Entity.processors': canon(dict(E.processors)), 'Entity.attempt_charsets': canon(E.attempt_charsets),
        'Part.attempt_charsets': canon(_cpreqbody.Part.attempt_charsets),
        'Entity.attrs': sorted(k for k in vars(E) if not k.startswith('__')),
        'RequestBody.attrs': sorted(k for k in vars(_cpreqbody.RequestBody) if not k.startswith('__')),
        'RequestBody.scalars': {k: canon(getattr(_cpreqbody.RequestBody, k, 'ABSENT')) for k in BODY_SCALARS},
        'Application.config': canon(A.config), 'Application.namespaces': canon(dict(A.namespaces)),
        'Application.toolboxes': canon(A.toolboxes),
        'CPWSGIApp.pipeline': canon(W.pipeline), 'CPWSGIApp.config': canon(W.config),
        'Hook.kwargs': canon(_cprequest.Hook.kwargs),
        'cherrypy.config': canon(dict(cherrypy.config)),
        'default.request.attrs': sorted(vars(dreq)), 'default.response.attrs': sorted(vars(dresp)),
        'default.request.error_page': canon(dict(dreq.error_page)),
        'default.request.namespaces': canon(dict(dreq.namespaces)),
        'default.response.headers': canon_headers(dresp.headers),
        'default.response.cookie': canon_cookie(dresp.cookie),
        'default.response._body': canon(dresp._body),
        'tools.attrs': sorted(k for k in vars(cherrypy.tools)),
    }
    return fp


# ------------------------------------------------------------------------------------------------
# mutate ops
# ------------------------------------------------------------------------------------------------
# (name, slot it writes to, kind): kind 'add' leaves an own-marker-bearing entry; 'del' removes
# inherited entries; 'set' overrides a scalar attribute.
OPS = {
    'hooks.attach':        ('hookLists', 'add'),
    'hooks.append':        ('hookLists', 'add'),
    'hooks.newpoint':      ('hooks', 'add'),
    'hooks.clearpoint':    ('hookLists', 'del'),
    'processors.set':      ('processors', 'add'),
    'processors.pop':      ('processors', 'del'),
    'processors.clear':    ('processors', 'del'),
    'error_page.set':      ('errorPage', 'add'),
    'error_page.clear':    ('errorPage', 'del'),
    'namespaces.set':      ('namespaces', 'add'),
    'namespaces.pop':      ('namespaces', 'del'),
    'toolmaps.set':        ('toolmaps', 'add'),
    'toolmaps.tools.set':  ('toolmapTools', 'add'),
    'toolmaps.tools.clear': ('toolmapTools', 'del'),
    'params.set':          ('params', 'add'),
    'params.value.append': ('params', 'add'),
    'headers.set':         ('headers', 'add'),
    'header_list.append':  ('headerList', 'add'),
    'cookie.set':          ('cookie', 'add'),
    'config.set':          ('config', 'add'),
    'config.pop':          ('config', 'del'),
    'resp.headers.set':    ('respHeaders', 'add'),
    'resp.headers.pop':    ('respHeaders', 'del'),
    'resp.cookie.set':     ('respCookie', 'add'),
    'charsets.append':     ('attemptCharsets', 'add'),
    'charsets.clear':      ('attemptCharsets', 'del'),
    'body.params.set':     ('bodyParams', 'add'),
    'body.parts.append':   ('parts', 'add'),
    'attr.request':        ('reqDict', 'add'),
    'attr.response':       ('respDict', 'add'),
    'attr.body':           ('bodyDict', 'add'),
    'attr.serving':        ('servingDict', 'add'),
    'remote.ip.set':       ('remote', 'set'),
    'local.name.set':      ('local', 'set'),
    'scalar.show_tracebacks': ('reqDict', 'set'),
    'scalar.show_mismatched': ('reqDict', 'set'),
    'scalar.login':        ('reqDict', 'set'),
    'scalar.methods':      ('reqDict', 'set'),
}
BODY_OPS = {'processors.set', 'processors.pop', 'processors.clear', 'charsets.append', 'charsets.clear',
            'body.params.set', 'body.parts.append', 'attr.body'}
# hook points whose lists the probes do not depend on (safe to clear inside a request)
CLEARABLE_POINTS = ['before_request_body', 'before_handler', 'before_error_response', 'after_error_response']
LATER_POINTS = {'start': ['before_request_body', 'before_handler', 'before_finalize', 'on_end_resource', 'on_end_request',
                          'before_error_response', 'after_error_response'],
                'handler': ['before_finalize', 'on_end_resource', 'on_end_request', 'before_error_response',
                            'after_error_response', 'before_handler'],
                'finalize': ['on_end_resource', 'on_end_request', 'before_handler', 'on_start_resource'],
                'end': ['on_start_resource', 'before_handler', 'before_finalize']}


def apply_op(op, token):
    """Perform one mutate op through cherrypy's thread-local proxies (what application code does)."""
    name, marker, arg = op['op'], op['marker'], op.get('arg')
    req, resp = cherrypy.request, cherrypy.response
    if name == 'hooks.attach':
        req.hooks.attach(arg, MarkerCallback(marker, token), priority=op.get('prio', 50))
    elif name == 'hooks.append':
        req.hooks[arg].append(_cprequest.Hook(MarkerCallback(marker, token), failsafe=True, priority=op.get('prio', 50)))
    elif name == 'hooks.newpoint':
        req.hooks['pt_' + marker] = [_cprequest.Hook(MarkerCallback(marker, token))]
    elif name == 'hooks.clearpoint':
        del req.hooks[arg][:]
    elif name == 'processors.set':
        req.body.processors['application/x-' + marker] = PROCS['proc2']
    elif name == 'processors.pop':
        req.body.processors.pop(arg, None)
    elif name == 'processors.clear':
        req.body.processors.clear()
    elif name == 'error_page.set':
        req.error_page[arg] = '/nonexistent/' + marker
    elif name == 'error_page.clear':
        req.error_page.clear()
    elif name == 'namespaces.set':
        req.namespaces[marker] = CBS['cb0']
    elif name == 'namespaces.pop':
        req.namespaces.pop(arg, None)
    elif name == 'toolmaps.set':
        req.toolmaps[marker] = {'x': {'on': False}}
    elif name == 'toolmaps.tools.set':
        req.toolmaps.setdefault('tools', {})[marker] = {'on': False}
    elif name == 'toolmaps.tools.clear':
        req.toolmaps.get('tools', {}).clear()
    elif name == 'params.set':
        req.params[marker] = token
    elif name == 'params.value.append':      # in place, on the values the framework parsed (repeated keys are lists)
        lists = [v for v in req.params.values() if isinstance(v, list)]
        for v in lists:
            v.append(marker)
        if not lists:
            req.params[marker] = [token]
    elif name == 'headers.set':
        req.headers['X-' + marker] = token
    elif name == 'header_list.append':
        req.header_list.append(('X-' + marker, token))
    elif name == 'cookie.set':
        req.cookie[marker] = token
    elif name == 'config.set':
        req.config[marker] = token
    elif name == 'config.pop':
        req.config.pop(arg, None)
    elif name == 'resp.headers.set':
        resp.headers['X-' + marker] = token
    elif name == 'resp.headers.pop':
        resp.headers.pop(arg, None)
    elif name == 'resp.cookie.set':
        resp.cookie[marker] = token
    elif name == 'charsets.append':
        req.body.attempt_charsets.append(marker)
    elif name == 'charsets.clear':
        del req.body.attempt_charsets[:]
    elif name == 'body.params.set':
        req.body.params[marker] = token
    elif name == 'body.parts.append':
        req.body.parts.append(marker)
    elif name == 'attr.request':
        setattr(req, 'c10_' + marker, token)
    elif name == 'attr.response':
        setattr(resp, 'c10_' + marker, token)
    elif name == 'attr.body':
        setattr(req.body, 'c10_' + marker, token)
    elif name == 'attr.serving':
        setattr(cherrypy.serving, 'c10_' + marker, token)
    elif name == 'remote.ip.set':          # what tools.proxy does with X-Forwarded-For
        req.remote.ip = marker
    elif name == 'local.name.set':
        req.local.name = marker
    elif name == 'scalar.show_tracebacks':
        req.show_tracebacks = False
    elif name == 'scalar.show_mismatched':
        req.show_mismatched_params = False
    elif name == 'scalar.login':
        req.login = marker
    elif name == 'scalar.methods':
        req.methods_with_bodies = ('POST', 'PUT', 'PATCH', marker)
    else:
        raise common.HarnessError('unknown op %r' % name)


# ------------------------------------------------------------------------------------------------
# probes
# ------------------------------------------------------------------------------------------------
def seen_tokens():
    """The call's token as cherrypy's thread-local machinery shows it, through several channels."""
    out = {}
    try:
        if not (getattr(CUR, 'plan', None) or {}).get('rawqs'):
            out['proxy.qs'] = cherrypy.request.query_string
            out['serving.qs'] = cherrypy.serving.request.query_string
        out['proxy.header'] = cherrypy.serving.request.headers.get('X-C10-Token')
        out['environ'] = cherrypy.request.wsgi_environ.get('c10.token')
        out['header'] = cherrypy.request.headers.get('X-C10-Token')
        p = cherrypy.request.params
        if 'token' in p:
            out['params'] = p['token']
        rec = getattr(CUR, 'rec', None) or {}
        # the response is marked by the `start` probe: expected only where that probe ran for this request object
        marked = rec.get('start_ran_for') is cherrypy.serving.request
        out['resp'] = getattr(cherrypy.response, 'c10_owner', None if marked else 'UNMARKED')
        out['mw'] = 'mw' + str(cherrypy.request.wsgi_environ.get('c10.mw'))
    except Exception as e:     # a broken thread-local shows up as an observation, not a harness error
        out['error'] = type(e).__name__
    return out


def snapshot(stage):
    plan, rec = CUR.plan, CUR.rec
    req, resp = cherrypy.serving.request, cherrypy.serving.response
    snap = {'stage': stage, 'seen': seen_tokens(), 'contents': slot_contents(req, resp),
            'serving': sorted(vars(cherrypy.serving))}
    if req is not rec.get('last_req'):          # a new request object on this call (first one, or internal redirect)
        if rec.get('open'):
            EVENTS.append(('D', plan['token'], rec['sub']))
        rec['sub'] = rec.get('sub', -1) + 1
        rec['open'] = True
        rec['last_req'] = req
        EVENTS.append(('B', plan['token'], rec['sub']))
    snap['sub'] = rec.get('sub', 0)
    EVENTS.append(('O', plan['token'], rec.get('sub', 0), len(rec['snaps'])))
    rec['snaps'].append(snap)
    rec['objs'].append((stage, slot_objects(req, resp)))
    return snap


def run_stage(stage):
    """Snapshot, perform this stage's mutate ops, park if the plan says so, snapshot again after ops."""
    plan, rec = CUR.plan, CUR.rec
    if len(rec['snaps']) > 60:           # leaked probe hooks multiply; the controller aborts the case
        return
    if stage == 'start':
        cherrypy.serving.response.c10_owner = plan['token']
        rec['start_ran_for'] = cherrypy.serving.request
    snapshot(stage + ':in')
    ops = [o for o in plan['ops'] if o['stage'] == stage]
    for o in ops:
        try:
            apply_op(o, plan['token'])
            rec['applied'].append(o['marker'])
            if OPS[o['op']][1] != 'add':
                rec.setdefault('first_destructive', len(rec['snaps']) - 1)
            EVENTS.append(('M', plan['token'], rec.get('sub', 0), plan['ops'].index(o), len(rec['snaps']) - 1))
        except common.HarnessError:
            raise
        except Exception as e:
            rec['op_errors'].append((o['op'], type(e).__name__, str(e)[:80]))
    if stage in plan['parks']:
        CUR.park(stage)
    if ops or stage in plan['parks']:
        snapshot(stage + ':out')


def hook_start():
    run_stage('start')


def hook_finalize():
    run_stage('finalize')


def hook_end():
    run_stage('end')


for _f, _n in ((hook_start, 'c10probe_start'), (hook_finalize, 'c10probe_finalize'), (hook_end, 'c10probe_end')):
    _f.__name__ = _f.c10name = _n


def body_echo():
    r = cherrypy.request
    return ('token=%s;proxy=%s;c10body=%s;t2=%s;tb=%s' % (
        CUR.plan['token'], r.params.get('token'), getattr(r, 'c10_body', None),
        getattr(r, 'c10_t2', None), getattr(r, 'c10_tb', None))).encode('latin-1')


def make_node(kind_conf, cls_conf=None, default_conf=None):
    """A node class of the handler tree; `kind_conf` = {handler name: function-level _cp_config},
    `cls_conf` = class-level _cp_config (None: none), `default_conf` = _cp_config of an exposed `default`
    handler (None: no default handler)."""

    class Node(object):
        pass

    def index(self, *a, **kw):
        run_stage('handler')
        cherrypy.response.headers['X-Token'] = cherrypy.request.params.get('token', 'NONE')
        return body_echo()

    def stream(self, *a, **kw):
        run_stage('handler')
        cherrypy.response.headers['X-Token'] = cherrypy.request.params.get('token', 'NONE')
        plan = CUR.plan

        def gen():
            yield b'chunk0;'
            if 'body' in plan['parks']:
                CUR.park('body')
            snapshot('body:in')
            maybe_fault('body')
            yield body_echo()
        if fault_for('bodyclose') is not None:
            return FaultIter(gen())
        return gen()
    stream._cp_config = {'response.stream': True}

    def err(self, *a, **kw):
        run_stage('handler')
        raise cherrypy.HTTPError(404, 'no such thing for %s' % cherrypy.request.params.get('token'))

    def boom(self, *a, **kw):
        run_stage('handler')
        raise ValueError('boom ' + str(cherrypy.request.params.get('token')))

    def redir(self, *a, **kw):
        run_stage('handler')
        plan, rec = CUR.plan, CUR.rec
        chain = plan.get('redirect_chain') or [plan.get('redirect_to') or '/']
        k = rec.get('sub', 0)
        if k >= len(chain):               # the end of the chain: answer like an index page
            cherrypy.response.headers['X-Token'] = cherrypy.request.params.get('token', 'NONE')
            return body_echo() + b';redir-end'
        # a raw query string is passed on unchanged, so the URL of a sub-request can be byte-identical to the URL
        # another request started from
        qs = (plan.get('qs') or '') if plan.get('rawqs') else 'token=%s&via=redir' % plan['token']
        raise cherrypy.InternalRedirect(chain[k], qs)

    def default(self, *a, **kw):
        run_stage('handler')
        cherrypy.response.headers['X-Token'] = cherrypy.request.params.get('token', 'NONE')
        return body_echo() + (';default=%s' % '/'.join(a)).encode('latin-1')

    fns = [index, stream, err, boom, redir] + ([default] if default_conf is not None else [])
    for f in fns:
        f.exposed = True
        extra = (default_conf or None) if f is default else kind_conf.get(f.__name__)
        if extra:
            d = dict(getattr(f, '_cp_config', {}))
            d.update(extra)
            f._cp_config = d
        setattr(Node, f.__name__, f)
    if cls_conf is not None:
        Node._cp_config = dict(cls_conf)
    return Node


def feature_entries(feat):
    """Translate one abstract feature of the generated site into config entries."""
    k = feat[0]
    if k == 'hook':          # ('hook', point, cbname, prio, failsafe, tag)
        return {'hooks.%s.%s' % (feat[1], feat[5]): _cprequest.Hook(CBS[feat[2]], failsafe=feat[4], priority=feat[3])}
    if k == 'tool':          # ('tool', name, argdict)
        d = {'tools.%s.on' % feat[1]: True}
        for a, v in feat[2].items():
            d['tools.%s.%s' % (feat[1], a)] = v
        return d
    if k == 'tooloff':
        return {'tools.%s.on' % feat[1]: False}
    if k == 'resphdr':       # via the built-in response namespace
        return {'response.headers.%s' % feat[1]: feat[2]}
    if k == 'rhtool':        # built-in response_headers tool
        return {'tools.response_headers.on': True, 'tools.response_headers.headers': [tuple(x) for x in feat[1]]}
    if k == 'errpage':       # ('errpage', code|'default', epname)
        return {'error_page.%s' % feat[1]: EPS[feat[2]]}
    if k == 'reqattr':       # ('reqattr', name, value)  request.<name>
        return {'request.%s' % feat[1]: feat[2]}
    if k == 'bodyattr':
        return {'request.body.%s' % feat[1]: feat[2]}
    if k == 'tbtool':        # own toolbox of the application
        return {'%s.probe.on' % feat[1]: True, '%s.probe.tag' % feat[1]: feat[2]}
    raise common.HarnessError('unknown feature %r' % (feat,))


TREE_PATHS = ['/', '/a', '/a/x', '/b', '/b/y']


def _entries(feats):
    return {k: v for f in feats for k, v in feature_entries(tuple(f)).items()}


class Site(object):
    """The real applications built from a site description (see c10.gen_site).

    Per application: `classes` = [{'fn': {handler: feats}, 'cls': feats|None, 'default': feats|None}] and
    `nodes` = {path: {'class': i, 'inst': feats|None, 'same_as': path|None}} say which node classes exist (with
    function-level / class-level `_cp_config`), which paths are instances of which class (several paths may share
    one), which carry an instance-level `_cp_config`, and which paths are literally the same object; `tree_of` = j
    mounts the very node objects of application j under this application's own configuration.  Descriptions
    without `nodes` (older corpus cases) get one class per path from `cpconfig`."""

    def __init__(self, desc):
        self.desc = desc
        self.apps = []
        self.app_meta = []
        self.trees = []
        confs = []
        for ad in desc['apps']:
            if ad.get('tree_of') is not None and ad['tree_of'] < len(self.trees):
                nodes = self.trees[ad['tree_of']]
            else:
                nodes = self._build_tree(ad)
            self.trees.append(nodes)
            conf = {}
            for sect, feats in ad['config'].items():
                d = conf.setdefault(sect, {})
                for f in feats:
                    d.update(feature_entries(tuple(f)))
            root = conf.setdefault('/', {})
            root['hooks.on_start_resource.c10probe'] = _cprequest.Hook(hook_start, failsafe=True, priority=1)
            root['hooks.before_finalize.c10probe'] = _cprequest.Hook(hook_finalize, failsafe=True, priority=99)
            root['hooks.on_end_request.c10probe'] = _cprequest.Hook(hook_end, failsafe=True, priority=1)
            if ad.get('fault_hooks'):
                for p in HOOKPOINTS:
                    root['hooks.%s.c10fault' % p] = _cprequest.Hook(
                        FAULT_HOOKS[p], failsafe=bool(ad.get('fault_failsafe')), priority=50)
                root['tools.c10tf.on'] = True
            if ad.get('noencode'):
                root['tools.encode.on'] = False       # streamed bodies reach AppResponse as the handler returned them
            if ad.get('errresp'):
                root['request.error_response'] = c10_error_response
            if ad.get('wsgi_tag'):
                root['wsgi.c10mw.tag'] = ad['wsgi_tag']
                root['log.c10_tag'] = ad['wsgi_tag']
            if ad.get('mw'):
                root['wsgi.pipeline'] = [('c10mw', C10MW)]
            # `sn_none`: the mount point comes from SCRIPT_NAME of every call (one Application object, several mounts)
            app = _cptree.Application(nodes['/'], None if ad.get('sn_none') else ad['script_name'])
            if ad.get('reqclass'):
                app.request_class = C10Request
            if ad.get('toolbox'):
                tb = _cptools.Toolbox(ad['toolbox'])
                tb.probe = _cptools.Tool('before_handler', _tb_tool, priority=52)
                app.toolboxes = dict(app.toolboxes)       # instance-level; the class-level dict is shared by design
                app.toolboxes[ad['toolbox']] = tb
            self.apps.append(app)
            confs.append(conf)
        # all applications exist before any of them is configured (as with tree.mount + later config updates)
        for app, conf in zip(self.apps, confs):
            app.merge(conf)
        for app in self.apps:
            self.app_meta.append({'config': canon(app.config), 'namespaces': sorted(app.namespaces),
                                  'pipeline': canon(app.wsgiapp.pipeline), 'wsgiconfig': canon(app.wsgiapp.config),
                                  'log_tag': getattr(app.log, 'c10_tag', None)})

    @staticmethod
    def _build_tree(ad):
        nodes = {}
        if ad.get('nodes'):
            classes = [make_node({h: _entries(feats) for h, feats in (cd.get('fn') or {}).items()},
                                 None if cd.get('cls') is None else _entries(cd['cls']),
                                 None if cd.get('default') is None else _entries(cd['default']))
                       for cd in ad['classes']]
            for p in TREE_PATHS:
                nd = ad['nodes'][p]
                if nd.get('same_as') in nodes:
                    nodes[p] = nodes[nd['same_as']]
                    continue
                nodes[p] = classes[nd['class']]()
                if nd.get('inst') is not None:
                    nodes[p]._cp_config = _entries(nd['inst'])
        else:
            for p in TREE_PATHS:
                kc = {h: _entries(feats) for h, feats in ad.get('cpconfig', {}).get(p, {}).items()}
                nodes[p] = make_node(kc)()
        nodes['/'].a = nodes['/a']
        nodes['/'].b = nodes['/b']
        nodes['/a'].x = nodes['/a/x']
        nodes['/b'].y = nodes['/b/y']
        return nodes

    def app_state(self, i):
        app = self.apps[i]
        return {'config': canon(app.config), 'namespaces': sorted(app.namespaces),
                'pipeline': canon(app.wsgiapp.pipeline), 'wsgiconfig': canon(app.wsgiapp.config),
                'log_tag': getattr(app.log, 'c10_tag', None)}


def make_environ(plan, script_name):
    body = plan.get('body') or b''
    if isinstance(body, str):
        body = body.encode('latin-1')
    if plan.get('rawqs'):
        qs = plan.get('qs') or ''         # byte-identical for every request that uses it (the token travels in a header)
    else:
        qs = 'token=%s' % plan['token']
        if plan.get('qs'):
            qs += '&' + plan['qs']
    env = {
        'REQUEST_METHOD': plan.get('method', 'GET'), 'SCRIPT_NAME': script_name, 'PATH_INFO': plan['path'],
        'QUERY_STRING': qs, 'SERVER_NAME': 'localhost', 'SERVER_PORT': '80', 'SERVER_PROTOCOL': 'HTTP/1.1',
        'wsgi.version': (1, 0), 'wsgi.url_scheme': 'http', 'wsgi.input': io.BytesIO(body),
        'wsgi.errors': sys.stderr, 'wsgi.multithread': True, 'wsgi.multiprocess': False, 'wsgi.run_once': False,
        'HTTP_HOST': 'localhost', 'REMOTE_ADDR': '127.0.0.1', 'REMOTE_PORT': '1111',
        'HTTP_X_C10_TOKEN': plan['token'], 'c10.token': plan['token'],
    }
    if plan.get('method') == 'POST':
        env['CONTENT_LENGTH'] = str(len(body))
        env['CONTENT_TYPE'] = plan.get('ctype', 'application/x-www-form-urlencoded')
    return env


def poison_marker(token):
    return 'mk%skx99' % TOKEN_RE.match(token).group(1)


def poison(rec, token):
    """The call is over: write a mark of it, IN PLACE, into every per-request collection it had and into every
    mutable value one level below (parsed parameter lists, per-tool argument dicts, hook lists, cookie morsels).
    Nothing a later or concurrent request can reach may show it."""
    pm = poison_marker(token)
    done = set()

    def mark(o, depth=0):
        if o is None or id(o) in done:
            return
        done.add(id(o))
        try:
            if isinstance(o, dict):
                if depth < 2:
                    for v in list(dict.values(o)):
                        if isinstance(v, (dict, list)) and not isinstance(v, (_cptools.Toolbox,)):
                            mark(v, depth + 1)
                if type(o).__name__ == 'SimpleCookie':
                    for m in list(dict.values(o)):
                        dict.__setitem__(m, 'comment', pm)
                    return
                dict.__setitem__(o, pm, pm if depth else [pm])
            elif isinstance(o, list):
                o.append(pm)
        except Exception as e:          # an object that refuses the mark is not a leak
            rec.setdefault('poison_errors', []).append(type(e).__name__)
    for _stage, objs in rec['objs']:
        for slot in ('params', 'bodyParams', 'headers', 'headerList', 'cookie', 'toolmaps', 'errorPage', 'hooks',
                     'respHeaders', 'respCookie', 'processors', 'attemptCharsets', 'parts', 'config'):
            o = objs.get(slot)
            if slot == 'config' and isinstance(o, dict):
                if id(o) not in done:
                    done.add(id(o))
                    o[pm] = pm          # the request's own dict; its VALUES are the site's (shared by design)
                continue
            if slot in ('errorPage', 'processors', 'headers', 'respHeaders') and isinstance(o, dict):
                if id(o) not in done:
                    done.add(id(o))
                    dict.__setitem__(o, pm, pm)     # values are the site's callables / strings
                continue
            mark(o)


def idle_state():
    """What the current thread's serving container holds while the thread is not serving anything."""
    try:
        sv = vars(cherrypy.serving)
        req, resp = cherrypy.serving.request, cherrypy.serving.response
        return {'serving': sorted(sv), 'prev_escaped': bool(getattr(CUR, 'prev_escaped', False)),
                'default': req is cherrypy._Serving.request and resp is cherrypy._Serving.response,
                'app_none': cherrypy.request.app is None,
                'adhoc': sorted(k for k in list(vars(req)) + list(vars(resp)) if k.startswith('c10_') or 'mk' in k.lower())}
    except Exception as e:       # a broken container is an observation
        return {'serving': ['ERROR:' + type(e).__name__], 'default': False, 'app_none': False, 'adhoc': [],
                'prev_escaped': False}


def do_call(site, plan, park):
    """Run one WSGI call on the current thread; returns the record of everything observed."""
    app = site.apps[plan['app']]
    rec = {'token': plan['token'], 'snaps': [], 'objs': [], 'applied': [], 'op_errors': [], 'hook_runs': [],
           'status': None, 'wsgi_headers': None, 'body': None, 'exc': None, 'serving_after': None,
           'default_after': None, 'faults_fired': [], 'idle_before': idle_state(), 'idle_after': None}
    CUR.plan, CUR.rec, CUR.park = plan, rec, park
    ad = site.desc['apps'][plan['app']]
    env = make_environ(plan, plan.get('mount', ad['script_name']) if ad.get('sn_none') else ad['script_name'])

    def start_response(status, headers, exc_info=None):
        rec['status'] = status
        rec['wsgi_headers'] = list(headers)
        return lambda data: None
    try:
        res = app(env, start_response)
        try:
            chunks = []
            for c in res:
                chunks.append(c)
                if plan.get('abandon'):
                    break               # the client went away after the first chunk: the server closes the response
            rec['body'] = b''.join(chunks).decode('latin-1')
        finally:
            if hasattr(res, 'close'):
                res.close()
    except BaseException as e:             # escaped the WSGI stack: an observation
        if isinstance(e, common.HarnessError) or type(e).__name__ == '_Abort':
            raise
        rec['exc'] = '%s: %s' % (type(e).__name__, str(e)[:120])
    if rec.get('open'):
        EVENTS.append(('D', plan['token'], rec['sub']))
        rec['open'] = False
    rec.pop('last_req', None)
    rec.pop('start_ran_for', None)
    poison(rec, plan['token'])
    CUR.prev_escaped = rec['exc'] is not None
    rec['idle_after'] = idle_state()
    rec['serving_after'] = rec['idle_after']['serving']
    rec['default_after'] = rec['idle_after']['default']
    if 'bus:after_request' in rec['faults_fired'] and not rec['default_after']:
        # finding F24 (release_serving gives up when an `after_request` listener fails): recorded once, here; the
        # harness then empties the container itself so that the rest of the history starts from an idle thread
        rec['release_skipped'] = True
        cherrypy.serving.clear()
    CUR.plan = CUR.rec = None
    return rec


# ------------------------------------------------------------------------------------------------
# deep state: every long-lived mutable object reachable from the mounted trees, the applications, the classes
# and the modules the property is anchored in - rendered canonically, one level after the other
# ------------------------------------------------------------------------------------------------
import types as _types

from cherrypy import _cpdispatch as _cpd
_DISPATCHERS = (_cpd.Dispatcher,)
DEEP_CLASSES = [_cprequest.Request, _cprequest.Response, _cprequest.HookMap, _cprequest.Hook, _cptree.Application,
                _cptree.Tree, _cptools.Tool, _cptools.HandlerTool, _cptools.Toolbox, _cpwsgi.CPWSGIApp,
                _cpwsgi.AppResponse, _cpwsgi.InternalRedirector, _cpreqbody.Entity, _cpreqbody.RequestBody,
                _cpreqbody.Part, cherrypy._Serving, cherrypy._ThreadLocalProxy, C10Request]
DEEP_MODULES = ['cherrypy', 'cherrypy._cprequest', 'cherrypy._cptree', 'cherrypy._cpdispatch', 'cherrypy._cptools',
                'cherrypy._cpwsgi', 'cherrypy._cpreqbody', 'cherrypy._cperror', 'cherrypy._cpconfig',
                'cherrypy.lib.httputil', 'cherrypy.lib.reprconf']
# instance attributes that are memoised on first use and say nothing about any particular request
LAZY_ATTRS = {'head'}


def _deep(v, seen, depth=0):
    """Canonical, identity-free rendering of a value, following dicts / lists / sets / functions' and tools'
    own attributes; everything else is rendered by name."""
    if v is None or isinstance(v, (bool, int, float, str)):
        return v
    if isinstance(v, bytes):
        return 'b:' + v.decode('latin-1')
    if depth > 7:
        return 'deep'
    if isinstance(v, dict):
        return {str(_deep(k, seen, depth + 1)): _deep(x, seen, depth + 1) for k, x in list(v.items())}
    if isinstance(v, (list, tuple)):
        return [_deep(x, seen, depth + 1) for x in list(v)]
    if isinstance(v, (set, frozenset)):
        return sorted(json.dumps(_deep(x, seen, depth + 1), sort_keys=True) for x in v)
    if isinstance(v, _cprequest.Hook):
        return canon_hook(v)
    if isinstance(v, (_cptools.Tool, _cptools.Toolbox, _DISPATCHERS)):
        if id(v) in seen:
            return cname(v)
        seen.add(id(v))
        return {'%s' % cname(v): {k: _deep(x, seen, depth + 1) for k, x in list(vars(v).items())}}
    f = getattr(v, '__func__', v)
    if isinstance(f, _types.FunctionType):
        own = {k: _deep(x, seen, depth + 1) for k, x in list(vars(f).items()) if k not in ('c10name', '__wrapped__')}
        return {cname(v): own} if own else cname(v)
    return cname(v) if not isinstance(v, type) else 'class:' + v.__name__


def _class_state(cls, seen):
    return {k: _deep(x.__func__ if isinstance(x, (classmethod, staticmethod)) else x, seen, 1)
            for k, x in list(vars(cls).items()) if not (k.startswith('__') and k.endswith('__'))}


def tree_state(root, seen=None):
    """Every node reachable from a mounted root: its instance dict, its classes' dicts, its handlers' dicts."""
    seen = set() if seen is None else seen
    out, order, todo = {}, {}, [('', root)]
    while todo:
        path, node = todo.pop(0)
        if id(node) in order or len(order) > 40:
            continue
        order[id(node)] = path or '/'
        inst = {}
        for k, x in sorted(vars(node).items()):
            if hasattr(x, '__dict__') and not isinstance(x, (type, _types.FunctionType, _cptools.Tool)) \
                    and type(x).__module__.startswith(('harness', '__main__')):
                todo.append((path + '/' + k, x))
                inst[k] = 'node'
            else:
                inst[k] = _deep(x, seen, 1)
        out[(path or '/') + ' instance'] = inst
        for c in type(node).__mro__:
            if c is object or id(c) in order:
                continue
            order[id(c)] = True
            out[(path or '/') + ' class ' + c.__name__] = _class_state(c, seen)
    return out


def pipeline_state(head, seen):
    """The middleware instances an application's WSGI pipeline is made of (memoised in `wsgiapp.head` by the first
    call): class and own attributes of each, following `nextapp`.  'unbuilt' before the first call."""
    if head is None:
        return 'unbuilt'
    chain, cur, n = {}, head, 0
    while cur is not None and n < 12:
        n += 1
        f = getattr(cur, '__func__', None)
        if f is not None:                       # the bound `tail` method of the CPWSGIApp ends the chain
            chain['%d method' % n] = getattr(f, '__name__', '?')
            break
        attrs = {}
        for a, b in sorted(getattr(cur, '__dict__', {}).items()):
            if a == 'nextapp':
                continue
            attrs[a] = _deep(b, seen, 2)
        chain['%d %s' % (n, type(cur).__name__)] = attrs
        cur = getattr(cur, 'nextapp', None)
    return chain


def deep_state(site, full=True):
    """name -> canonical contents of the long-lived state a request must leave alone.  `full=False`: only what hangs
    on the mounted trees and the applications, plus the global config (the classes / modules / default toolbox
    part is the same walk for every site and is taken less often)."""
    import sys as _sys
    seen = set()
    out = {}
    rendered_roots = {}
    for i, app in enumerate(site.apps):
        if id(app.root) not in rendered_roots:
            rendered_roots[id(app.root)] = i
            for k, v in tree_state(app.root).items():
                out['app%d tree %s' % (i, k)] = v
        else:
            out['app%d tree' % i] = 'same as app%d' % rendered_roots[id(app.root)]
        av = {}
        for k, x in sorted(vars(app).items()):
            if k == 'root':
                continue
            if k == 'wsgiapp':
                av[k] = {a: _deep(b, seen, 2) for a, b in sorted(vars(x).items()) if a not in LAZY_ATTRS and a != 'cpapp'}
                out['app%d pipeline' % i] = pipeline_state(getattr(x, 'head', None), seen)
            elif k == 'log':
                av[k] = {a: _deep(b, seen, 2) for a, b in sorted(vars(x).items())
                         if isinstance(b, (str, int, bool, type(None))) and a != 'appid'}
            else:
                av[k] = _deep(x, seen, 1)
        out['app%d object' % i] = av
    out['cherrypy.config'] = _deep(dict(cherrypy.config), seen, 1)
    # tools, toolboxes and dispatchers are process-wide singletons: nothing of a request may be parked on them
    out['default toolbox'] = {k: _deep(x, seen, 1) for k, x in sorted(vars(cherrypy.tools).items())}
    out['default dispatcher'] = _deep(_cprequest.Request.dispatch, seen, 1)
    if not full:
        return out
    for c in DEEP_CLASSES:
        out['class %s.%s' % (c.__module__, c.__name__)] = _class_state(c, seen)
    for mn in DEEP_MODULES:
        m = _sys.modules.get(mn)
        if m is None:
            continue
        g = {}
        for k, x in sorted(vars(m).items()):
            if k.startswith('__'):
                continue
            if isinstance(x, (dict, list, set, tuple)):
                g[k] = _deep(x, seen, 1)
            elif isinstance(x, (_cptools.Toolbox, _cptree.Tree)):
                g[k] = _deep(x, seen, 1) if isinstance(x, _cptools.Toolbox) else {a: _deep(b, seen, 2) for a, b in vars(x).items()}
            else:
                g[k] = type(x).__name__
        out['module ' + mn] = g
    return out
