"""C13 - session access is mutually exclusive and the lock is always released.

Models: lean/CpModel/SessionLockN.lean (lock-table backends: several ids / threads / sweepers, handler
scripts), SessionFile.lean (file backend), SessionReq.lean (request-level lock lifecycle),
SessionAdmit.lean (admission of recorded traces); theorems: lean/CpProofs/C13*.lean; drivers:
lean/Drv/C13.lean, lean/Drv/C13N.lean.  Real code: real RamSession / MemcachedSession / FileSession
objects, the real clean_up and real in-process WSGI requests, run on real threads under the
deterministic scheduler of c13_sched.py; comparison by trace inclusion modulo stuttering.
"""
from __future__ import annotations

import itertools
import json
import os

from . import common
from . import c13_ram as RAM
from . import c13_ramn as N
from . import c13_req as REQ
from . import c13_wsgi as WSGI
from . import c13_file as FILE
from . import c13_fsched as FS
from . import c13_cov as COV

PROPERTY = 'C13'
LEAN_TARGETS = ['CpProofs.C13', 'drv_c13']
DRIVER = 'drv_c13'
THEOREMS = [
    # (a) lock-table backends: several ids, ANY number of request threads and sweepers, handler scripts
    'CpProofs.C13N.C13N_mutex',
    'CpProofs.C13N.C13N_no_lost_update',
    'CpProofs.C13N.C13N_no_release_error',
    'CpProofs.C13N.C13N_released',
    'CpProofs.C13N.C13N_regenerate_moves_the_lock',
    'CpProofs.C13N.C13N_no_deadlock',
    'CpProofs.C13N.C13N_sweep_respects_cs',
    'CpProofs.C13N.C13N_frame',
    'CpProofs.C13N.C13N_two_sweepers_orig_false',
    'CpProofs.C13N.C13N_two_sweepers_orig_crash',
    'CpProofs.C13N.C13N_two_sweepers_orig_blocked',
    'CpProofs.C13N.C13N_orig_swept_false',
    'CpProofs.C13N.C13N_mutex_no_sweep',
    # admission of recorded traces (trace inclusion modulo stuttering)
    'CpProofs.C13Admit.follow_sound',
    'CpProofs.C13Admit.followT_sound',
    'CpProofs.C13Admit.admits_sound',
    'CpProofs.C13Admit.admitsT_sound',
    'CpProofs.C13N.C13N_admitted_safe',
    'CpProofs.C13.C13_file_admitted_safe',
    # (b) FileSession relative to the FileLock contract (threads and processes)
    'CpProofs.C13.C13_file_mutex',
    'CpProofs.C13.C13_file_ops_locked',
    # (c) request level: every outcome x locking mode x any user hooks
    'CpProofs.C13.C13_released_at_end',
    'CpProofs.C13.close_runHooks',
    'CpProofs.C13.sortByPrio_perm',
]
LEVEL = 'proof'
TECHNIQUE = ('Lean 4 proof: inductive invariants over the step relation of interleaving models (any number of session '
             'ids, request threads and concurrent sweepers, handler scripts, any schedule), tied to the real RamSession / '
             'MemcachedSession / FileSession / session tool by trace inclusion modulo stuttering: real threads under a '
             'deterministic scheduler are stopped at shared-state accesses only, the Lean driver decides whether the model '
             'admits the recorded sequence of shared states (soundness of that test proved)')
LEVEL_TEXT = ('Proved in Lean for ANY number of session ids, request threads and concurrent clean_up sweepers, ANY handler '
              'script (read-modify-write, delete, clear, regenerate inside the lock), ANY schedule (incl. the clock) and every '
              'start state in which nobody holds a lock yet, at the granularity of single dict/RLock operations: the repaired '
              'lock-table protocol (acquire_lock re-check 8584df8 + clean_up re-check 8e1b7bf) is mutually exclusive per id, '
              'loses no update, never fails in release_lock or clean_up, leaves no lock owned by a finished request, moves the '
              'lock with regenerate(), cannot deadlock, and steps on one id never touch another id; proved NOT mutually exclusive: '
              'the unrechecked acquire_lock against one sweeper (F20) and the unrechecked clean_up against two sweepers (C13-F21), '
              'both fixed in /repo; without sweeper steps both acquire_lock variants are safe (memcached lock protocol). '
              'FileSession: mutual exclusion / no lost save or unlink / every mutating file operation by the lock holder, for any '
              'number of threads, processes, clean_up passes, any handler scripts (delete / regenerate inside the lock), any '
              'lock-timeout placement and any fault injected into the sweep (the lock is free after a sweep that died inside '
              'its locked region), relative to the FileLock contract (lock identity = the lock file). '
              'Request level: for every fault plan (locking mode x backend x handler script incl. regenerate x outcome x '
              'plain/generator/streamed body completed, abandoned or raising x failing storage x ANY user hooks) with a handler that '
              'does not re-acquire / over-release, the lock is released once close() has run. '
              'The admission test (trace inclusion modulo stuttering) is proved sound: an admitted recorded run of the real '
              'threads is a schedule of the model. '
              'Partial: the atomic-step assumption (atomicity of single dict/lock/file operations, OS scheduling), filelock/RLock '
              'correctness and the memcached client are parameters (under the scheduler FileLock is its contract and memcache a '
              'fake client; real filelock runs in the request-level plans and the multi-process counter test); file model: one '
              'contended id; a release_lock that itself fails on the last attempt cannot be compensated (oracle-only plans).')
LEVEL_NOTE = ('Trusted: Lean kernel (propext, Classical.choice, Quot.sound only); the hand models as validated on every run by '
              'admission of the recorded shared-state traces of real threads (all schedules with <=1 / <=2 pre-emptions for '
              'one id, two ids, a regenerating request, two sweepers; random and window-targeted ones; file backend incl. '
              'lock_timeout expiry through the real polling loop) and by journal comparison of request-level fault plans through '
              'in-process WSGI; threading.RLock, filelock.FileLock, the memcache client and the atomicity of single dict '
              'operations are contracts of the model; the server is assumed to call close() (PEP 3333).')
TRUSTED_BASE = [
    'atomic-step assumption: each single dict / RLock / file-system operation is atomic; everything between two '
    'operations on the shared objects is thread-local (a turn of a real thread = one such operation)',
    'threading.RLock, filelock.FileLock and the memcache client are parameters of the model (contract: re-entrant mutex / '
    'cross-process mutex / a store that hands out copies)',
    'the proxies see every access to RamSession.cache / RamSession.locks / the session file (accesses that bypass '
    'sessions.os / sessions.open / sessions.pickle would run inside a turn)',
]
ASSUMPTIONS = [
    'the WSGI server calls close() on the response iterable (PEP 3333), which runs on_end_request',
    'request level: user hooks do not touch the session lock; the handler does not acquire a lock it holds or release '
    'one it does not hold (otherwise: C13 examples in CpProofs/C13.lean show what happens)',
]
RULE = ('schedules of 2-3 real request threads (RamSession, MemcachedSession with a fake client; FileSession on real files) '
        'on 1-3 session ids, each with a handler script over read-modify-write / delete / clear / regenerate, plus 0-2 real '
        'clean_up loops and a logical clock: random, window-targeted, lock_timeout-targeted, and all schedules with a bounded '
        'number of pre-emptions, from sessions live / expired / absent with and without a lock object in the table; '
        'request-level fault plans (backend x locking mode x outcome x streaming x hooks x faults) through in-process WSGI.  '
        'Non-trivial: at least two actors changed the observable shared state (schedules) / the session was locked at some '
        'point (plans).  Distinct = distinct concrete case (ids, scripts, token list) / plan.')

F20_SIG = 'F20:ram_lock_swept_between_setdefault_and_acquire'


def _setup_cherrypy():
    import cherrypy
    cherrypy.config.update({'environment': 'test_suite', 'log.screen': False})
    return cherrypy


# ------------------------------------------------------------------------------------------------
# (a) lock-table backends: interleavings of several ids / threads / sweepers, handler scripts
# ------------------------------------------------------------------------------------------------
INITS = [
    ('live', [5, 100], False), ('live+lock', [5, 100], True),
    ('expired', [5, 0], False), ('expired+lock', [5, 0], True),
    ('absent', None, False),
]
F21_SIG = 'C13-F21:ram_second_sweeper_acquires_discarded_lock_then_pops'


def from_old_ram(case):
    """corpus / finding witnesses recorded as {'kind': 'ram', n, cache, tbl, sched}"""
    return {'kind': 'ramn', 'ids': [[case.get('cache'), bool(case.get('tbl'))]],
            'thrs': [[0, 'm']] * case['n'], 'nsw': 1, 'sched': [N.norm_tok(t) for t in case['sched']],
            'init': case.get('init', 'corpus')}


def ramn_oracle(case, toks, obs):
    """The property statement evaluated on what the real threads did.  [(what, signature)]"""
    bad = []
    be = case.get('backend', 'ram')

    def sig(kind):
        if obs['sweeper_orphan_acquire'] and case.get('nsw', 1) >= 2:
            return F21_SIG          # a second sweep acquired a lock object the first one had discarded
        if obs['orphan_acquire'] and be == 'ram':
            return F20_SIG
        return '%s:%s' % (be, kind)
    if obs['max_occ'] > 1:
        bad.append(('%d request threads were between acquire_lock and release_lock of the same session id at '
                    'the same time' % obs['max_occ'], sig('double_occupancy')))
    if obs['lost']:
        bad.append(('a read-modify-write of the session counter was overtaken by another write (lost update)',
                    sig('lost_update')))
    for name, exc in sorted(obs['errors'].items()):
        if name.startswith('S'):
            bad.append(('clean_up() raised %s' % exc, sig('sweeper_error')))
        else:
            bad.append(('request thread %s: the locked session request raised %s' % (name, exc),
                        sig('release_error')))
    finished = [r for r, v in obs['results'].items() if r not in obs['unfinished']]
    leaked = [h for h in obs['held_by'] if h in finished or h.startswith('S')]
    if leaked and not obs['errors']:
        bad.append(('lock object still owned by %s after everybody ended' % leaked, sig('lock_leak')))
    if obs['blocked']:
        bad.append(('request thread(s) %s blocked forever on a session lock nobody will release' % obs['blocked'],
                    sig('blocked_forever')))
    if obs.get('livelock'):
        bad.append(('actor(s) %s keep running without ever finishing (livelock inside the session code)'
                    % obs['livelock'], sig('livelock')))
    for f in obs['frame'][:2]:
        bad.append(('independence of session ids violated: ' + f, sig('frame')))
    for name, old, new, old_owner, new_owner in obs['regen']:
        if old_owner == name:
            bad.append(('%s: after regenerate() the lock of the OLD id %s is still held by the request'
                        % (name, old), sig('regen_old_lock_held')))
        if new_owner != name:
            bad.append(('%s: after regenerate() inside the locked region the lock of the NEW id %s is held by %s'
                        % (name, new, new_owner), sig('regen_new_lock_not_held')))
    # nothing can expire, only increments: the final counter of every id is init + number of increments
    if all(set(sc) <= {'m'} for _, sc in case['thrs']) and not any(t.startswith('K') for t in toks) \
            and not obs['unfinished'] and not obs['errors']:
        for x, (c, tbl) in enumerate(case['ids']):
            if c is not None and c[1] >= 50:
                want = c[0] + obs['writes'].get(x, 0)
                if obs['counters'].get(x) != want:
                    bad.append(('final counter of session %d is %r, expected %d (= %d + %d increments)'
                                % (x, obs['counters'].get(x), want, c[0], obs['writes'].get(x, 0)), sig('counter')))
    return bad


SCRIPTS = ['m', 'm', 'm', 'mm', 'mgm', 'gm', 'mg', 'dm', 'md', 'cm', 'mc', 'mdgm', '']


def gen_ramn_random(rng, backend='ram'):
    nid = rng.choice([1, 1, 2, 2, 3])
    ids = [list(rng.choice(INITS[:4] * 3 + INITS[4:])[1:]) for _ in range(nid)]
    if all(c is None for c, _ in ids):
        ids[0] = [[5, 100], False]
    n = rng.choice([2, 2, 3])
    thrs = [[rng.randrange(nid), rng.choice(SCRIPTS)] for _ in range(n)]
    thrs[1][0] = thrs[0][0]                         # at least two requests contend for one id
    nsw = 0 if backend == 'memcached' else rng.choice([1, 1, 1, 2])
    actors = [str(i) for i in range(n)]
    sweepers = ['S%d' % k for k in range(nsw)]
    toks = []
    L = rng.randint(8, 44)
    while len(toks) < L:
        r = rng.random()
        if r < 0.6 or not sweepers:
            a = rng.choice(actors)
        elif r < 0.94:
            a = rng.choice(sweepers)
        else:
            toks.append(rng.choice(['K1', 'K2', 'K3', 'K5']))
            continue
        toks += [a] * rng.choice([1, 1, 1, 2, 2, 3, 4, 7])
    return {'kind': 'ramn', 'ids': ids, 'thrs': thrs, 'nsw': nsw, 'sched': toks[:L], 'backend': backend,
            'init': 'random'}


def gen_ramn_window(rng):
    """Targeted at the windows between looking a lock object up and acquiring it (requests AND
    sweepers): everybody passes __init__, one request does its setdefault, then sweeper bursts."""
    n = rng.choice([2, 3])
    name, cache, tbl = rng.choice(INITS[:4])
    nsw = rng.choice([1, 1, 2])
    order = [str(i) for i in range(n)]
    rng.shuffle(order)
    toks = list(order)
    toks += [order[0]] * rng.choice([1, 1, 2])
    if rng.random() < 0.3:
        toks.append(rng.choice(['K1', 'K3']))
    for k in range(nsw):
        toks += ['S%d' % k] * rng.choice([3, 4, 5, 6, 7, 8, 9, 12])
    rest = []
    for a in order:
        rest += [a] * rng.randint(2, 9)
    for k in range(nsw):
        rest += ['S%d' % k] * rng.randint(0, 8)
    rng.shuffle(rest)
    return {'kind': 'ramn', 'ids': [[cache, tbl]], 'thrs': [[0, rng.choice(['m', 'm', 'mgm'])] for _ in range(n)],
            'nsw': nsw, 'sched': toks + rest, 'init': name}


def enum_policies(actors, max_preempt, horizon):
    for order in itertools.permutations(actors):
        yield order, {}
        if max_preempt >= 1:
            for k in range(1, horizon):
                for a in actors:
                    yield order, {k: a}
        if max_preempt >= 2:
            for k1 in range(1, horizon):
                for k2 in range(k1 + 1, horizon):
                    for a1 in actors:
                        for a2 in actors:
                            if a1 != a2:
                                yield order, {k1: a1, k2: a2}


def check_ramn(ctx, items, variants, compare=True):
    """items: (case, o0, trace, final, obs) already executed on the real code."""
    lines = []
    for case, o0, trace, final, obs in items:
        rv = 'recheck' if case.get('backend', 'ram') == 'ram' else 'orig'
        lines.append(N.model_line(case, o0, trace, final, rv, variants['sv']))
    model = ctx.model(lines) if compare else None
    for idx, (case, o0, trace, final, obs) in enumerate(items):
        toks = [t for t, _, _ in trace]
        full = dict(case, sched=toks)
        full.pop('init', None)
        acted, prev = set(), o0
        for t, o, _ in trace:
            if o != prev and not t.startswith('K'):
                acted.add(t)
            prev = o
        be = case.get('backend', 'ram')
        ctx.case(full, nontrivial=len(acted) >= 2, key=json.dumps(full, sort_keys=True))
        ctx.count('%s:threads=%d' % (be, len(case['thrs'])))
        ctx.count('%s:ids=%d' % (be, len(case['ids'])))
        ctx.count('%s:sweepers=%d' % (be, case.get('nsw', 1)))
        ctx.count('%s:init=%s' % (be, case.get('init', '?')))
        for _, sc in case['thrs']:
            ctx.count('%s:script=%s' % (be, sc or '-'))
        for r, v in obs['results'].items():
            ctx.count('%s:thread=%s' % (be, v or ('crashed' if r in obs['errors'] else 'blocked')))
        ctx.count('%s:max_occ=%d' % (be, obs['max_occ']))
        if obs['regen']:
            ctx.count('%s:regenerated_inside_lock' % be)
        if obs['orphan_acquire']:
            ctx.count('%s:orphan_lock_acquired' % be)
        if obs['foreign_pop']:
            ctx.count('%s:sweeper_popped_foreign_lock' % be)
        for what, sig in ramn_oracle(case, toks, obs):
            ctx.oracle_fail(full, what, sig)
        if model is not None:
            ctx.compared()
            m = model[idx]
            ctx.count('admit:' + ('tight' if m.endswith('tight') else 'loose' if m.startswith('ok') else 'rejected'))
            if not m.startswith('ok'):
                parts = m.split(' ')
                k = int(parts[1]) if parts[1].isdigit() else None
                seen = N.nats(trace[k][1]) if k is not None and k < len(trace) else N.nats(final)
                ctx.disagree(full, {'turn': parts[1], 'actor': parts[2], 'observation': seen},
                             {'turn': parts[1], 'model_could_show': parts[3][:600] if len(parts) > 3 else ''},
                             'the model does not admit the observed sequence of shared states (%s backend): '
                             'no model run makes actor %s change the tables / lock objects that way at turn %s'
                             % (be, parts[2], parts[1]))


def run_ramn_case(case):
    o0, trace, final, obs = N.run_case(case)
    return case, o0, trace, final, obs


def _enum_chunk(args):
    case, actors, order, bound, horizon, sweeps, preemptors = args
    items = []
    for o, pre in enum_policies(actors, bound, horizon):
        if o != order:
            continue
        if preemptors is not None and any(a not in preemptors for a in pre.values()):
            continue
        o0, trace, final, obs = N.run_policy(case, list(order), pre, sweeps=sweeps)
        items.append((case, o0, trace, final, obs))
    return items


def ramn_stream(ctx, variants, n_random, n_window, preempt_bound, compare=True):
    items = [run_ramn_case(gen_ramn_random(ctx.rng)) for _ in range(n_random)]
    items += [run_ramn_case(gen_ramn_window(ctx.rng)) for _ in range(n_window)]
    items += [run_ramn_case(gen_ramn_random(ctx.rng, 'memcached')) for _ in range(max(20, n_random // 5))] \
        if variants.get('memcached') else []
    check_ramn(ctx, items, variants, compare)
    # systematic: all schedules with <= preempt_bound pre-emptions
    chunks = []
    for name, cache, tbl in INITS[:4]:                   # one id, two requests, one sweeper
        case = {'kind': 'ramn', 'ids': [[cache, tbl]], 'thrs': [[0, 'm'], [0, 'm']], 'nsw': 1, 'init': name}
        for order in itertools.permutations(['0', '1', 'S0']):
            chunks.append((case, ['0', '1', 'S0'], order, preempt_bound, 26, 1, None))
    # two ids (independence), a request that regenerates inside the lock, two concurrent sweepers
    two_ids = {'kind': 'ramn', 'ids': [[[5, 0], True], [[7, 0], True]], 'thrs': [[0, 'm'], [1, 'm']], 'nsw': 1,
               'init': 'two-ids'}
    regen = {'kind': 'ramn', 'ids': [[[5, 0], True]], 'thrs': [[0, 'mgm'], [0, 'm']], 'nsw': 1, 'init': 'regen'}
    for order in itertools.permutations(['0', '1', 'S0']):
        chunks.append((two_ids, ['0', '1', 'S0'], order, preempt_bound, 34, 1, None))
        chunks.append((regen, ['0', '1', 'S0'], order, preempt_bound, 40, 1, None))
    two_sw = {'kind': 'ramn', 'ids': [[[5, 0], True]], 'thrs': [[0, 'm'], [0, 'm']], 'nsw': 2, 'init': 'two-sweepers'}
    for order in itertools.permutations(['0', '1', 'S0', 'S1']):
        # only the sweepers pre-empt (the windows of C13-F21 open between two sweeps)
        chunks.append((two_sw, ['0', '1', 'S0', 'S1'], order, preempt_bound, 26 if ctx.quick() else 30, 1,
                       ['S0', 'S1']))
    results = common.parallel_map(_enum_chunk, chunks, procs=8 if ctx.quick() else None)
    count = 0
    for its in results:
        count += len(its)
        check_ramn(ctx, its, variants, compare)
    ctx.extra['ram_preemption_bounded_schedules'] = ctx.extra.get('ram_preemption_bounded_schedules', 0) + count
    ctx.extra['ram_preemption_bound'] = preempt_bound


# ------------------------------------------------------------------------------------------------
# (c) request-level fault plans
# ------------------------------------------------------------------------------------------------
def plan_shape(p):
    return '%s/%s/%s%s%s' % (p['mode'], 'file' if p['file'] else 'ram', p['out'],
                             '/stream-' + p['consume'] if p['stream'] else ('/gen' if p['gen'] else ''),
                             '/regen' if 'regen' in p['acts'] else '')


def check_req(ctx, plans, compare=True):
    # a file session never gets a second lock on its own path: only with lock_timeout (targeted plans)
    plans = [p for p in plans if REQ.well_behaved(p) or not p['file'] or p.get('lockTimeout')]
    lines = [REQ.plan_line(p) for p in plans]
    model = ctx.model(lines) if compare else None
    for idx, p in enumerate(plans):
        r = REQ.run_plan(p)
        j = ','.join(r['journal']) or '-'
        if r.get('setup_failed'):
            ctx.case(p, nontrivial=False, key=lines[idx])
            ctx.oracle_fail(p, 'a plain request with implicit locking that only stores a value in a new %s session '
                               'answered %s: %s' % ('file' if p['file'] else 'ram', r['status'],
                                                    r['setup_failed'][-200:].replace('\n', ' ')),
                            'req:plain_locked_request_failed:%s' % ('file' if p['file'] else 'ram'))
            continue
        ctx.case(p, nontrivial=(':1:' in j), key=lines[idx])
        ctx.count('req:' + p['mode'])
        ctx.count('req:backend=' + ('file' if p['file'] else 'ram'))
        ctx.count('req:outcome=' + p['out'])
        ctx.count('req:status=' + r['status'])
        if p['stream']:
            ctx.count('req:stream-' + p['consume'])
        if 'regen' in p['acts']:
            ctx.count('req:regenerate')
        if p['saveFails']:
            ctx.count('req:save_fails')
        if 'B:1' in j:
            ctx.count('req:locked_while_body_is_sent')
        if p.get('afterReq'):
            ctx.count('req:after_request_listener_fails')
        shape = plan_shape(p)
        sloppy = not REQ.well_behaved(p)
        if sloppy:
            ctx.count('req:handler_acquires_twice_or_releases_unheld/' + ('file' if p['file'] else 'ram'))
        # a handler that re-acquires the re-entrant RAM lock leaves it held (C13_double_acquire_leaks_ram):
        # outside the statement; a file session cannot do that (LockTimeout), so there the statement applies
        if (r['leaked'] or r['locked_end'] or not j.endswith('E:0:0')) and (not sloppy or p['file']):
            ctx.oracle_fail(p, 'after the request ended (close() called) the session lock is still held: '
                               'journal %s, held lock objects/files %s, Session.locked=%s  [%s]'
                            % (j, r['leaked'], r['locked_end'], shape),
                            'req:lock_not_released:%s:%s' % (p['mode'], 'file' if p['file'] else 'ram'))
        # read-modify-write updates are never lost: a request that ended normally (handler returned, no hook failed,
        # the store did not fail, the body was delivered to its end) has its updates in the store for the next request
        plain = (p['out'] == 'ok' and p['oer'] == 'ok' and not p['saveFails'] and not p.get('relFail') and not sloppy
                 and 'regen' not in p['acts'] and not p.get('afterReq')
                 and all(h[2] == 'ok' for k in ('brb', 'bh', 'bf', 'eer') for h in p[k])
                 and (not p['gen'] or (not p['genRaise'] and (p['consume'] == 'full' or not p['stream'])))
                 and r['status'] == '200' and not r.get('gen_error') and not r.get('close_error'))
        rb = r.get('readback')
        if plain and isinstance(rb, dict):
            want_n = p['acts'].count('touch')
            lost = []
            if rb.get('n') != want_n:
                lost.append('n=%r, expected %d' % (rb.get('n'), want_n))
            if p['gen'] and p['genTouch'] and rb.get('g') != 1:
                lost.append('the value stored by the %s body is missing' % ('streamed' if p['stream'] else 'generator'))
            if lost:
                ctx.oracle_fail(p, 'the request ended normally but its session updates are not in the store for the next '
                                   'request (%s; stored %s)  [%s]' % ('; '.join(lost), rb, shape),
                                'req:update_lost:%s:%s' % (p['mode'], 'file' if p['file'] else 'ram'))
        if model is not None:
            ctx.compared()
            mj = model[idx].split(' ')[0][2:]
            if mj != j:
                ctx.disagree(p, {'journal': j}, {'journal': mj},
                             'request-level lock journal (point:Session.locked:held) differs [%s]' % shape)


def check_internal_redirects(ctx):
    """The planned request ends in an InternalRedirect to another resource that uses the same session (with and
    without response.stream switched on first, every locking mode, both backends, handler touching / regenerating the
    session first, a failing on_end_request hook beside it).  No model; oracle: after close() no lock object / lock
    file of the session is held and Session.locked is false."""
    base = {'kind': 'req', 'acts': ['touch'], 'out': 'iredir', 'stream': False, 'gen': False, 'genTouch': False,
            'genRaise': False, 'consume': 'full', 'saveFails': False, 'oer': 'ok',
            'brb': [], 'bh': [], 'bf': [], 'eer': []}
    for mode in ('implicit', 'early', 'explicit'):
        for file in (False, True):
            acts0 = ['acquire', 'touch'] if mode == 'explicit' else ['touch']
            b = dict(base, mode=mode, file=file, acts=acts0)
            for p in (dict(b), dict(b, stream=True), dict(b, stream=True, consume='abandon'),
                      dict(b, acts=acts0 + ['regen', 'touch']), dict(b, stream=True, acts=acts0 + ['regen', 'touch']),
                      dict(b, eer=[[10, False, 'exc']]), dict(b, stream=True, eer=[[10, False, 'exc']]),
                      dict(b, acts=[] if mode != 'explicit' else ['acquire']), dict(b, stream=True, afterReq=True)):
                r = REQ.run_plan(p)
                ctx.case(p, nontrivial=True, key='iredir ' + REQ.plan_line(p) + (' afterReq' if p.get('afterReq') else ''))
                ctx.count('req:internal_redirect/%s/status=%s' % ('stream' if p['stream'] else 'plain', r['status']))
                j = ','.join(r['journal'])
                if r['leaked'] or r['locked_end'] or not j.endswith('E:0:0'):
                    ctx.oracle_fail(p, 'after the request ended in an InternalRedirect (close() called) the session lock is '
                                       'still held: journal %s, held lock objects/files %s, Session.locked=%s  [%s]'
                                    % (j, r['leaked'], r['locked_end'], plan_shape(p)),
                                    'req:lock_not_released:%s:%s' % (p['mode'], 'file' if p['file'] else 'ram'))


def check_start_response_faults(ctx):
    """The server's start_response raises (once) for the planned request - streamed body, plain body, error
    response after an unexpected handler exception: the response object the server would close() is never handed
    over.  No model; oracle: afterwards no lock object / lock file of the session is held."""
    base = {'kind': 'req', 'acts': ['touch'], 'out': 'ok', 'stream': False, 'gen': False, 'genTouch': False,
            'genRaise': False, 'consume': 'full', 'saveFails': False, 'oer': 'ok', 'srFail': True,
            'brb': [], 'bh': [], 'bf': [], 'eer': []}
    for mode in ('implicit', 'early', 'explicit'):
        for file in (False, True):
            acts0 = ['acquire', 'touch'] if mode == 'explicit' else ['touch']
            b = dict(base, mode=mode, file=file, acts=acts0)
            for p in (dict(b), dict(b, stream=True, gen=True, genTouch=True), dict(b, stream=True, gen=True),
                      dict(b, out='exc'), dict(b, out='http'), dict(b, stream=True, gen=True, out='exc'),
                      dict(b, acts=acts0 + ['regen', 'touch'], stream=True, gen=True)):
                r = REQ.run_plan(p)
                ctx.case(p, nontrivial=True, key='srFail ' + REQ.plan_line(p))
                ctx.count('req:start_response_fails/%s' % ('escaped' if r.get('call_error') else 'answered'))
                j = ','.join(r['journal'])
                if r['leaked'] or r['locked_end'] or not j.endswith('E:0:0'):
                    ctx.oracle_fail(p, 'the server\'s start_response raised; afterwards the session lock is still held: '
                                       'journal %s, held lock objects/files %s, Session.locked=%s  [%s]'
                                    % (j, r['leaked'], r['locked_end'], plan_shape(p)),
                                    'req:lock_not_released:%s:%s' % (p['mode'], 'file' if p['file'] else 'ram'))


def check_release_faults(ctx):
    """The FIRST release_lock() of the request fails (transient failure of the lock layer, before anything
    is released).  No model; oracle: whenever a later release attempt exists (Session.save's `finally`,
    the fail-safe close hook) the lock is free after close()."""
    base = {'kind': 'req', 'acts': ['touch'], 'out': 'ok', 'stream': False, 'gen': False, 'genTouch': False,
            'genRaise': False, 'consume': 'full', 'saveFails': False, 'oer': 'ok', 'relFail': True,
            'brb': [], 'bh': [], 'bf': [], 'eer': []}
    for mode in ('implicit', 'early', 'explicit'):
        for file in (False, True):
            acts0 = ['acquire', 'touch'] if mode == 'explicit' else ['touch']
            b = dict(base, mode=mode, file=file, acts=acts0)
            for p in (dict(b), dict(b, out='exc'), dict(b, out='http'), dict(b, saveFails=True),
                      dict(b, stream=True, gen=True, consume='abandon'), dict(b, acts=acts0 + ['regen', 'touch']),
                      dict(b, eer=[[10, False, 'exc']])):
                r = REQ.run_plan(p)
                ctx.case(p, nontrivial=True, key='relFail ' + REQ.plan_line(p))
                ctx.count('req:first_release_fails/attempts=%d' % min(r.get('release_attempts', 0), 3))
                held = r['leaked'] or r['locked_end']
                if r.get('release_attempts', 0) >= 2 and held:
                    ctx.oracle_fail(p, 'the first release_lock() of the request failed, %d attempts were made, and after '
                                       'close() the lock is still held: journal %s, held %s  [%s]'
                                    % (r['release_attempts'], ','.join(r['journal']), r['leaked'], plan_shape(p)),
                                    'req:lock_not_released_after_transient_release_failure:%s:%s'
                                    % (p['mode'], 'file' if p['file'] else 'ram'))


def targeted_plans(rng):
    """Shapes a subtle change to save/close/_regenerate/_setup would get wrong."""
    out = []
    base = {'kind': 'req', 'acts': ['touch'], 'out': 'ok', 'stream': False, 'gen': False, 'genTouch': False,
            'genRaise': False, 'consume': 'full', 'saveFails': False, 'oer': 'ok',
            'brb': [], 'bh': [], 'bf': [], 'eer': []}
    for mode in ('implicit', 'early', 'explicit'):
        for file in (False, True):
            acts0 = ['acquire', 'touch'] if mode == 'explicit' else ['touch']
            b = dict(base, mode=mode, file=file, acts=acts0)
            out.append(dict(b))                                                     # plain success
            for o in ('http', 'redirect', 'exc'):
                out.append(dict(b, out=o))                                          # every outcome
                out.append(dict(b, out=o, eer=[[rng.choice([10, 30, 55, 70]), False, 'exc']]))
            out.append(dict(b, saveFails=True))                                     # _save raises
            out.append(dict(b, saveFails=True, eer=[[30, False, 'exc']]))
            out.append(dict(b, acts=acts0 + ['regen', 'touch']))                    # id regenerated
            out.append(dict(b, acts=acts0 + ['regen'], out='exc'))
            out.append(dict(b, acts=acts0 + ['regen', 'regen', 'touch'], out='http'))
            for consume in ('full', 'abandon'):
                s = dict(b, stream=True, gen=True, genTouch=True, consume=consume)
                out.append(dict(s))                                                 # streamed
                out.append(dict(s, genRaise=True))
                out.append(dict(s, saveFails=True))                                 # deferred save raises
                out.append(dict(s, saveFails=True, eer=[[30, False, 'exc']]))
                out.append(dict(s, eer=[[10, False, 'exc'], [70, True, 'http']]))
            out.append(dict(b, gen=True, genTouch=True, genRaise=True))             # generator raises (tools.encode reads it)
            out.append(dict(b, gen=True, genTouch=True, genRaise=True, noEncode=True))   # collapse_body raises in save
            out.append(dict(b, gen=True, genTouch=True, noEncode=True))
            out.append(dict(b, brb=[[10, False, 'http']]))                          # fails before sessions.init: no session
            out.append(dict(b, bf=[[10, False, 'exc']]))                            # hook before save fails
            out.append(dict(b, bf=[[70, False, 'http']], eer=[[55, False, 'exc']]))
            out.append(dict(b, bh=[[70, False, 'exc']], eer=[[10, False, 'exc']]))  # fails after the lock hook
            out.append(dict(b, brb=[[70, False, 'exc']], eer=[[10, False, 'exc']]))
            out.append(dict(b, oer='exc'))
            out.append(dict(b, afterReq=True))                                      # 'after_request' listener raises
            out.append(dict(b, afterReq=True, out='exc', eer=[[10, False, 'exc']]))
            out.append(dict(b, afterReq=True, stream=True, gen=True, genTouch=True, consume='abandon'))
            if mode != 'explicit':
                out.append(dict(b, acts=['touch', 'release', 'acquire', 'touch']))
                out.append(dict(b, acts=['release']))
                out.append(dict(b, acts=['touch', 'acquire'], lockTimeout=True))    # acquires the lock it holds
            else:
                out.append(dict(b, acts=['acquire', 'touch', 'acquire'], lockTimeout=True))
                out.append(dict(b, acts=['release']))                               # releases without acquire
                out.append(dict(b, acts=['acquire', 'touch', 'release', 'release'], lockTimeout=not file))
                out.append(dict(b, acts=['acquire', 'touch']))                      # never releases
    return out


# ------------------------------------------------------------------------------------------------
# whole WSGI requests on scheduled threads (oracle only)
# ------------------------------------------------------------------------------------------------
def wsgi_oracle(case, toks, obs):
    bad = []

    def sig(kind):
        return F20_SIG if obs['orphan_acquire'] else 'wsgi:%s:%s:%s' % (kind, case['mode'], case['where'])
    if obs['max_occ'] > 1:
        bad.append(('%d requests were inside the read-modify-write of the session counter at the same time'
                    % obs['max_occ'], sig('double_occupancy')))
    if obs['lost']:
        bad.append(('lost update: a request wrote a counter value computed from a stale read', sig('lost_update')))
    if obs['thread_errors']:
        bad.append(('request thread raised %s' % obs['thread_errors'], sig('request_raised')))
    if any(v.startswith('5') for v in obs['statuses'].values()):
        bad.append(('a plain session request answered %s' % obs['statuses'], sig('request_failed')))
    if obs['blocked']:
        bad.append(('request(s) %s blocked forever on a session lock' % obs['blocked'], sig('blocked_forever')))
    elif obs['held_by']:
        bad.append(('after all requests ended, lock objects are still owned by %s' % obs['held_by'],
                    sig('lock_leak')))
    c = case.get('cache')
    if c and c[1] >= 50 and not any(t.startswith('K') for t in toks) and not obs['unfinished'] \
            and not obs['thread_errors']:
        if obs['counter'] != c[0] + obs['increments']:
            bad.append(('final counter %r, expected %d + %d increments' % (obs['counter'], c[0], obs['increments']),
                        sig('counter')))
    return bad


def check_wsgi(ctx, cases):
    for case in cases:
        toks, obs = WSGI.run_case(case)
        full = dict(case, sched=toks)
        ctx.case(full, nontrivial=obs['increments'] >= 2 or obs['orphan_acquire'],
                 key=json.dumps(full, sort_keys=True))
        ctx.count('wsgi:%s/%s' % (case['mode'], case['where']))
        ctx.count('wsgi:increments=%d' % obs['increments'])
        for what, sig in wsgi_oracle(case, toks, obs):
            ctx.oracle_fail(full, what, sig)


def wsgi_systematic(n_preempt_points=14):
    """Two requests, every single pre-emption point of the first one (the second then runs to its
    end or until it blocks), for both modes and both places of the read-modify-write."""
    out = []
    for mode in ('implicit', 'early'):
        for where in ('handler', 'stream'):
            for k in range(1, n_preempt_points):
                out.append({'kind': 'wsgi', 'n': 2, 'mode': mode, 'where': where, 'cache': [5, 100],
                            'tbl': False, 'sched': ['0'] * k + ['1'] * 30})
    return out


# ------------------------------------------------------------------------------------------------
# (b) file backend: real FileSession threads + real clean_up under the scheduler
# ------------------------------------------------------------------------------------------------
def fsched_oracle(case, toks, obs):
    bad = []
    if obs['max_occ'] > 1:
        bad.append(('%d actors held the lock of one session at the same time (%s): the lock file was replaced under '
                    'its holder (unlinked by %s)' % (obs['max_occ'], obs['all_holders'] or 'see schedule',
                                                    obs['lockfile_unlinked'] or '?'), 'fsched:double_holder'))
    if obs['unlocked_ops']:
        bad.append(('a mutating / destructive operation on the session file ran while the actor did not hold '
                    'the session lock: %s' % obs['unlocked_ops'][:3],
                    'fsched:unlocked_file_op:' + obs['unlocked_ops'][0].split('(')[0].split(':', 1)[1]))
    if obs['lost']:
        bad.append(('lost update on the file backend: %s' % obs['lost_why'], 'fsched:lost_update'))
    injected = [k for a, k in obs.get('faults_consumed', []) if a == 'S' and k in (1, 2)]
    for name, exc in sorted(obs['errors'].items()):
        if name == 'S' and injected:
            continue        # the injected fault (unlink failing / expiry not comparable) leaves clean_up: expected
        who = 'clean_up()' if name == 'S' else 'request thread %s' % name
        bad.append(('%s raised %s' % (who, exc), 'fsched:raised:%s' % ('sweeper' if name == 'S' else 'request')))
    if obs.get('livelock'):
        bad.append(('actor(s) %s keep polling / running without ever finishing (a lock that is never released?); '
                    'lock held by %s' % (obs['livelock'], obs['held_by']), 'fsched:livelock'))
    if obs['timeout_leak']:
        bad.append(('acquire_lock of %s raised LockTimeout, yet the request holds the file lock / Session.locked is '
                    'set afterwards' % obs['timeout_leak'], 'fsched:lock_held_after_timeout'))
    if obs['blocked']:
        bad.append(('request(s) %s blocked forever on the session file lock (held by %s)'
                    % (obs['blocked'], obs['held_by']), 'fsched:blocked_forever'))
    elif obs['all_holders'] and not obs['unfinished']:
        bad.append(('file lock still held by %s after everybody ended%s'
                    % (obs['all_holders'], ' (the sweep died of the injected fault holding it)' if injected else ''),
                    'fsched:lock_leak'))
    f = case.get('file')
    plain = all(sc == 'm' for sc in (case.get('scripts') or ['m']))
    if f is not None and f[1] >= 50 and not any(t[0] in 'KF' for t in toks) and not obs['unfinished'] \
            and not obs['errors'] and plain:
        want = '%d:' % (f[0] + obs['saves'])
        if not obs['file'].startswith(want):
            bad.append(('file backend: stored counter %s, expected %d (= %d + %d saves)'
                        % (obs['file'], f[0] + obs['saves'], f[0], obs['saves']), 'fsched:counter'))
    return bad


def check_fsched(ctx, items, compare=True):
    """items: (case, o0, trace, final, obs) already executed on the real code."""
    lines = [FS.model_line(case, o0, trace, final) for case, o0, trace, final, obs in items]
    model = ctx.model(lines) if compare else None
    for idx, (case, o0, trace, final, obs) in enumerate(items):
        toks = [t for t, _, _ in trace]
        full = dict(case, sched=toks)
        full.pop('init', None)
        acted, prev = set(), o0
        for t, o, _ in trace:
            if o != prev and t[0] not in 'KXPF':
                acted.add(t)
            prev = o
        ctx.case(full, nontrivial=len(acted) >= 2, key=json.dumps(full, sort_keys=True))
        ctx.count('fsched:n=%d' % case['n'])
        ctx.count('fsched:init=' + case.get('init', '?'))
        for r, v in obs['results'].items():
            ctx.count('fsched:thread=' + (v or ('crashed' if r in obs['errors'] else 'blocked')))
        if any(t.startswith('X') for t in toks):
            ctx.count('fsched:lock_timeout_expired')
        if any(t.startswith('P') for t in toks):
            ctx.count('fsched:unsuccessful_poll')
        for a, k in obs.get('faults_consumed', []):
            ctx.count('fsched:sweep_fault=%s' % {0: 'open/load', 1: 'expiry-comparison', 2: 'unlink'}[k])
        for sc in case.get('scripts') or []:
            ctx.count('fsched:script=%s' % (sc or '-'))
        for what, sig in fsched_oracle(case, toks, obs):
            ctx.oracle_fail(full, what, sig)
        if model is not None:
            ctx.compared()
            m = model[idx]
            ctx.count('admit-file:' + ('tight' if m.endswith('tight') else 'loose' if m.startswith('ok') else 'rejected'))
            if not m.startswith('ok'):
                parts = m.split(' ')
                k = int(parts[1]) if parts[1].isdigit() else None
                seen = FS.nats(trace[k][1]) if k is not None and k < len(trace) else FS.nats(final)
                ctx.disagree(full, {'turn': parts[1], 'actor': parts[2], 'observation': seen},
                             {'turn': parts[1], 'model_could_show': parts[3][:600] if len(parts) > 3 else ''},
                             'the model does not admit the observed sequence of (lock holder, file content, '
                             'statuses) of the file backend: no model run makes actor %s change them that way at '
                             'turn %s' % (parts[2], parts[1]))


def _fenum_chunk(args):
    name, file0, prefix, order, bound = args[:5]
    items = []
    case = {'kind': 'fsched', 'n': 2, 'file': file0, 'init': name}
    if len(args) > 5:
        case['scripts'] = args[5]
    for o, pre in enum_policies(['0', '1', 'S'], bound, 22):
        if o != order:
            continue
        o0, trace, final, obs = FS.run_policy(case, list(order), pre, prefix=prefix)
        items.append((case, o0, trace, final, obs))
    return items


def fsched_stream(ctx, n_random, preempt_bound, compare=True):
    items = []
    for _ in range(n_random):
        case = FS.gen_random(ctx.rng)
        items.append((case,) + FS.run_case(case))
    for g in (FS.gen_timeout, FS.gen_fault, FS.gen_delete):
        for _ in range(max(30, n_random // 3)):
            case = g(ctx.rng)
            items.append((case,) + FS.run_case(case))
    check_fsched(ctx, items, compare)
    chunks = [(name, file0, prefix, order, preempt_bound)
              for name, file0, prefix in FS.INITS[:3]
              for order in itertools.permutations(['0', '1', 'S'])]
    for order in itertools.permutations(['0', '1', 'S']):
        # a request deletes / regenerates inside the lock and goes on; the sweep fails inside its locked region
        chunks.append(('delete', [5, 100], [], order, preempt_bound, ['mdm', 'm']))
        chunks.append(('regen', [5, 100], [], order, 1, ['mgm', 'm']))
        chunks.append(('fault-unlink', [5, 0], ['K3', 'F2'], order, preempt_bound))
        chunks.append(('fault-compare', [5, 0], ['K3', 'F1'], order, 1))
        chunks.append(('fault-load', [5, 100], ['F0'], order, 1))
    results = common.parallel_map(_fenum_chunk, chunks, procs=8 if ctx.quick() else None)
    count = 0
    for its in results:
        count += len(its)
        check_fsched(ctx, its, compare)
    ctx.extra['file_preemption_bounded_schedules'] = ctx.extra.get('file_preemption_bounded_schedules', 0) + count


# ------------------------------------------------------------------------------------------------
# (b) file backend across processes (real filelock)
# ------------------------------------------------------------------------------------------------
def check_file_processes(ctx, procs, incs, sweeps):
    case = {'kind': 'fileproc', 'procs': procs, 'incs': incs, 'sweeps': sweeps}
    r = FILE.run_processes(procs, incs, sweeps)
    ctx.case(case, nontrivial=True, key=json.dumps(case, sort_keys=True))
    ctx.count('fileproc:%dx%d' % (procs, incs))
    bad = [x for x in r['results'] if x[0] != 'ok']
    if bad:
        ctx.oracle_fail(case, 'file-backend worker process ended with %s' % bad, 'fileproc:worker_failed')
    if not r['lock_free']:
        ctx.oracle_fail(case, 'the session lock file is still locked after all processes ended',
                        'fileproc:lock_not_released')
    elif r['final'] != r['expected']:
        ctx.oracle_fail(case, 'file backend across %d processes: final counter %r, %d increments were made '
                              '(lost update)' % (procs, r['final'], r['expected']), 'fileproc:lost_update')


# ------------------------------------------------------------------------------------------------
def corpus_cases():
    d = os.path.join(common.CORPUS, PROPERTY)
    out = []
    if os.path.isdir(d):
        for f in sorted(os.listdir(d)):
            if f.endswith('.json'):
                out.append(json.load(open(os.path.join(d, f))))
    return out


def run_one(ctx, case, variant, compare=True):
    kind = case.get('kind', 'ram')
    if kind == 'ram':
        check_ramn(ctx, [run_ramn_case(from_old_ram(case))], variant, compare)
    elif kind == 'ramn':
        check_ramn(ctx, [run_ramn_case(case)], variant, compare)
    elif kind == 'req':
        check_req(ctx, [case], compare and case.get('out') != 'iredir' and not case.get('relFail')
                  and not case.get('srFail'))
    elif kind == 'wsgi':
        check_wsgi(ctx, [case])
    elif kind == 'fileproc':
        check_file_processes(ctx, case['procs'], case['incs'], case['sweeps'])
    elif kind == 'fsched':
        check_fsched(ctx, [(case,) + FS.run_case(case)], compare)
    else:
        raise common.HarnessError('unknown case kind %r' % kind)


F21_WITNESS = {'kind': 'ramn', 'ids': [[[5, 0], True]], 'thrs': [[0, 'm'], [0, 'm']], 'nsw': 2,
               'sched': ['0', '1'] + ['S0'] * 3 + ['S1'] * 4 + ['S0'] * 3 + ['0'] * 3 + ['S1'] * 3 + ['1'] * 4}


def detect_variants(ctx=None):
    """Which clean_up protocol does the live code implement?  Decided by behaviour on the two-sweeper
    witness: does a sweeper take a lock object out of the table that it does not own."""
    o0, trace, final, obs = N.run_case(F21_WITNESS)
    from cherrypy.lib import sessions
    v = {'sv': 'orig' if (obs['foreign_pop'] or obs['errors']) else 'recheck',
         'memcached': hasattr(sessions, 'MemcachedSession')}
    if ctx is not None:
        ctx.extra['ram_clean_up_protocol'] = v['sv']
        ctx.extra['memcached_backend_covered'] = v['memcached']
        ctx.note('RamSession.clean_up protocol detected by behaviour: %s' % v['sv'])
    return v


def coverage_pass(ctx, variants):
    """A representative sample of every kind of case under a line tracer restricted to the anchored
    functions (oracle + comparison run as usual on these cases too)."""
    import random
    rng = random.Random(1300 + ctx.rng.randrange(1000))
    N.DEBUG = FS.DEBUG = True
    try:
        _coverage_pass(ctx, variants, rng)
    finally:
        N.DEBUG = FS.DEBUG = False


def _coverage_pass(ctx, variants, rng):
    with COV.Tracer() as tr:
        ctx.extra['cleanup_monitors_started_by_two_ram_subclasses'] = COV.probe_monitors()
        items = [run_ramn_case(F21_WITNESS)]
        items += [run_ramn_case(gen_ramn_random(rng)) for _ in range(30)]
        items += [run_ramn_case(gen_ramn_window(rng)) for _ in range(8)]
        if variants.get('memcached'):
            items += [run_ramn_case(gen_ramn_random(rng, 'memcached')) for _ in range(10)]
        check_ramn(ctx, items, variants)
        fitems = []
        for g in [FS.gen_random] * 20 + [FS.gen_timeout] * 20:
            case = g(rng)
            fitems.append((case,) + FS.run_case(case))
        check_fsched(ctx, fitems)
        check_req(ctx, [dict(p, debug=(i % 2 == 0)) for i, p in enumerate(targeted_plans(rng))]
                  + [dict(REQ.gen_plan(rng)) for _ in range(30)])
        check_wsgi(ctx, wsgi_systematic()[::9])
    total, missing = tr.report()
    ctx.extra['anchored_lines_total'] = total
    ctx.extra['anchored_lines_not_executed'] = missing
    ctx.note('anchored functions: %d executable lines, %d never executed (%d without a recorded reason)'
             % (total, len(missing), len([m for m in missing if not m['why']])))


def run(ctx):
    _setup_cherrypy()
    variants = detect_variants(ctx)
    for e in ctx.known:
        w = e.get('witness')
        if w and e.get('status') in ('known', 'fixed'):
            run_one(ctx, w, variants)
    for c in corpus_cases():
        run_one(ctx, c, variants)
    import time as _t
    t0 = _t.time()

    def lap(name):
        nonlocal t0
        ctx.note('%s: %.1fs' % (name, _t.time() - t0))
        t0 = _t.time()
    coverage_pass(ctx, variants)
    lap('coverage pass')
    ramn_stream(ctx, variants, ctx.budget(150, 6000), ctx.budget(150, 6000), ctx.budget(1, 2))
    lap('ram schedules')
    fsched_stream(ctx, ctx.budget(150, 6000), ctx.budget(1, 2))
    lap('file schedules')
    check_req(ctx, targeted_plans(ctx.rng))
    check_req(ctx, [REQ.gen_plan(ctx.rng) for _ in range(ctx.budget(400, 12000))])
    check_release_faults(ctx)
    check_internal_redirects(ctx)
    check_start_response_faults(ctx)
    lap('request plans')
    check_wsgi(ctx, wsgi_systematic())
    check_wsgi(ctx, [WSGI.gen_case(ctx.rng) for _ in range(ctx.budget(120, 2500))])
    lap('wsgi threads')
    if any('file' in str(sig) or 'fsched' in str(sig) for _, _, sig in ctx.oracle_failures):
        # a file lock that is not released would make the worker processes wait for ever
        ctx.note('multi-process file test skipped: the file backend already failed the oracle')
    else:
        check_file_processes(ctx, 2, ctx.budget(15, 200), ctx.budget(5, 60))
        if not ctx.quick():
            check_file_processes(ctx, 4, 100, 60)
    lap('file processes')


def search(ctx, around=None):
    _setup_cherrypy()
    variants = detect_variants()
    ramn_stream(ctx, variants, 1500, 1500, 1, compare=False)
    fsched_stream(ctx, 1500, 1, compare=False)
    check_req(ctx, targeted_plans(ctx.rng), compare=False)
    check_req(ctx, [REQ.gen_plan(ctx.rng) for _ in range(3000)], compare=False)
    check_wsgi(ctx, wsgi_systematic())
    check_wsgi(ctx, [WSGI.gen_case(ctx.rng) for _ in range(600)])


def replay(ctx, case):
    _setup_cherrypy()
    variants = detect_variants()
    print('clean_up protocol:', variants['sv'])
    kind = case.get('kind', 'ram')
    if kind in ('ram', 'ramn'):
        c = from_old_ram(case) if kind == 'ram' else case
        o0, trace, final, obs = N.run_case(c)
        rv = 'recheck' if c.get('backend', 'ram') == 'ram' else 'orig'
        m = ctx.model([N.model_line(c, o0, trace, final, rv, variants['sv'])])
        print('      start      %s' % N.nats(o0))
        for i, (t, o, lab) in enumerate(trace):
            print('%3d %-3s %-5s impl  %s' % (i, t, lab, N.nats(o)))
        print('final (blocked):', final)
        print('model:', m[0] if m else None)
        print('observed:', json.dumps(obs, sort_keys=True, default=str))
    elif kind == 'req':
        r = REQ.run_plan(case)
        print('impl :', json.dumps(r, sort_keys=True))
        if case.get('out') != 'iredir':
            m = ctx.model([REQ.plan_line(case)])
            print('model:', m[0] if m else None)
    elif kind == 'fsched':
        o0, trace, final, obs = FS.run_case(case)
        m = ctx.model([FS.model_line(case, o0, trace, final)])
        print('      start      %s' % FS.nats(o0))
        for i, (t, o, lab) in enumerate(trace):
            print('%3d %-3s %-5s impl  %s' % (i, t, lab, FS.nats(o)))
        print('final (blocked):', final)
        print('model:', m[0] if m else None)
        print('observed:', json.dumps(obs, sort_keys=True))
    elif kind == 'wsgi':
        toks, obs = WSGI.run_case(case)
        print('schedule:', ' '.join(toks))
        print('observed:', json.dumps(obs, sort_keys=True))
    run_one(ctx, case, variants)
