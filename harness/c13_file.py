"""C13 (b): the file backend across PROCESSES, with the real `filelock`.

`procs` worker processes each perform `incs` read-modify-writes of a counter stored in one
FileSession (acquire_lock / load / save with release), while one more process runs
`FileSession.clean_up()` in a loop.  Oracle: the final counter equals the number of increments,
nobody failed, and afterwards the lock file can be taken immediately.
No timing assertion: the only clock is the overall harness timeout (-> HarnessError, exit 2).
"""
from __future__ import annotations

import multiprocessing as mp
import os
import shutil
import tempfile

from . import common

SID = 'c13f' + '0' * 36


def _worker(args):
    path, incs = args
    from cherrypy.lib import sessions
    done = 0
    for _ in range(incs):
        s = sessions.FileSession(id=SID, storage_path=path, timeout=60, clean_freq=0)
        if s.id != SID:
            return ('regenerated', done)
        s.acquire_lock()
        try:
            v = s.get('n', 0)
            s['n'] = v + 1
        finally:
            s.save()                      # Session.save: finally -> release_lock
        if s.locked:
            return ('still-locked', done)
        done += 1
    return ('ok', done)


def _sweeper(args):
    path, rounds = args
    from cherrypy.lib import sessions
    s = sessions.FileSession(id=SID, storage_path=path, timeout=60, clean_freq=0)
    for _ in range(rounds):
        s.clean_up()
    return ('ok', rounds)


def run_processes(procs, incs, sweeps, timeout=240):
    from cherrypy.lib import sessions
    from .c13_req import file_lock_free
    tmp = tempfile.mkdtemp(prefix='c13f-')
    try:
        s = sessions.FileSession(id=None, storage_path=tmp, timeout=60, clean_freq=0)
        s.id = SID                       # a known id; created under its own lock
        s.acquire_lock()
        s['n'] = 0
        s.save()
        ctx = mp.get_context('fork')
        with ctx.Pool(procs + 1) as pool:
            rs = [pool.apply_async(_worker, ((tmp, incs),)) for _ in range(procs)]
            rw = pool.apply_async(_sweeper, ((tmp, sweeps),))
            try:
                results = [r.get(timeout=timeout) for r in rs]
                sweep = rw.get(timeout=timeout)
            except mp.TimeoutError:
                pool.terminate()
                raise common.HarnessError('file-backend processes did not finish within %ds' % timeout)
        chk = sessions.FileSession(id=SID, storage_path=tmp, timeout=60, clean_freq=0)
        lockfile = os.path.join(tmp, 'session-' + SID + '.lock')
        free = file_lock_free(lockfile) if os.path.exists(lockfile) else True
        final = None
        if chk.id == SID and free:
            chk.acquire_lock()
            final = chk.get('n')
            chk.release_lock()
        return {'results': results, 'sweeper': sweep, 'final': final, 'lock_free': free,
                'expected': sum(r[1] for r in results)}
    finally:
        shutil.rmtree(tmp, ignore_errors=True)
