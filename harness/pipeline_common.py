"""Shared by C09 and C01: fault plans for the request pipeline, the real-code runner, canonical forms.

A *fault plan* (a JSON-able dict) assigns an outcome to every user-callback site of one to three
pages of a real `cherrypy.Application`, and says how the (simulated) WSGI server consumes the result:

    {'meth': 'get'|'head'|'post', 'noHost': 0|1, 'badQuery': 0|1, 'reads': None|m, 'closes': n, 'start': i,
     'gtb': 0|1 (request.show_tracebacks in the global config; default 1),
     'pages': [{'dispatch': OUT, 'ns': OUT, 'body': OUT, 'handler': [OUT, SHAPE, STATUS|None],
                'errResp': None|OUT, 'errPage': 'absent'|'cbOk'|'cbFail'|'tmplFail', 'tb': 0|1, 'stream': 0|1,
                ('genx': OUT  - optional, C01 only, streamed pages only: what a 'gen<k>' body raises instead of an
                                ordinary Exception; the model has one answer for every Exception class there)
                'hooks': [[point 0..7, id, priority, failsafe 0|1, OUT(, VIA)], ...]
                         # VIA (optional): 'c' = a Hook object in config `hooks.<point>.<n>` (default);
                         # 'cd' = the bare callable in config (only for priority 50, not fail-safe: the documented
                         # defaults of Hook, filled in by hooks_namespace / Hook.__init__);
                         # 't1' | 't2' | 't3' = through a cherrypy Tool of the toolbox `vt` switched on in config, the
                         # priority given by Tool(..., priority=), by `vt.<tool>.priority` in config, or by the
                         # callable's `priority` attribute; fail-safe by the callable's `failsafe` attribute.
                         # Attachment order = config hooks in list order, then tool hooks in list order.
               }, ...]}
    OUT = 'ok' | 'he<code>' | 'hr<code>' | 'ir<page>' | 'ex'

The runner builds the application (probe hooks attached through config `hooks.<point>.<n>` as
`cherrypy._cprequest.Hook` objects, probe handler, `request.error_response`, `error_page.default`,
`request.dispatch`, a `vp` config namespace, a body processor), calls it in-process as a WSGI callable
and records a journal.  Nothing in cherrypy is patched: the only observation devices are subclasses
installed through public extension points (`Application.request_class` with a `HookMap` subclass whose
`run` journals the visit and then calls the real `run`; `Request.close` wrapped the same way).
"""
import atexit
import io
import os
import shutil
import sys
import tempfile

from . import common  # noqa: F401  (sets sys.path for CHERRYPY_REPO before cherrypy is imported)

import cherrypy
from cherrypy import _cprequest

POINTS = list(_cprequest.hookpoints)
POINT_NAMES = ['on_start_resource', 'before_request_body', 'before_handler', 'before_finalize',
               'on_end_resource', 'on_end_request', 'before_error_response', 'after_error_response']

_configured = [False]


def _configure():
    if not _configured[0]:
        cherrypy.config.update({'environment': 'test_suite', 'log.screen': False})
        _configured[0] = True


class Runaway(BaseException):
    """Raised by the probes when a run creates an absurd number of Request objects (a redirect loop that
    does not terminate): a BaseException, so that nothing in cherrypy swallows it."""


MAX_REQUESTS = 40


class ProbeError(Exception):
    """The 'arbitrary Exception' of the fault plans; its message carries a marker."""


class ProbeValueError(ValueError):
    """A private subclass of a builtin class CherryPy catches internally."""


# what the outcome 'ex' raises: by default the private ProbeError; the optional plan key 'xcls' (C01) names another
# class of the builtin hierarchy CherryPy itself catches / uses internally.  Every one is built with the marker
# message as its only argument (args[0] is the "secret").
EX_CLASSES = {
    'ProbeError': ProbeError, 'ProbeValueError': ProbeValueError, 'ValueError': ValueError, 'TypeError': TypeError,
    'KeyError': KeyError, 'AttributeError': AttributeError, 'LookupError': LookupError, 'IndexError': IndexError,
    'UnicodeError': UnicodeError, 'OSError': OSError, 'RuntimeError': RuntimeError, 'StopIteration': StopIteration,
    'AssertionError': AssertionError, 'ZeroDivisionError': ZeroDivisionError, 'NotImplementedError': NotImplementedError,
    'CherryPyException': cherrypy.CherryPyException,
}


def probe_exc(text):
    """The exception object for the outcome 'ex' of the running plan."""
    run = _run[0]
    cls = EX_CLASSES.get(getattr(run, 'xcls', None) or 'ProbeError') or ProbeError
    return cls(text)


MARK = 'VPMARK'
PAGE_CHUNK = b'VP-PAGE-CHUNK;'
CB_PAGE = 'VP-ERRORPAGE-CB'
CUSTOM_ER = b'VP-CUSTOM-ERROR-RESPONSE'

_tmp = {'dir': None, 'pid': None}


def _bad_template():
    """A template file whose %-interpolation raises KeyError (created once, removed at exit)."""
    if _tmp['dir'] is None:
        d = tempfile.mkdtemp(prefix='vp-pipeline-')
        _tmp['dir'], _tmp['pid'] = d, os.getpid()
        with open(os.path.join(d, 'bad.tmpl'), 'w') as f:
            f.write('<html>%(status)s %(nosuchkey)s</html>')

        def _cleanup():
            if os.getpid() == _tmp['pid']:
                shutil.rmtree(d, ignore_errors=True)
        atexit.register(_cleanup)
    return os.path.join(_tmp['dir'], 'bad.tmpl')


# ----------------------------------------------------------------------------------------------
# finite tables of the anchored code, obtained by *executing* it (regenerated on every run)
# ----------------------------------------------------------------------------------------------
def _ranges(nums):
    out = []
    for n in sorted(nums):
        if out and out[-1][1] == n - 1:
            out[-1][1] = n
        else:
            out.append([n, n])
    return out


def _lean_ranges(rs):
    return '[' + ', '.join('(%d, %d)' % (a, b) for a, b in rs) + ']'


TABLE_LIMIT = 1200


def probe_tables():
    """Run valid_status / HTTPError / HTTPRedirect / Response.finalize over 0..TABLE_LIMIT-1."""
    _configure()
    from cherrypy.lib import httputil
    valid, falsy = [], None
    for n in range(TABLE_LIMIT):
        try:
            code = httputil.valid_status(n)[0]
        except ValueError:
            continue
        if code == n:
            valid.append(n)
        elif n == 0:
            falsy = code
        else:
            raise common.HarnessError('valid_status(%d) -> %d: not expressible in the model' % (n, code))
    if falsy is None:
        raise common.HarnessError('valid_status(0) is rejected: the model assumes the falsy default')
    he_ok, he_exc, he_fallback = [], [], set()
    for n in range(TABLE_LIMIT):
        try:
            e = cherrypy.HTTPError(n)
        except cherrypy.HTTPError as e2:
            he_fallback.add(e2.code)
            continue
        except Exception:     # noqa: BLE001
            he_exc.append(n)
            continue
        if e.code != n:
            raise common.HarnessError('HTTPError(%d).code == %d' % (n, e.code))
        he_ok.append(n)
    if len(he_fallback) != 1:
        raise common.HarnessError('HTTPError fallback codes %s' % sorted(he_fallback))
    hr_ok = []
    serving = cherrypy.serving
    req = _cprequest.Request(cherrypy.lib.httputil.Host('127.0.0.1', 80), cherrypy.lib.httputil.Host('127.0.0.1', 1111))
    resp = _cprequest.Response()
    serving.load(req, resp)
    try:
        for n in range(TABLE_LIMIT):
            try:
                cherrypy.HTTPRedirect('/x', n)
            except Exception:     # noqa: BLE001
                continue
            hr_ok.append(n)
        hr_known = []
        for n in hr_ok:
            serving.load(req, _cprequest.Response())
            try:
                cherrypy.HTTPRedirect('/x', n).set_response()
            except Exception:     # noqa: BLE001 - whatever it raises, the model's outcome is "raises"
                continue
            hr_known.append(n)
        nobody = []
        for n in valid:
            r = _cprequest.Response()
            serving.load(req, r)
            r.status = n
            r.body = [b'x']
            try:
                r.finalize()
            except Exception as e:     # noqa: BLE001
                raise common.HarnessError('Response.finalize fails for the valid status %d: %r' % (n, e))
            if b''.join(r.body) == b'':
                nobody.append(n)
        # the same with response.stream on (the body is dropped there too once finalize tests the status first)
        nobody_stream = []
        for n in valid:
            r = _cprequest.Response()
            serving.load(req, r)
            r.status = n
            r.stream = True
            r.body = [b'x']
            try:
                r.finalize()
            except Exception as e:     # noqa: BLE001
                raise common.HarnessError('Response.finalize (streamed) fails for the valid status %d: %r' % (n, e))
            if b''.join(r.body) == b'':
                nobody_stream.append(n)
    finally:
        serving.clear()
    # does AppResponse.close(), called from the `except` block of __init__ before `self.iter_response` exists,
    # raise when the response is streamed?  (then an InternalRedirect out of a streaming page becomes a 500)
    probe = base_plan([base_page(handler=['ir1', 'bytes', None], stream=1), base_page()])
    obs = run_real(probe)
    first = obs['starts'][0][0][:3] if obs['starts'] and isinstance(obs['starts'][0][0], str) else '???'
    # anything but a clean 200 keeps the flag set: a tree on which this probe itself misbehaves (escaping
    # exception, no response) is for the check proper to report, with a replayable plan
    close_raises = first != '200'
    return {'close_before_iter_raises': close_raises, 'valid': _ranges(valid), 'falsy': falsy, 'he_ok': _ranges(he_ok), 'he_exc': _ranges(he_exc),
            'he_fallback': sorted(he_fallback)[0], 'hr_ok': _ranges(hr_ok), 'hr_known': hr_known,
            'nobody': _ranges(nobody), 'nobody_stream': _ranges(nobody_stream), 'hookpoints': list(_cprequest.hookpoints)}


def tables(ctx=None):
    t = probe_tables()
    if t['hookpoints'] != POINT_NAMES:
        raise common.HarnessError('hookpoints changed: %s' % t['hookpoints'])
    src = """/-!
  GENERATED by harness/pipeline_common.py (tables) from the live modules under the repository on every
  run of the C09 / C01 checks - do not edit.  Every entry was obtained by executing the real function
  over 0..%d: `httputil.valid_status`, the `HTTPError` / `HTTPRedirect` constructors,
  `HTTPRedirect.set_response`, `Response.finalize`.  Ranges are inclusive.
-/
namespace CpModel.Gen.Pipeline

/-- codes `valid_status` accepts (and returns unchanged) -/
def validStatusRanges : List (Nat × Nat) := %s

/-- what `valid_status` makes of a falsy status (`None`, `''`, `0`) -/
def falsyStatusCode : Nat := %d

/-- `HTTPError(c)` is constructed with code `c` -/
def httpErrorOkRanges : List (Nat × Nat) := %s

/-- `HTTPError(c)` raises a plain `ValueError` instead -/
def httpErrorExcRanges : List (Nat × Nat) := %s

/-- everything else: `valid_status` rejects `c`, the constructor re-raises its own class with this code -/
def httpErrorFallbackCode : Nat := %d

/-- `HTTPRedirect(url, c)` is constructed (otherwise `ValueError`) -/
def httpRedirectOkRanges : List (Nat × Nat) := %s

/-- codes for which `HTTPRedirect.set_response` does not raise -/
def redirectKnownCodes : List Nat := %s

/-- valid codes for which `Response.finalize` drops the body -/
def noBodyRanges : List (Nat × Nat) := %s

/-- the same with `response.stream` on (empty before finalize tested the status ahead of `self.stream`) -/
def noBodyStreamRanges : List (Nat × Nat) := %s

/-- `cherrypy._cprequest.hookpoints` -/
def hookpointCount : Nat := %d

/-- `AppResponse.close()` run from the `except` block of `__init__` (before `self.iter_response` is
    assigned) raises `AttributeError` when `response.stream` is true — observed by sending a request to a
    streaming page that raises `InternalRedirect` (500 instead of the redirect target's answer) -/
def closeBeforeIterRaises : Bool := %s

end CpModel.Gen.Pipeline
""" % (TABLE_LIMIT - 1, _lean_ranges(t['valid']), t['falsy'], _lean_ranges(t['he_ok']), _lean_ranges(t['he_exc']),
       t['he_fallback'], _lean_ranges(t['hr_ok']), '[' + ', '.join(map(str, t['hr_known'])) + ']',
       _lean_ranges(t['nobody']), _lean_ranges(t['nobody_stream']), len(t['hookpoints']),
       'true' if t['close_before_iter_raises'] else 'false')
    return {'CpModel/Gen/PipelineTables.lean': src}


# ----------------------------------------------------------------------------------------------
# the journal of one run
# ----------------------------------------------------------------------------------------------
class Run:
    def __init__(self):
        self.j = []            # canonical tokens
        self.reqs = []         # ProbeRequest objects in creation order
        self.closing = []
        self.starts = []       # (status, headers, exc_info is not None)
        self.sites = []        # (site, planned outcome) of every probe callback, in call order (for oracles)
        self.chunk_before_start = False

    def cur(self):
        if self.closing:
            return self.closing[-1]
        return getattr(cherrypy.serving.request, '_vp_idx', 'x')


_run = [None]


def do_raise(out, site):
    if _run[0] is not None:
        _run[0].sites.append((site, out))
    if out == 'ok':
        return
    if out == 'ex':
        raise probe_exc('%s-%s' % (MARK, site))
    k, n = out[:2], int(out[2:])
    if k == 'he':
        raise cherrypy.HTTPError(n, 'VPMSG-%s' % site)
    if k == 'hr':
        raise cherrypy.HTTPRedirect('/elsewhere', n)
    if k == 'ir':
        raise cherrypy.InternalRedirect('/p%d' % n)
    raise common.HarnessError('bad outcome %r' % out)


class ProbeHookMap(_cprequest.HookMap):
    def run(self, point):
        run = _run[0]
        if run is not None:
            run.j.append('v%s.%d' % (run.cur(), POINTS.index(point)))
        return _cprequest.HookMap.run(self, point)


def _vp_namespace(k, v):
    do_raise(v, 'namespace')


# one toolbox for the probe tools; registered in the request's namespaces *before* `vp`, so that a failing
# namespace handler finds every hook attached already
VT = cherrypy._cptools.Toolbox('vt')


class ProbeRequest(_cprequest.Request):
    hooks = ProbeHookMap(_cprequest.hookpoints)
    namespaces = _cprequest.Request.namespaces.copy()
    namespaces['vt'] = VT
    namespaces['vp'] = _vp_namespace

    def __init__(self, *a, **k):
        _cprequest.Request.__init__(self, *a, **k)
        run = _run[0]
        self._vp_idx = len(run.reqs)
        run.reqs.append(self)
        if len(run.reqs) > MAX_REQUESTS:
            raise Runaway()

    def close(self):
        run = _run[0]
        run.closing.append(self._vp_idx)
        try:
            return _cprequest.Request.close(self)
        finally:
            run.closing.pop()


class ProbeDispatcher(cherrypy.dispatch.Dispatcher):
    def __init__(self, out):
        cherrypy.dispatch.Dispatcher.__init__(self)
        self.out = out

    def __call__(self, path_info):
        do_raise(self.out, 'dispatch')
        return cherrypy.dispatch.Dispatcher.__call__(self, path_info)


def _mk_hook(point, hid, out):
    def cb():
        run = _run[0]
        run.j.append('h%s.%d.%d' % (run.cur(), point, hid))
        do_raise(out, 'hook%d.%d' % (point, hid))
    cb.vp_id = hid
    cb.vp_out = out
    return cb


def _mk_body_proc(out):
    def proc(entity):
        entity.fp.read()
        do_raise(out, 'body')
    return proc


def _mk_error_response(out):
    def er():
        run = _run[0]
        run.j.append('R%s' % run.cur())
        do_raise(out, 'errresp')
        resp = cherrypy.serving.response
        resp.status = 503
        resp.headers.pop('Content-Length', None)
        resp.body = CUSTOM_ER
    return er


def _ep_ok(status='', message='', traceback='', version='', **kw):
    run = _run[0]
    run.j.append('P%s' % run.cur())
    return '%s status=%s tb=[%s]' % (CB_PAGE, status, traceback)


def _ep_fail(**kw):
    run = _run[0]
    run.j.append('P%s' % run.cur())
    run.sites.append(('errpage', 'ex'))
    raise probe_exc('%s-errpage' % MARK)


def _gen_exc(out):
    """The exception object a failing generator raises for the optional page key 'genx' (an OUT other than 'ok' /
    'ex': CherryPy's own control-flow classes), built while the request is live."""
    k, n = out[:2], int(out[2:])
    if k == 'he':
        return cherrypy.HTTPError(n, 'VPMSG-gen')
    if k == 'hr':
        return cherrypy.HTTPRedirect('/elsewhere', n)
    if k == 'ir':
        return cherrypy.InternalRedirect('/p%d' % n)
    raise common.HarnessError('bad genx %r' % out)


def _gen_body(k, exc=None, out='ex'):
    if k is None:
        yield PAGE_CHUNK
        yield PAGE_CHUNK
        return
    for _ in range(k):
        yield PAGE_CHUNK
    if _run[0] is not None:
        _run[0].sites.append(('gen', out))
    if exc is not None:
        raise exc
    raise probe_exc('%s-gen' % MARK)


class Root:
    def __init__(self, pages):
        self.pages = pages

    @cherrypy.expose
    def default(self, *args, **kwargs):
        run = _run[0]
        run.j.append('H%s' % run.cur())
        try:
            idx = int(args[0][1:]) if args and args[0][:1] == 'p' else -1
        except ValueError:
            idx = -1
        if not (0 <= idx < len(self.pages)):
            # a path the plan has no page for: what the default dispatcher does when nothing matches
            raise cherrypy.NotFound()
        out, shape, status = self.pages[idx]['handler']
        do_raise(out, 'handler')
        if status is not None:
            cherrypy.serving.response.status = status
        if shape == 'bytes':
            return PAGE_CHUNK
        if shape == 'list':
            return [PAGE_CHUNK, PAGE_CHUNK]
        if shape == 'gen':
            return _gen_body(None)
        if shape.startswith('gen'):
            # optional page key 'genx' (C01): the class of what the generator raises
            genx = self.pages[idx].get('genx')
            if genx and genx != 'ex':
                return _gen_body(int(shape[3:]), _gen_exc(genx), genx)
            return _gen_body(int(shape[3:]))
        if shape == 'file':
            return io.BytesIO(PAGE_CHUNK * 3)
        if shape == 'none':
            return None
        if shape == 'str':
            return 'VP-TEXT-PAGE'
        if shape == 'nonit':
            return 12345
        raise common.HarnessError('bad shape %r' % shape)


def build_app(plan):
    _configure()
    # the tools the global config switches on by default (encode, trailing_slash, log_tracebacks,
    # log_headers) would attach hooks of their own and wrap the handler: the plans exercise the bare core
    conf = {'/': {'tools.encode.on': False, 'tools.trailing_slash.on': False,
                  'tools.log_tracebacks.on': False, 'tools.log_headers.on': False}}
    for i, pg in enumerate(plan['pages']):
        sec = {}
        # the failing namespace entry goes first; `vp` is processed after the built-in namespaces anyway
        if pg['ns'] != 'ok':
            sec['vp.site'] = pg['ns']
        for n, hk in enumerate(pg['hooks']):
            point, hid, prio, fs, out = hk[:5]
            via = hk[5] if len(hk) > 5 else 'c'
            if via == 'c':
                sec['hooks.%s.%d' % (POINTS[point], n)] = _cprequest.Hook(
                    _mk_hook(point, hid, out), failsafe=bool(fs), priority=prio)
            elif via == 'cd':
                if prio != 50 or fs:
                    raise common.HarnessError("via 'cd' needs the default priority 50 and failsafe 0")
                sec['hooks.%s.%d' % (POINTS[point], n)] = _mk_hook(point, hid, out)
        for n, hk in enumerate(pg['hooks']):
            point, hid, prio, fs, out = hk[:5]
            via = hk[5] if len(hk) > 5 else 'c'
            if via in ('c', 'cd'):
                continue
            cb = _mk_hook(point, hid, out)
            if fs:
                cb.failsafe = True
            name = 'h%d_%d' % (i, hid)
            if via == 't1':
                tool = cherrypy.Tool(POINTS[point], cb, priority=prio)
            elif via == 't2':
                tool = cherrypy.Tool(POINTS[point], cb, priority=(prio + 17) % 100)
                sec['vt.%s.priority' % name] = prio
            else:
                cb.priority = prio
                tool = cherrypy.Tool(POINTS[point], cb)
            setattr(VT, name, tool)
            sec['vt.%s.on' % name] = True
        sec['request.show_tracebacks'] = bool(pg['tb'])
        if pg['stream']:
            sec['response.stream'] = True
        if pg['errResp'] is not None:
            sec['request.error_response'] = _mk_error_response(pg['errResp'])
        if pg['errPage'] == 'cbOk':
            sec['error_page.default'] = _ep_ok
        elif pg['errPage'] == 'cbFail':
            sec['error_page.default'] = _ep_fail
        elif pg['errPage'] == 'tmplFail':
            sec['error_page.default'] = _bad_template()
        if pg['dispatch'] != 'ok':
            sec['request.dispatch'] = ProbeDispatcher(pg['dispatch'])
        if pg['body'] != 'ok':
            sec['request.body.processors'] = {'application/x-vp': _mk_body_proc(pg['body'])}
        conf['/p%d' % i] = sec
    app = cherrypy.Application(Root(plan['pages']), '', conf)
    app.request_class = ProbeRequest
    app.toolboxes['vt'] = VT
    return app


def build_environ(plan):
    meth = plan['meth'].upper()
    env = {
        'REQUEST_METHOD': meth, 'SCRIPT_NAME': '', 'PATH_INFO': '/p%d' % plan['start'],
        'QUERY_STRING': '%FF=%FE' if plan['badQuery'] else '',
        'SERVER_NAME': 'localhost', 'SERVER_PORT': '80', 'SERVER_PROTOCOL': 'HTTP/1.1',
        'wsgi.version': (1, 0), 'wsgi.url_scheme': 'http', 'wsgi.input': io.BytesIO(b''),
        'wsgi.errors': sys.stderr, 'wsgi.multithread': False, 'wsgi.multiprocess': False,
        'wsgi.run_once': False,
    }
    if not plan['noHost']:
        env['HTTP_HOST'] = 'localhost'
    if meth == 'POST':
        pages = plan['pages']
        pg = pages[plan['start']] if plan['start'] < len(pages) else None
        if pg is not None and pg['body'] != 'ok':
            body, ct = b'x', 'application/x-vp'
        else:
            body, ct = b'a=1', 'application/x-www-form-urlencoded'
        env['wsgi.input'] = io.BytesIO(body)
        env['CONTENT_LENGTH'] = str(len(body))
        env['CONTENT_TYPE'] = ct
    return env


def run_real(plan, app_wrapper=None):
    """Execute the plan on the real code.  Returns the observation dict."""
    app = build_app(plan)
    cherrypy.config.update({'request.show_tracebacks': bool(plan.get('gtb', 1))})
    wsgi_app = app_wrapper(app) if app_wrapper else app
    env = build_environ(plan)
    run = Run()
    run.xcls = plan.get('xcls')      # optional (C01): class of what the outcome 'ex' raises
    _run[0] = run
    chunks, escaped, it = [], None, None
    try:
        def start_response(status, headers, exc_info=None):
            code = status[:3] if isinstance(status, str) else '???'
            run.j.append('S%s.%d' % (code, 1 if exc_info is not None else 0))
            run.starts.append((status, headers, exc_info is not None))
            exc_info = None
            return lambda data: None

        try:
            it = wsgi_app(env, start_response)
            run.returned = type(it).__name__
            itr = iter(it)
            n = 0
            while plan['reads'] is None or n < plan['reads']:
                try:
                    c = next(itr)
                except StopIteration:
                    break
                if not run.starts:
                    run.chunk_before_start = True
                chunks.append(c)
                n += 1
        except Exception as e:     # noqa: BLE001 - exactly what C01 forbids; recorded, not raised
            escaped = 'call/next: %s: %s' % (type(e).__name__, e)
        except Runaway:
            escaped = 'call/next: Runaway: more than %d Request objects for one request' % MAX_REQUESTS
        for _ in range(plan['closes']):
            run.j.append('C')
            if it is not None and hasattr(it, 'close'):
                try:
                    it.close()
                except Exception as e:     # noqa: BLE001
                    escaped = 'close: %s: %s' % (type(e).__name__, e)
    finally:
        _run[0] = None
        try:
            cherrypy.serving.clear()
        except Exception:     # noqa: BLE001
            pass
    reqs = []
    for rq in run.reqs:
        attached = {}
        for p, name in enumerate(POINTS):
            lst = []
            # (read defensively: a change to the code under test may leave anything in request.hooks)
            hm = getattr(rq, 'hooks', None)
            entries = hm.get(name, []) if isinstance(hm, dict) else []
            for h in (entries if isinstance(entries, (list, tuple)) else []):
                cb = getattr(h, 'callback', None)
                try:
                    fs = bool(getattr(h, 'failsafe', False))
                except Exception:     # noqa: BLE001
                    fs = False
                lst.append((getattr(cb, 'vp_id', -1), getattr(h, 'priority', None), fs, getattr(cb, 'vp_out', 'ok')))
            attached[p] = lst
        reqs.append({'hooks': attached, 'show_tracebacks': bool(getattr(rq, 'show_tracebacks', True)),
                     'closed': bool(getattr(rq, 'closed', False))})
    return {'j': run.j, 'starts': run.starts, 'chunks': chunks, 'escaped': escaped, 'reqs': reqs,
            'sites': run.sites, 'chunk_before_start': run.chunk_before_start}


# ----------------------------------------------------------------------------------------------
# line protocol (see lean/CpModel/PipelineProto.lean)
# ----------------------------------------------------------------------------------------------
def plan_line(plan):
    def opt(x):
        return 'N' if x is None else str(x)
    head = [plan['meth'], str(plan['noHost']), str(plan['badQuery']), opt(plan['reads']), str(plan['closes']),
            str(plan['start']), str(plan.get('gtb', 1))]
    out = [' '.join(head)]
    for pg in plan['pages']:
        h = pg['handler']
        eff = ([x for x in pg['hooks'] if len(x) < 6 or x[5] in ('c', 'cd')]
               + [x for x in pg['hooks'] if len(x) > 5 and x[5] not in ('c', 'cd')])
        hooks = ','.join('%d.%d.%d.%d.%s' % tuple(x[:5]) for x in eff) or '-'
        out.append(' '.join([pg['dispatch'], pg['ns'], pg['body'], '%s/%s/%s' % (h[0], h[1], opt(h[2])),
                             opt(pg['errResp']), pg['errPage'], str(pg['tb']), str(pg['stream']), hooks]))
    return ' | '.join(out)


def parse_model(line):
    parts = dict(p.split('=', 1) for p in line.split(' '))
    return {'j': [] if parts['J'] == '-' else parts['J'].split(','), 'body': parts['B'],
            'tail': None if parts['T'] == 'N' else int(parts['T']), 'escaped': parts['X'] == '1',
            'fuel': parts['F'] == '1', 'req_tb': parts['Q'] == '1', 'trapped_at_init': parts['I'] == '1'}


def body_flags_real(obs):
    text = b''.join(c if isinstance(c, bytes) else repr(c).encode() for c in obs['chunks'])
    fl = set()
    if b'Unrecoverable error in the server.' in text:
        fl.add('bare')
    if b'Traceback (most recent call last)' in text:
        fl.add('tb')
    if b'Powered by <a href="http://www.cherrypy.dev">' in text:
        fl.add('ep')
    if b'In addition, the custom error page failed' in text:
        fl.add('msg')
    if CB_PAGE.encode() in text:
        fl.add('cb')
    if CUSTOM_ER in text:
        fl.add('custom')
    return sorted(fl)


def body_flags_model(m):
    fl = set()
    b = m['body']
    if b.startswith('bare'):
        fl.add('bare')
        if b[4] == '1':
            fl.add('tb')
    elif b.startswith('ep'):
        fl.add('ep')
        if b[2] == '1':
            fl.add('tb')
        if b[3] == '1':
            fl.add('msg')
    elif b.startswith('cb'):
        fl.add('cb')
        if b[2] == '1':
            fl.add('tb')
    elif b == 'custom':
        fl.add('custom')
    if m['tail'] is not None:
        fl.add('bare')
        if m['tail']:
            fl.add('tb')
    return sorted(fl)


# ----------------------------------------------------------------------------------------------
# generators
# ----------------------------------------------------------------------------------------------
HE_CODES = [400, 403, 404, 404, 500, 503, 599, 399, 600, 99]
HR_CODES = [301, 302, 303, 303, 304, 305, 307, 308, 306, 399, 200, 400]
PRIOS = [10, 50, 50, 90]


def gen_out(rng, npages, weights=(60, 18, 8, 7, 7)):
    k = rng.choices(['ok', 'ex', 'he', 'hr', 'ir'], weights=weights)[0]
    if k == 'he':
        return 'he%d' % rng.choice(HE_CODES)
    if k == 'hr':
        return 'hr%d' % rng.choice(HR_CODES)
    if k == 'ir':
        # now and then a target the plan has no page for
        return 'ir%d' % (rng.randrange(npages) if rng.random() < 0.93 else npages + rng.randrange(2))
    return k


def gen_handler(rng, npages):
    out = gen_out(rng, npages, weights=(55, 15, 10, 8, 12))
    shape = rng.choices(['bytes', 'list', 'gen', 'gen0', 'gen1', 'gen2', 'file', 'none', 'str', 'nonit'],
                        weights=[30, 10, 10, 6, 8, 4, 6, 6, 5, 6])[0]
    status = rng.choices([None, 200, 201, 204, 304, 404, 500, 99, 600, 0, 100], weights=[70, 3, 3, 4, 3, 3, 2, 3, 3, 2, 2])[0]
    return [out, shape, status]


def gen_page(rng, npages, nid, focus=None, rare=0.06):
    hooks = []
    for p in range(8):
        if focus is not None:
            n = rng.choice([3, 4, 5]) if p == focus else rng.choice([0, 0, 0, 1])
        else:
            n = rng.choice([0, 0, 1, 1, 2, 3, 5])
        for _ in range(n):
            nid[0] += 1
            hk = [p, nid[0], rng.choice(PRIOS), rng.choice([0, 1]),
                  gen_out(rng, npages, weights=(55, 22, 8, 8, 7) if p == focus else (72, 12, 5, 5, 6)),
                  rng.choices(['c', 't1', 't2', 't3'], weights=[70, 10, 10, 10])[0]]
            if hk[2] == 50 and hk[3] == 0 and hk[5] == 'c' and rng.random() < 0.5:
                hk[5] = 'cd'
            hooks.append(hk)
    rng.shuffle(hooks)
    return {
        'dispatch': gen_out(rng, npages, (30, 30, 15, 10, 15)) if rng.random() < rare else 'ok',
        'ns': gen_out(rng, npages, (30, 30, 15, 10, 15)) if rng.random() < rare else 'ok',
        'body': gen_out(rng, npages, (30, 30, 20, 10, 10)) if rng.random() < 0.3 else 'ok',
        'handler': gen_handler(rng, npages),
        'errResp': rng.choices([None, 'ok', 'ex', 'he503', 'hr303', 'hr306', 'ir0'], weights=[70, 10, 6, 4, 5, 2, 3])[0],
        'errPage': rng.choices(['absent', 'cbOk', 'cbFail', 'tmplFail'], weights=[70, 10, 12, 8])[0],
        'tb': rng.choice([0, 1]),
        'stream': 1 if rng.random() < 0.3 else 0,
        'hooks': hooks,
    }


def gen_plan(rng, focus=None):
    npages = rng.choice([1, 1, 2, 2, 3])
    nid = [0]
    pages = [gen_page(rng, npages, nid, focus=focus) for _ in range(npages)]
    return {
        'meth': rng.choices(['get', 'head', 'post'], weights=[65, 15, 20])[0],
        'noHost': 1 if rng.random() < 0.03 else 0,
        'badQuery': 1 if rng.random() < 0.04 else 0,
        'reads': rng.choices([None, 0, 1, 2, 3], weights=[70, 8, 8, 8, 6])[0],
        'closes': rng.choices([1, 2, 3, 0], weights=[75, 15, 7, 3])[0],
        'start': rng.randrange(npages) if rng.random() < 0.98 else npages,
        'gtb': rng.choice([0, 1]),
        'pages': pages,
    }


def base_page(**kw):
    pg = {'dispatch': 'ok', 'ns': 'ok', 'body': 'ok', 'handler': ['ok', 'bytes', None], 'errResp': None,
          'errPage': 'absent', 'tb': 0, 'stream': 0, 'hooks': []}
    pg.update(kw)
    return pg


def base_plan(pages, **kw):
    pl = {'meth': 'get', 'noHost': 0, 'badQuery': 0, 'reads': None, 'closes': 1, 'start': 0, 'gtb': 1,
          'pages': pages}
    pl.update(kw)
    return pl


def shrink_plan(plan, still_fails):
    """Greedy structural shrinking of a failing plan (hooks dropped, sites reset to defaults)."""
    import copy
    cur = copy.deepcopy(plan)

    def attempt(cand):
        nonlocal cur
        try:
            if still_fails(cand):
                cur = cand
                return True
        except common.HarnessError:
            pass
        return False

    changed = True
    rounds = 0
    while changed and rounds < 6:
        changed = False
        rounds += 1
        for i in range(len(cur['pages'])):
            hooks = cur['pages'][i]['hooks']
            k = 0
            while k < len(cur['pages'][i]['hooks']):
                cand = copy.deepcopy(cur)
                del cand['pages'][i]['hooks'][k]
                if attempt(cand):
                    changed = True
                else:
                    k += 1
            for key, dflt in (('dispatch', 'ok'), ('ns', 'ok'), ('body', 'ok'), ('errResp', None),
                              ('errPage', 'absent'), ('stream', 0)):
                if cur['pages'][i][key] != dflt:
                    cand = copy.deepcopy(cur)
                    cand['pages'][i][key] = dflt
                    changed |= attempt(cand)
            if cur['pages'][i]['handler'] != ['ok', 'bytes', None]:
                for hcand in (['ok', 'bytes', None], [cur['pages'][i]['handler'][0], 'bytes', None],
                              ['ok', cur['pages'][i]['handler'][1], None]):
                    if hcand != cur['pages'][i]['handler']:
                        cand = copy.deepcopy(cur)
                        cand['pages'][i]['handler'] = hcand
                        if attempt(cand):
                            changed = True
                            break
            del hooks
        for key, dflt in (('meth', 'get'), ('noHost', 0), ('badQuery', 0), ('reads', None), ('closes', 1)):
            if cur[key] != dflt:
                cand = copy.deepcopy(cur)
                cand[key] = dflt
                changed |= attempt(cand)
    return cur
