"""C17 - negotiated content and charset encodings are lossless and honoured.

Model: lean/CpModel/Gzip.lean, lean/CpModel/Negotiate.lean; theorems: lean/CpProofs/C17.lean
(+ C17Lemmas.lean); driver: lean/Drv/C17.lean.
Real code: in-process WSGI calls of an Application with tools.gzip / tools.encode, plus direct calls of
`encoding.compress`, `httputil.header_elements` (unit level).  `encoding.time` is replaced by a fake clock so
MTIME is an input of the case.
"""
import gzip as _gzip
import io
import json
import os
import random
import re
import signal
import sys
import zlib

from . import common
from . import c17_cov

PROPERTY = 'C17'
LEAN_TARGETS = ['CpProofs.C17', 'CpProofs.C17Order', 'CpProofs.C17Mime', 'drv_c17']
DRIVER = 'drv_c17'
THEOREMS = [
    'CpProofs.C17.tables_pinned',
    'CpProofs.C17.crc32_append',
    'CpProofs.C17.crc32_chunks',
    'CpProofs.C17.size_chunks',
    'CpProofs.C17.rd32_le32',
    'CpProofs.C17.C17_gzip_roundtrip',
    'CpProofs.C17.zStored_lawful',
    'CpProofs.C17.C17_gzip_header',
    'CpProofs.C17.setVary_contains',
    'CpProofs.C17.C17_gzip_labels',
    'CpProofs.C17.C17_passthrough',
    'CpProofs.C17.C17_compress_only_if_accepted',
    'CpProofs.C17.C17_406_only_if_refused',
    'CpProofs.C17.C17_406_only_if_refused_header',
    'CpProofs.C17.unrepaired_406_full_false',
    'CpProofs.C17.sortAsc_perm',
    'CpProofs.C17.sortAsc_sorted',
    'CpProofs.C17.acceptElements_descending',
    'CpProofs.C17.parseQ_scale_le',
    'CpProofs.C17.C17_charset_can_encode',
    'CpProofs.C17.C17_charset_preferred',
    'CpProofs.C17.C17_charset_406_only_if_none',
    'CpProofs.C17.C17_charset_forced',
    'CpProofs.C17.C17_charset_announced',
    'CpProofs.C17.C17_charset_sound',
    'CpProofs.C17.perChunk_sound_partial',
    'CpProofs.C17.unrepaired_charset_sound_full_false',
    'CpProofs.C17.C17_charset_stream_full_false',
    'CpProofs.C17.C17_charset_star_ignores_explicit',
    # q-values float() accepts; order-only; sorted is the stable sort (C17Order.lean)
    'CpProofs.C17.key_lt_iff',
    'CpProofs.C17.key_eq_iff',
    'CpProofs.C17.isZero_iff_key',
    'CpProofs.C17.isPos_iff_key',
    'CpProofs.C17.key_lt_infKey',
    'CpProofs.C17.acceptLt_order_only',
    'CpProofs.C17.sortAsc_congr',
    'CpProofs.C17.acceptSort_order_only',
    'CpProofs.C17.acceptLt_strictWeak',
    'CpProofs.C17.plainLt_strictWeak',
    'CpProofs.C17.sortAsc_sorted_full',
    'CpProofs.C17.sortAsc_stable',
    'CpProofs.C17.acceptElements_sorted_full',
    'CpProofs.C17.splitHeader_noQuote',
    'CpProofs.C17.qSplit_q',
    'CpProofs.C17.parseHeader_plain',
    'CpProofs.C17.C17_simple_element',
    'CpProofs.C17.C17_simple_element_q',
    # eligibility, Vary, Content-Type rewrite, both tools, member header (C17Mime.lean)
    'CpProofs.C17.join_split',
    'CpProofs.C17.split_two',
    'CpProofs.C17.split_of_two',
    'CpProofs.C17.mimeMatch_yes_sound',
    'CpProofs.C17.mimeMatch_no_sound',
    'CpProofs.C17.C17_compress_only_eligible',
    'CpProofs.C17.setVary_keeps',
    'CpProofs.C17.C17_vary_always',
    'CpProofs.C17.setP_other',
    'CpProofs.C17.setP_keys',
    'CpProofs.C17.C17_encode_only_text',
    'CpProofs.C17.C17_charset_rewrite_frame',
    'CpProofs.C17.ctHead_str',
    'CpProofs.C17.C17_gzip_wraps_encoded',
    'CpProofs.C17.tools_order',
    'CpProofs.C17.C17_gzip_no_optional_fields',
    'CpProofs.C17.C17_gzip_roundtrip_full',
    'CpProofs.C17.header_table_live',
    'CpProofs.C17.fileGen_lossless',
    'CpProofs.C17.fileGen_eof',
    'CpProofs.C17.fileGenLimited_lossless',
    'CpProofs.C17.C17_file_body_roundtrip',
    'CpProofs.C17.C17_charset_star_respects_explicit',
]
LEVEL = 'proof'
TECHNIQUE = ('Lean 4 proof over a hand model of encoding.compress / encoding.gzip / ResponseEncoder / header_elements '
             '(gzip member round trip by induction over the chunk list with a concrete bitwise CRC-32; negotiation '
             'theorems by induction over the element list), tied to the code by a differential run (decisions, headers, '
             'chosen charset, byte-for-byte gzip member) with gzip.decompress / bytes.decode as independent oracle')
LEVEL_TEXT = ('Proved for every chunking (incl. empty chunks), level, MTIME and every lawful raw-deflate parameter: the '
              'member built by compress() parses under an RFC 1952 checking parser (and under a general reader that '
              'honours every FLG bit: FLG = 0, no FEXTRA/FNAME/FCOMMENT/FHCRC, deflate data from offset 10) back to the '
              'concatenated body (streaming CRC-32 = CRC-32 of the concatenation, ISIZE = length mod 2^32); the ten header '
              'bytes of the live compress() for every level (regenerated table) are the model\'s; compress sets '
              'Content-Encoding: gzip, Vary containing Accept-Encoding (existing members kept) and drops Content-Length; '
              'passthrough leaves body and coding headers alone; compress only if a gzip/x-gzip element has q != 0 AND the '
              'media type is eligible under the documented relation (exact | type/* | type/*+suffix with the same top-level '
              'type), which the matching decides exactly (yes => eligible, no => not eligible, else ValueError); 406 only '
              'if identity or * carries q = 0, no identity element has q != 0 and no gzip element was listed. q-values: the '
              'whole float() grammar (sign, PEP 515 underscores, fraction, exponent, inf/nan, overflow to inf, underflow to '
              '0) is modelled with exact decimal keys; every comparison depends on the ORDER of the values only (any '
              'strictly monotone re-labelling, e.g. rounding to doubles, changes no comparison, no sort, no decision); '
              '__lt__ is a strict weak order, sorted() yields the inversion-free stable arrangement. Charset: for every '
              'element list and every canEncode a buffered choice can encode the whole text, has q > 0 (or is the forced / '
              'default / ISO-8859-1 fallback), no listed charset with strictly higher q can, 406 only if no candidate can; '
              'the tool negotiates only with add_charset and (text_only) a text/* type; the Content-Type rewrite sets '
              'charset and moves nothing else; with both tools on, the gzip member wraps the charset-encoded bytes and '
              'eligibility is judged on the handler\'s media type. Partial: zlib and the codecs are parameters; soundness '
              'for multi-chunk bodies under BOM-emitting codecs and for streamed bodies is proved FALSE (known findings '
              'F18b, F18c; fixes proposed for F18c and F18e) and holds only under the stated hypotheses; q texts with more '
              'than 15 significant digits or a magnitude next to the double overflow/underflow thresholds, and lists of two '
              'or more elements containing a nan (sorted() has no defined result there), are outside the model.')
LEVEL_NOTE = ('Trusted: Lean kernel (propext, Classical.choice, Quot.sound only); the hand models Gzip.lean/Negotiate.lean '
              'as validated by the differential run; zlib raw deflate as the parameter Z (contract checked against '
              'zlib.decompressobj(-15) on every generated member, not proved); Python codecs as the parameters canEncode / '
              'Codec; CPython str/re/float semantics of the transcribed primitives (decimal -> double is strictly monotone '
              'for <= 15 significant digits in the normal range: checked on every generated q text against float() and an '
              'independent decimal classification); the harness.')
TRUSTED_BASE = [
    'zlib raw deflate is a parameter Z of the model with contract Z.Lawful (inflate inverts deflate for every chunking); '
    'validated on every generated member with zlib.decompressobj(-15), not proved',
    'Python codecs are parameters (canEncode, Codec.enc/dec with the round-trip law per chunk); UTF-8 etc. are not re-verified',
    'CPython semantics of str.split/strip/find/count/replace/lower, re.split, float() (correct rounding: strictly monotone '
    'on decimals of <= 15 significant digits within 1e-307..1e308), sorted() = a stable sort for strict weak orders',
    'the hook machinery runs before_handler hooks before the handler and before_finalize hooks after it (C09); the points '
    'and priorities of tools.encode / tools.gzip are regenerated and pinned',
]
ASSUMPTIONS = [
    'header values are Latin-1 text without control characters other than TAB and without RFC 2047 "=?" words',
    'q texts with more than 15 significant digits, with a magnitude within 1e308..1e309 or 1e-325..1e-307, and element '
    'lists (>= 2 elements) containing a nan are outside the model (class exotic): such cases are checked by the oracle only; '
    'the harness checks on every run that the model says exotic exactly for these',
    'model mirrors the repaired code (fix commits 73c184c gzip 406, 7323e54 encode_string iterator); on a tree without '
    'them the check reports F18 / F18d as violations',
    'response Content-Types with more than one "/" or more than one "+" (ValueError in the mime matching) are modelled '
    'as crash but kept out of the generated stream',
]
RULE = ('gzip: bodies 0..300 KiB (random / text / zeros) in random chunkings incl. empty chunks x level 0..9 x body kind '
        '(bytes, list, generator, file, streamed) x Accept-Encoding grammar (gzip, x-gzip, identity, *, other codings, q in '
        'many spellings incl. the float() grammar, lists, junk) x Content-Type vs mime_types patterns (fixed pool + a grid '
        'of media types x pattern forms with top-level type and suffix varied independently) x pre-set Vary / '
        'Content-Length / MTIME x debug; charset: Unicode texts over several scripts (incl. a lone surrogate) in 0..n str '
        'chunks x Accept-Charset grammar x forced encoding x text_only x add_charset x streamed/buffered/None; both tools '
        'on one text response (Accept-Charset x Accept-Encoding x media type x mime_types); unit level: header_elements on '
        'grammar + junk strings + the element shapes pinned in Lean, float() on q texts, crc32 vs zlib.crc32, compress() on '
        'chunk lists. Non-trivial = the tool had something to decide (non-empty body and a header, or a text body); '
        'distinct = distinct canonical case JSON')

# ----------------------------------------------------------------------------------------------
# tables regenerated from the live modules
# ----------------------------------------------------------------------------------------------
def _lean_char(c):
    if c == '\\':
        return "'\\\\'"
    if c == "'":
        return "'\\''"
    if 32 <= ord(c) < 127:
        return "'%s'" % c
    return 'Char.ofNat %d' % ord(c)


def _lean_str(s):
    return '[' + ', '.join(_lean_char(c) for c in s) + ']'


TABLE_MTIMES = (0x01020304, 2 ** 32 + 5)


class _Hang(BaseException):
    """raised by the interval timer inside a call into the code under test (BaseException: an `except Exception`
    in the code under test must not swallow it)"""


def _on_alarm(signum, frame):
    raise _Hang()


class time_limit(object):
    """`with time_limit(s):` - the block raises _Hang when it takes longer (main thread of the process only)"""

    def __init__(self, seconds):
        self.seconds = seconds

    def __enter__(self):
        self.old = signal.signal(signal.SIGALRM, _on_alarm)
        signal.setitimer(signal.ITIMER_REAL, self.seconds)

    def __exit__(self, *exc):
        signal.setitimer(signal.ITIMER_REAL, 0)
        signal.signal(signal.SIGALRM, self.old)
        return False


def _header_rows():
    """the first ten bytes of what the live compress() yields, for every level and two MTIMEs (one >= 2^32);
    a call that fails gives an empty row (the table theorem then fails to build: the proof side is broken)"""
    from cherrypy.lib import encoding
    rows = []
    for level in range(0, 10):
        for mtime in TABLE_MTIMES:
            _FakeTime.now = mtime
            try:
                with time_limit(5):     # runs under the build lock: a compress() that hangs must not hold it
                    member = b''.join(encoding.compress(iter([b'abc']), level))
                hdr = bytes(member[:10])
                field = int.from_bytes(hdr[4:8], 'little')
                import time as _t
                if field != mtime & 0xFFFFFFFF and abs(field - (int(_t.time()) & 0xFFFFFFFF)) <= 600:
                    mtime = field       # the clock of the harness is not the one the code reads: record what it wrote
            except (Exception, _Hang):
                hdr = b''
            rows.append((level, mtime, hdr))
    return rows


def _tool_row(tool):
    return (str(getattr(tool, '_point', '?')), int(getattr(tool, '_priority', -1)))


def tables(ctx):
    import inspect
    _setup()
    import cherrypy
    from cherrypy.lib import encoding, httputil
    sig = inspect.signature(encoding.gzip).parameters
    enc_point, enc_prio = _tool_row(cherrypy.tools.encode)
    gz_point, gz_prio = _tool_row(cherrypy.tools.gzip)
    src = [
        '/- GENERATED by harness/c17.py from the live cherrypy modules (encoding.py, httputil.py, _cptools.py, '
        '_cprequest.py); do not edit. -/',
        'namespace CpModel.Gen.C17',
        '',
        '/-- encoding._COMPRESSION_LEVEL_FAST / _BEST -/',
        'def levelFast : Nat := %d' % int(encoding._COMPRESSION_LEVEL_FAST),
        'def levelBest : Nat := %d' % int(encoding._COMPRESSION_LEVEL_BEST),
        '/-- defaults of encoding.gzip(compress_level, mime_types) -/',
        'def defaultCompressLevel : Nat := %d' % int(sig['compress_level'].default),
        'def defaultMimeTypes : List (List Char) := [%s]' % ', '.join(_lean_str(m) for m in sig['mime_types'].default),
        '/-- ResponseEncoder.default_encoding -/',
        'def defaultEncoding : List Char := %s' % _lean_str(encoding.ResponseEncoder.default_encoding),
        '/-- httputil.RE_HEADER_SPLIT.pattern, httputil.q_separator.pattern -/',
        'def reHeaderSplit : List Char := %s' % _lean_str(httputil.RE_HEADER_SPLIT.pattern),
        'def qSeparator : List Char := %s' % _lean_str(httputil.q_separator.pattern),
        '/-- ResponseEncoder class defaults: text_only, add_charset, encoding is None -/',
        'def defaultTextOnly : Bool := %s' % ('true' if encoding.ResponseEncoder.text_only else 'false'),
        'def defaultAddCharset : Bool := %s' % ('true' if encoding.ResponseEncoder.add_charset else 'false'),
        'def defaultForcedIsNone : Bool := %s' % ('true' if encoding.ResponseEncoder.encoding is None else 'false'),
        '/-- (level, MTIME, first ten bytes of the live compress() output) -/',
        'def headerTable : List (Nat × Nat × List UInt8) := [',
        ',\n'.join('  (%d, %d, [%s])' % (lv, mt, ', '.join('0x%02x' % b for b in hdr)) for lv, mt, hdr in _header_rows()),
        ']',
        '/-- cherrypy.tools.encode / cherrypy.tools.gzip: hook point and priority; _cprequest.hookpoints -/',
        'def encodePoint : List Char := %s' % _lean_str(enc_point),
        'def encodePriority : Nat := %d' % max(enc_prio, 0),
        'def gzipPoint : List Char := %s' % _lean_str(gz_point),
        'def gzipPriority : Nat := %d' % max(gz_prio, 0),
        'def hookpoints : List (List Char) := [%s]' % ', '.join(_lean_str(h) for h in cherrypy._cprequest.hookpoints),
        '',
        'end CpModel.Gen.C17',
        '',
    ]
    return {'CpModel/Gen/C17Tables.lean': '\n'.join(src)}


# ----------------------------------------------------------------------------------------------
# line protocol helpers
# ----------------------------------------------------------------------------------------------


def T(s):
    """text field"""
    if s is None:
        return 'N'
    if s == '':
        return '-'
    return '.'.join(str(ord(c)) for c in s)


def unT(f):
    if f == 'N':
        return None
    if f == '-':
        return ''
    return ''.join(chr(int(x)) for x in f.split('.'))


def H(b):
    return b.hex() if b else '-'


def L(items):
    items = list(items)
    return ','.join(items) if items else '_'


# ----------------------------------------------------------------------------------------------
# real-code runner
# ----------------------------------------------------------------------------------------------
_STATE = {'ready': False, 'apps': {}, 'cur': None}


class _FakeTime:
    now = 0

    @classmethod
    def time(cls):
        return cls.now


class ShortReader(object):
    """A file-like body with SHORT READS (a pipe, a socket, a capped reader): read(n) returns at most n bytes and at
    most what is left of the current segment, at least one byte while data is left, b'' only at end of file."""

    def __init__(self, segments):
        self.segs = [bytes(x) for x in segments if len(x)]
        self.log = []               # what every read() returned
        self.closed = False

    def read(self, n=-1):
        if not self.segs:
            self.log.append(b'')
            return b''
        if n is None or n < 0:
            out = b''.join(self.segs)
            self.segs = []
        else:
            seg = self.segs[0]
            out, rest = seg[:n], seg[n:]
            if rest:
                self.segs[0] = rest
            else:
                self.segs.pop(0)
        self.log.append(out)
        return out

    def close(self):
        self.closed = True


def _setup():
    if _STATE['ready']:
        return
    import cherrypy
    from cherrypy.lib import encoding
    cherrypy.config.update({'environment': 'test_suite', 'log.screen': False})
    encoding.time = _FakeTime

    class Root:
        @cherrypy.expose
        def gz(self):
            c = _STATE['cur']
            resp = cherrypy.response
            if c['ct'] is None:
                resp.headers.pop('Content-Type', None)
            else:
                resp.headers['Content-Type'] = c['ct']
            if c.get('vary') is not None:
                resp.headers['Vary'] = c['vary']
            chunks = c['_chunks']
            if c.get('cl'):
                resp.headers['Content-Length'] = str(sum(len(x) for x in chunks))
            if c.get('cached'):
                cherrypy.request.cached = True
            kind = c['kind']
            if kind == 'bytes':
                return b''.join(chunks)
            if kind == 'list':
                return list(chunks)
            if kind == 'file':
                return io.BytesIO(b''.join(chunks))
            if kind == 'shortfile':
                return ShortReader(chunks)          # -> prepare_iter / ResponseBody -> lib.file_generator
            if kind in ('servefile', 'servefile_cl'):
                from cherrypy.lib import static
                f = ShortReader(chunks)
                if kind == 'servefile_cl':
                    # what serve_fileobj does for a file with a known length: Content-Length + file_generator_limited
                    n = sum(len(x) for x in chunks)
                    resp.headers['Content-Length'] = str(n)
                    return cherrypy.lib.file_generator_limited(f, n)
                return static.serve_fileobj(f, content_type=c['ct'])
            return (x for x in chunks)

        @cherrypy.expose
        def cs(self):
            c = _STATE['cur']
            resp = cherrypy.response
            if c['ct'] is None:
                resp.headers.pop('Content-Type', None)
            else:
                resp.headers['Content-Type'] = c['ct']
            if c.get('cl') and c['kind'] != 'stream':
                resp.headers['Content-Length'] = '7'
            chunks = c['chunks']
            kind = c['kind']
            if kind == 'none':
                return None
            if kind == 'str':
                return ''.join(chunks)
            if kind == 'list':
                return list(chunks)
            return (x for x in chunks)

        @cherrypy.expose
        def both(self):
            c = _STATE['cur']
            resp = cherrypy.response
            if c['ct'] is None:
                resp.headers.pop('Content-Type', None)
            else:
                resp.headers['Content-Type'] = c['ct']
            if c.get('vary') is not None:
                resp.headers['Vary'] = c['vary']
            chunks = c['chunks']
            kind = c['kind']
            if kind == 'str':
                return ''.join(chunks)
            if kind == 'list':
                return list(chunks)
            return (x for x in chunks)

    def probe():
        # what tools.gzip (priority 80) is about to see; recorded once (the hook point runs again for error pages)
        if _STATE['seen'] is None:
            resp = cherrypy.serving.response
            _STATE['seen'] = {'ct': resp.headers.get('Content-Type'), 'empty': not resp.body}

    _STATE['probe_hook'] = cherrypy._cprequest.Hook(probe, priority=79)
    _STATE['root'] = Root
    _STATE['cherrypy'] = cherrypy
    _STATE['ready'] = True


def _app(conf_items):
    key = repr(conf_items)
    app = _STATE['apps'].get(key)
    if app is None:
        if len(_STATE['apps']) > 400:
            _STATE['apps'].clear()
        cherrypy = _STATE['cherrypy']
        app = cherrypy.Application(_STATE['root'](), '', {'/': dict(conf_items)})
        _STATE['apps'][key] = app
    return app


def _call(app, path, headers):
    env = {'REQUEST_METHOD': 'GET', 'PATH_INFO': path, 'SCRIPT_NAME': '', 'QUERY_STRING': '',
           'SERVER_NAME': 'x', 'SERVER_PORT': '80', 'SERVER_PROTOCOL': 'HTTP/1.1', 'HTTP_HOST': 'x',
           'wsgi.url_scheme': 'http', 'wsgi.input': io.BytesIO(b''), 'wsgi.errors': io.StringIO(),
           'wsgi.version': (1, 0), 'wsgi.multithread': False, 'wsgi.multiprocess': False,
           'wsgi.run_once': False}
    env.update(headers)
    out = {}

    def start_response(status, hdrs, exc_info=None):
        out['status'] = status
        out['headers'] = hdrs

    body = b''
    exc = None
    res = app(env, start_response)
    try:
        try:
            for piece in res:
                body += piece
        except Exception as e:       # an exception while streaming the body
            exc = type(e).__name__
    finally:
        if hasattr(res, 'close'):
            try:
                res.close()
            except Exception:
                pass
    hd = {}
    for k, v in out.get('headers', []):
        hd.setdefault(k.lower(), []).append(v)
    return {'status': int(out.get('status', '0 x').split()[0]), 'h': hd, 'body': body, 'exc': exc}


def run_gz(case):
    _setup()
    case['_chunks'] = [bytes.fromhex(x) for x in case['chunks']]
    _STATE['cur'] = case
    _FakeTime.now = case.get('mtime', 0)
    conf = [('tools.gzip.on', True), ('tools.gzip.compress_level', case['level']),
            ('tools.gzip.mime_types', list(case['mimes'])), ('tools.encode.on', bool(case.get('enc'))),
            ('hooks.before_finalize.c17probe', _STATE['probe_hook'])]
    if case['kind'] == 'stream':
        conf.append(('response.stream', True))
    if case.get('debug'):
        conf += [('tools.gzip.debug', True), ('tools.encode.debug', True)]
    hdrs = {}
    if case['ae'] is not None:
        hdrs['HTTP_ACCEPT_ENCODING'] = case['ae']
    _STATE['seen'] = None
    obs = _call(_app(conf), '/gz', hdrs)
    obs['seen'] = _STATE['seen']
    return obs


def run_both(case):
    """both tools on a text body: tools.encode wraps the handler, tools.gzip runs at before_finalize"""
    _setup()
    _STATE['cur'] = case
    _FakeTime.now = case.get('mtime', 0)
    conf = [('tools.encode.on', True), ('tools.encode.text_only', case['text_only']),
            ('tools.encode.add_charset', case['add_charset']),
            ('tools.gzip.on', True), ('tools.gzip.compress_level', case['level']),
            ('tools.gzip.mime_types', list(case['mimes']))]
    if case['forced'] is not None:
        conf.append(('tools.encode.encoding', case['forced']))
    if case.get('debug'):
        conf += [('tools.gzip.debug', True), ('tools.encode.debug', True)]
    hdrs = {}
    if case['ac'] is not None:
        hdrs['HTTP_ACCEPT_CHARSET'] = case['ac']
    if case['ae'] is not None:
        hdrs['HTTP_ACCEPT_ENCODING'] = case['ae']
    _STATE['seen'] = None
    return _call(_app(conf), '/both', hdrs)


def run_cs(case):
    _setup()
    _STATE['cur'] = case
    conf = [('tools.encode.on', True), ('tools.encode.text_only', case['text_only']),
            ('tools.encode.add_charset', case['add_charset'])]
    if case['forced'] is not None:
        conf.append(('tools.encode.encoding', case['forced']))
    if case['kind'] == 'stream':
        conf.append(('response.stream', True))
    if case.get('debug'):
        conf.append(('tools.encode.debug', True))
    hdrs = {}
    if case['ac'] is not None:
        hdrs['HTTP_ACCEPT_CHARSET'] = case['ac']
    return _call(_app(conf), '/cs', hdrs)


# ----------------------------------------------------------------------------------------------
# independent header reading for the oracle (RFC 7231 grammar; anything else is "junk" = lenient)
# ----------------------------------------------------------------------------------------------
_TOKEN = r"[!#$%&'*+\-.^_`|~0-9A-Za-z]+"
_QVAL = re.compile(r'^(0(\.[0-9]{0,3})?|1(\.0{0,3})?)$')
_ELEM = re.compile(r'^(%s)((?:[ \t]*;[ \t]*%s=(?:%s))*)$' % (_TOKEN, _TOKEN, _TOKEN))


def strict_elements(value):
    """[(name, q as integer thousandths)] or None when the field is outside the RFC grammar."""
    if value is None:
        return []
    if '"' in value:
        return None
    out = []
    for raw in value.split(','):
        e = raw.strip(' \t')
        if not e:
            continue
        m = _ELEM.match(e)
        if not m:
            return None
        q = 1000
        nq = 0
        for p in m.group(2).split(';')[1:]:
            k, v = p.strip(' \t').split('=', 1)
            if k.lower() == 'q':
                nq += 1
                if not _QVAL.match(v):
                    return None
                q = int(round(float(v) * 1000))
        if nq > 1:
            return None
        out.append((m.group(1), q))
    if value and not out:
        return None         # a field without any element is not in the grammar
    return out


def mime_eligible(ct, mimes):
    """The documented matching: exact, type/*, type/*+suffix (lenient on case and blanks)."""
    if ct is None:
        return False
    main = ct.split(';')[0].strip().lower()
    for m in mimes:
        m = m.strip().lower()
        if m == main:
            return True
        if '/' in m and '/' in main:
            mt, ms = m.split('/', 1)
            ct_t, ct_s = main.split('/', 1)
            if mt != ct_t:
                continue
            if ms == '*':
                return True
            if ms.startswith('*+') and '+' in ct_s and ct_s.rsplit('+', 1)[1] == ms[2:]:
                return True
    return False


def gz_406_justified(els):
    """strict elements: did the client refuse both gzip and identity?  (reading that demands least: names are
    compared the way that excuses the 406)"""
    ident_pos = any(n == 'identity' and q > 0 for n, q in els)
    ident_ref = (any(n.lower() == 'identity' and q == 0 for n, q in els) or
                 any(n == '*' and q == 0 for n, q in els)) and not ident_pos
    gz_acc = any(n in ('gzip', 'x-gzip') and q > 0 for n, q in els)
    return ident_ref and not gz_acc


def oracle_gz(case, obs):
    """Property predicate for the gzip half, evaluated on what the implementation delivered."""
    bad = []
    body = b''.join(case['_chunks'])
    st, h = obs['status'], obs['h']
    ce = h.get('content-encoding')
    els = strict_elements(case['ae'])
    strict = els is not None

    def sig(s):
        return s

    if obs['exc']:
        bad.append(('exception %s while the body was written out' % obs['exc'], sig('gz:stream_exception')))
        return bad
    cl = h.get('content-length')
    if cl is not None and (len(cl) != 1 or cl[0] != str(len(obs['body']))):
        bad.append(('Content-Length %s but %d body bytes' % (cl, len(obs['body'])), sig('gz:content_length_kept')))
    if st == 200 and ce is not None:
        if ce != ['gzip']:
            bad.append(('Content-Encoding %s' % ce, sig('gz:label')))
        try:
            plain = _gzip.decompress(obs['body'])
        except Exception as e:
            bad.append(('labelled gzip but gzip.decompress fails: %s: %s' % (type(e).__name__, e), sig('gz:invalid_member')))
            return bad
        if plain != body:
            bad.append(('gzip body decompresses to %d bytes that differ from the %d original bytes'
                        % (len(plain), len(body)), sig('gz:lossy')))
        vary = ','.join(h.get('vary', []))
        if 'accept-encoding' not in [v.strip().lower() for v in vary.split(',')]:
            bad.append(('compressed without Vary: Accept-Encoding (Vary=%r)' % vary, sig('gz:vary_missing')))
        if strict:
            if not any(n.lower() in ('gzip', 'x-gzip') and q > 0 for n, q in els):
                bad.append(('compressed although the client does not accept gzip with q>0: %r' % case['ae'],
                            sig('gz:compressed_unaccepted')))
        if not mime_eligible(case['ct'], case['mimes']) and not (
                case.get('enc') and obs.get('seen') and mime_eligible(obs['seen']['ct'], case['mimes'])):
            bad.append(('compressed although %r is not eligible under %r' % (case['ct'], case['mimes']),
                        sig('gz:compressed_ineligible')))
        if case.get('cached'):
            bad.append(('compressed a cached response again', sig('gz:compressed_cached')))
    elif st == 200:
        if obs['body'] != body:
            bad.append(('unencoded response body differs from the handler body (%d vs %d bytes)'
                        % (len(obs['body']), len(body)), sig('gz:passthrough_modified')))
    elif st == 406:
        if strict and not gz_406_justified(els):
            bad.append(('406 although the client did not refuse both gzip and identity: Accept-Encoding=%r'
                        % case['ae'], 'F18:gzip_406_without_refusal'))
    else:
        if strict:
            bad.append(('status %d for a well-formed Accept-Encoding %r' % (st, case['ae']), sig('gz:error_status')))
    return bad


def impl_gz(case, obs):
    st, h = obs['status'], obs['h']
    if st == 200:
        d = 'compress' if h.get('content-encoding') else 'passthrough'
        return {'D': d, 'V': ','.join(h.get('vary', [])) if 'vary' in h else None,
                'CE': ','.join(h.get('content-encoding', [])) if 'content-encoding' in h else None}
    if st == 406:
        return {'D': '406'}
    return {'D': 'error%d' % st}


def line_gz(case, seen=None):
    empty = case['kind'] in ('bytes', 'list') and (
        not case['chunks'] if case['kind'] == 'list' else not any(case['chunks']))
    ct = case['ct']
    if case.get('enc') and seen is not None:
        # tools.encode ran first (it may rewrite Content-Type and turns a buffered iterator into a list):
        # the model is given what the probe hook saw right before tools.gzip
        empty, ct = seen['empty'], seen['ct']
    return 'gz %d %d %s %s %s %s %s' % (
        1 if empty else 0, 1 if case.get('cached') else 0, T(case['ae']),
        T(ct if ct is not None else ''), L(T(m) for m in case['mimes']),
        T(case.get('vary')), 'N')


def model_gz(line):
    parts = dict(p.split('=', 1) for p in line.split(' '))
    d = parts['D']
    if d in ('compress', 'passthrough'):
        return {'D': d, 'V': unT(parts['V']), 'CE': unT(parts['CE'])}
    if d == '406':
        return {'D': '406'}
    if d == 'err400':
        return {'D': 'error500'}     # HTTPError(400) raised inside a before_finalize hook surfaces as 500
    if d == 'crash':
        return {'D': 'error500'}
    return {'D': d}


# ---- charset ------------------------------------------------------------------------------------
BOM_CODECS = {'utf_16', 'utf_32', 'utf_8_sig'}


def codec_name(name):
    import codecs
    try:
        return codecs.lookup(name).name.replace('-', '_')
    except Exception:
        return None


def can_encode(name, chunks):
    try:
        for c in chunks:
            c.encode(name)
        return True
    except (LookupError, UnicodeError):
        return False


def ct_charset(ctv):
    """charset parameter of a Content-Type value (simple independent reading)"""
    if ctv is None:
        return None
    for p in ctv.split(';')[1:]:
        if '=' in p:
            k, v = p.split('=', 1)
            if k.strip().lower() == 'charset':
                return v.strip().strip('"')
    return None


def do_find_expected(case):
    ct = case['ct']
    if ct is None or ct.strip() == '' or not case['add_charset']:
        return False
    if case['text_only']:
        # several comma separated values: the tool looks at the greatest one; keep the oracle lenient
        return any(v.strip().lower().startswith('text/') for v in ct.split(','))
    return True


def oracle_cs(case, obs):
    bad = []
    text = ''.join(case['chunks'])
    st, h = obs['status'], obs['h']
    els = strict_elements(case['ac'])
    strict = els is not None
    stream = case['kind'] == 'stream'
    ctv = (h.get('content-type') or [None])[0]
    announced = ct_charset(ctv)
    find = do_find_expected(case)
    nstr = len(case['chunks']) if case['kind'] != 'str' else (1 if text else 0)

    def listed_can(n):
        return can_encode(n, [text])

    if stream and find and (obs['exc'] or st == 500):
        # a streamed body is announced before it is encoded ("just pray"): the failure shows while streaming,
        # as an exception after the headers or as a trapped 500 when it hits the first chunk
        cands = [n for n, q in (els or []) if n != '*'] + ['utf-8', 'iso-8859-1']
        if case['forced'] is not None:
            cands.append(case['forced'])
        if announced is not None and st == 200:
            cands = [announced]
        if not strict:
            return bad      # header outside the grammar: which charset was meant cannot be judged
        if case['ac'] and any(not x.strip(' \t') for x in case['ac'].split(',')):
            cands.append('')    # an empty list element is tried as the charset ''
        if any(not can_encode(n, eff_chunks(case)) for n in cands):
            bad.append(('streamed body announced in a charset that cannot represent it: %s while streaming (status %d)'
                        % (obs['exc'] or 'error', st), 'F18b:streamed_body_charset_not_checked'))
        else:
            bad.append(('exception %s / status %d while the body was written out' % (obs['exc'], st),
                        'cs:stream_exception'))
        return bad
    if obs['exc']:
        if find:
            bad.append(('exception %s while the body was written out' % obs['exc'], 'cs:stream_exception'))
        return bad          # not find: str chunks reach the core unencoded, a configuration matter
    if st == 200:
        if not find:
            if text:
                bad.append(('a text body was delivered although the tool was configured not to encode it',
                            'cs:unexpected_delivery'))
            return bad
        if announced is None:
            if text:
                bad.append(('text body delivered without an announced charset (Content-Type %r)' % ctv,
                            'cs:not_announced'))
            return bad
        try:
            back = obs['body'].decode(announced)
        except (LookupError, UnicodeError) as e:
            bad.append(('body does not decode under the announced charset %r: %s' % (announced, type(e).__name__),
                        'cs:undecodable'))
            return bad
        if back != text:
            sig = 'cs:lossy'
            try:
                import codecs as _codecs
                _enc = _codecs.getincrementalencoder(announced)()
                _inc = b''.join(_enc.encode(c) for c in case['chunks'] if isinstance(c, str)) + _enc.encode('', True)
                if text.encode(announced).decode(announced) != text or _inc.decode(announced) != text:
                    # Python's own codec does not round-trip this text (idna applies nameprep: case folding, NFKC;
                    # punycode's incremental encoder encodes every chunk on its own):
                    # the tool announced a charset the client named and used the library's codec for it (finding F18f)
                    sig = 'F18f:codec_itself_lossy'
            except (LookupError, UnicodeError):
                pass
            bad.append(('body decodes under %r to a text different from the original' % announced, sig))
            return bad
        # preference (an empty text is representable in anything: nothing to prefer)
        if not text:
            return bad
        low = announced.lower()
        if case['forced'] is not None:
            if low != case['forced'].lower():
                bad.append(('forced encoding %r but %r announced' % (case['forced'], announced), 'cs:forced_ignored'))
        elif strict and els:
            named = [q for n, q in els if n.lower() == low]
            star = [q for n, q in els if n == '*']
            if named:
                qc = max(named)
            elif star:
                qc = max(star) if low == 'utf-8' else 0
            elif low == 'iso-8859-1':
                qc = -1         # the implicit fallback: a last resort
            else:
                qc = 0
            if qc == 0:
                bad.append(('announced %r which the client does not accept (Accept-Charset %r)'
                            % (announced, case['ac']), 'cs:unaccepted_charset'))
            better = [n for n, q in els if n != '*' and q > 0 and (qc == -1 or q > qc) and n.lower() != low
                      and listed_can(n)]
            if better:
                bad.append(('announced %r although the more preferred %r can represent the text (Accept-Charset %r)'
                            % (announced, better[0], case['ac']), 'cs:not_most_preferred'))
        elif strict and not els:
            pass
        if 'content-length' in h and h['content-length'] != [str(len(obs['body']))]:
            bad.append(('Content-Length %s but %d body bytes' % (h['content-length'], len(obs['body'])),
                        'cs:content_length'))
    elif st == 406:
        if not find:
            bad.append(('406 although the tool was configured not to negotiate', 'cs:406_unexpected'))
        elif case['forced'] is not None:
            f = case['forced'].lower()
            ok_hdr = True
            if strict:
                names = [n.lower() for n, q in els]
                ok_hdr = (not els) or '*' in names or f in names
            if strict and ok_hdr and (stream or listed_can(f)):
                bad.append(('406 although the forced encoding %r is accepted and can represent the text' % f,
                            'cs:406_unjustified'))
        elif strict:
            if not els:
                bad.append(('406 without any Accept-Charset constraint', 'cs:406_unjustified'))
            else:
                names = [n.lower() for n, q in els]
                cands = [n for n, q in els if n != '*' and q > 0]
                if any(n == '*' and q > 0 for n, q in els) and 'utf-8' not in names:
                    cands.append('utf-8')   # "*" stands for the server default unless the client ranks that itself
                if '*' not in names and 'iso-8859-1' not in names:
                    cands.append('iso-8859-1')
                good = [n for n in cands if listed_can(n)]
                if good:
                    bad.append(('406 although %r is acceptable and can represent the text (Accept-Charset %r)'
                                % (good[0], case['ac']), 'cs:406_unjustified'))
    elif st == 500:
        # not the tool's business: nothing to negotiate with, or no Accept-Charset and utf-8 cannot encode
        if find and not (case['ac'] in (None, '') and case['forced'] is None and not listed_can('utf-8')):
            if strict:
                bad.append(('500 for a well-formed Accept-Charset %r' % case['ac'], 'cs:error_status'))
    elif st == 400:
        if strict:
            bad.append(('400 for a well-formed Accept-Charset %r' % case['ac'], 'cs:error_status'))
    else:
        bad.append(('status %d' % st, 'cs:error_status'))
    return bad


def oracle_both(case, obs):
    """Both halves of the statement on one response: the gzip label is judged first, then the charset clause on the
    bytes under the gzip layer."""
    bad = []
    st, h = obs['status'], obs['h']
    els = strict_elements(case['ae'])
    strict = els is not None
    if obs['exc']:
        return [('exception %s while the body was written out' % obs['exc'], 'both:stream_exception')]
    cl = h.get('content-length')
    if cl is not None and (len(cl) != 1 or cl[0] != str(len(obs['body']))):
        bad.append(('Content-Length %s but %d body bytes' % (cl, len(obs['body'])), 'both:content_length'))
    ce = h.get('content-encoding')
    payload = obs['body']
    if ce is not None:
        if ce != ['gzip']:
            bad.append(('Content-Encoding %s' % ce, 'gz:label'))
        try:
            payload = _gzip.decompress(obs['body'])
        except Exception as e:
            bad.append(('labelled gzip but gzip.decompress fails: %s: %s' % (type(e).__name__, e), 'gz:invalid_member'))
            return bad
        vary = ','.join(h.get('vary', []))
        if 'accept-encoding' not in [v.strip().lower() for v in vary.split(',')]:
            bad.append(('compressed without Vary: Accept-Encoding (Vary=%r)' % vary, 'gz:vary_missing'))
        if strict and not any(n.lower() in ('gzip', 'x-gzip') and q > 0 for n, q in els):
            bad.append(('compressed although the client does not accept gzip with q>0: %r' % case['ae'],
                        'gz:compressed_unaccepted'))
        if st == 200 and not mime_eligible(case['ct'], case['mimes']):
            bad.append(('compressed although %r is not eligible under %r' % (case['ct'], case['mimes']),
                        'gz:compressed_ineligible'))
    if st not in (200, 406) and not strict:
        return bad          # a junk Accept-Encoding surfaces as 400 / 500 from the gzip hook: not judged
    if st == 406:
        # either tool may answer 406; it must be justified by one of the two headers
        why_cs = oracle_cs(case, dict(obs, body=payload, h={k: v for k, v in h.items() if k != 'content-length'}))
        gz_ok = (not strict) or gz_406_justified(els)
        if why_cs and not gz_ok:
            bad.append(('406 justified by neither header: Accept-Encoding %r, Accept-Charset %r (%s)'
                        % (case['ae'], case['ac'], why_cs[0][0]), 'both:406_unjustified'))
        return bad
    # the charset clause, on the bytes under the gzip layer
    bad += oracle_cs(case, dict(obs, body=payload, h={k: v for k, v in h.items() if k != 'content-length'}))
    return bad


def line_both(case):
    tbl = ['%s=%d' % (T(n), 1 if can_encode(n, eff_chunks(case)) else 0) for n in cs_candidates(case)]
    return 'both %s %d %d %s %s %s %d %d %s %s %s' % (
        T(case['ct']), 1 if case['add_charset'] else 0, 1 if case['text_only'] else 0, T(case['forced']),
        T(case['ac']), L(tbl), len(eff_chunks(case)), 0, T(case['ae']), L(T(m) for m in case['mimes']),
        T(case.get('vary')))


def impl_both(case, obs):
    st, h = obs['status'], obs['h']
    if obs['exc'] or st == 500:
        return ['fail']
    if st == 200:
        return ['200', (h.get('content-type') or [None])[0], 'compress' if h.get('content-encoding') else 'passthrough',
                ','.join(h.get('vary', [])) if 'vary' in h else None,
                ','.join(h.get('content-encoding', [])) if 'content-encoding' in h else None]
    return [str(st)]


def model_both(case, line):
    f = line.split(' ')
    if f[0] == 'noFind':
        # the str chunks stay unencoded: tools.gzip may still answer 406 (the body is replaced by the error page);
        # otherwise they reach compress() or the core as str -> 500
        if not eff_chunks(case):
            return ['skip']
        if case['kind'] != 'gen':
            return ['fail']     # a str / a list with str items is refused when it is assigned to response.body
        d = f[1].split('=', 1)[1]
        return ['skip'] if d == 'exotic' else ['406'] if d == '406' else ['fail']
    if f[0] == 'found':
        parts = dict(p.split('=', 1) for p in f[3:])
        d = parts['D']
        if d in ('compress', 'passthrough'):
            return ['200', unT(f[2]), d, unT(parts['V']), unT(parts['CE'])]
        if d == '406':
            return ['406']
        if d in ('err400', 'crash'):
            return ['fail']
        return ['skip']
    if f[0] == 'fail':
        # the encoder's error page runs through tools.gzip as well (E = what the hook decides on it)
        e = f[2].split('=', 1)[1]
        if f[1] == 'exotic' or e == 'exotic':
            return ['skip']
        if e in ('err400', 'crash'):
            return ['fail']
        if e == '406':
            return ['406']
        return {'406': ['406'], '500': ['fail'], 'err400': ['400']}.get(f[1], ['skip'])
    return ['model:' + line[:40]]


def cs_candidates(case):
    """names the encoder may be asked about (from the real parser), for the model's `can` table"""
    from cherrypy.lib import httputil
    names = {'utf-8', 'iso-8859-1'}
    if case['forced'] is not None:
        names.add(case['forced'].lower())
    try:
        for e in httputil.header_elements('Accept-Charset', case['ac']):
            names.add(e.value)
    except Exception:
        pass
    return sorted(names)


def eff_chunks(case):
    """the str chunks the encoder iterates over (a str result is wrapped as one chunk, '' as none)"""
    if case['kind'] == 'str':
        t = ''.join(case['chunks'])
        return [t] if t else []
    return case['chunks']


def line_cs(case):
    tbl = ['%s=%d' % (T(n), 1 if can_encode(n, eff_chunks(case)) else 0) for n in cs_candidates(case)]
    return 'cs %s %d %d %d %s %s %s' % (
        T(case['ct']), 1 if case['add_charset'] else 0, 1 if case['text_only'] else 0,
        1 if case['kind'] == 'stream' else 0, T(case['forced']), T(case['ac']), L(tbl))


def impl_cs(case, obs, text):
    st, h = obs['status'], obs['h']
    ctv = (h.get('content-type') or [None])[0]
    if obs['exc'] or st == 500:
        return ('fail', None)       # 500 page, or an exception while the body is written out
    if st == 200:
        return ('200', ctv)
    return (str(st), None)


def model_cs(case, line, text):
    f = line.split(' ')
    if f[0] == 'noFind':
        # the str chunks reach the core unencoded: ValueError / TypeError -> 500 unless there is no text chunk
        if case['kind'] == 'str':
            has = bool(text)
        else:
            has = len(case['chunks']) > 0
        if not has:
            return ('200', case['ct'])
        return ('fail', None)
    if f[0] == 'found':
        if case['kind'] == 'stream' and not can_encode(unT(f[1]), eff_chunks(case)):
            return ('fail', None)
        return ('200', unT(f[2]))
    if f[1] == '406':
        return ('406', None)
    if f[1] == '500':
        return ('fail', None)
    if f[1] == 'err400':
        return ('400', None)
    return ('exotic', None)


# ----------------------------------------------------------------------------------------------
# generators
# ----------------------------------------------------------------------------------------------
CODINGS = ['gzip', 'gzip', 'gzip', 'x-gzip', 'identity', 'identity', '*', 'deflate', 'br', 'compress',
           'GZIP', 'Identity', 'gzipx', 'x-gzip2', 'zstd']
QS_OK = ['', '', '', ';q=0', ';q=0', ';q=0.0', ';q=0.000', ';q=1', ';q=1.0', ';q=1.000', ';q=0.5', ';q=0.8',
         ';q=0.001', ';q=0.999', ';q=0.05', ';q=0.50', ';q=0.9', ';q=0.1', ';q=0.3', ';q=0.30', ';q=0.7',
         '; q=0.2', ' ;q=0.6', ' ; q=0.4', ';Q=0.5', ';Q=0']
QS_ODD = [';q=.5', ';q=0.', ';q=1.', ';q=2', ';q=10', ';q=-1', ';q=-0', ';q=+0.5', ';q=abc', ';q=', ';q=0,5', ';q =0',
          ';q = 0.5', ';q="0.5"', ';q="0"', ';q=0.5;ext=1', ';level=1;q=0.2', ';level=1', ';q=0.5;q=0.9', ';q=0x1',
          ';q=1e0', ';q=1e-3', ';q=nan', ';q=inf', ';q=1_0', ';q=0.1234567', ';q=0.30000000000000001',
          ';q=0.5 ', ';\tq=0.5', ';q=\t0', '; q= 0.25', ';x="a,b";q=0', ';q=0;x="a;b"', ';q==0', ';qq=0', ';q']


def gen_q_float(rng):
    """a q text from the grammar float() accepts (and near misses): sign, digits with PEP 515 underscores, fraction,
    exponent, inf / nan spellings, magnitudes around the overflow / underflow thresholds, long digit strings"""
    r = rng.random()
    if r < 0.12:
        return rng.choice(['', '+', '-']) + rng.choice(['inf', 'Inf', 'INF', 'infinity', 'Infinity', 'nan', 'NaN', 'NAN',
                                                       'infinit', 'in', 'na', 'nane', 'infinityy', 'i_nf'])

    def digits(lo, hi):
        n = rng.randint(lo, hi)
        d = ''.join(rng.choice('0000123456789') for _ in range(n))
        if n >= 2 and rng.random() < 0.2:
            i = rng.randint(1, n - 1)
            d = d[:i] + '_' + d[i:]
        return d
    ip = digits(0, 3) if rng.random() < 0.85 else digits(10, 22)
    fp = None
    if rng.random() < 0.7:
        fp = digits(0, 4) if rng.random() < 0.8 else digits(12, 20)
    t = ip + ('.' + fp if fp is not None else '')
    if rng.random() < 0.45:
        e = rng.choice([0, 0, 1, 2, 3, -1, -2, -3, -4, 15, -15, 16, 300, 305, 306, 307, 308, 309, 310, 324, -300, -305,
                        -306, -307, -308, -309, -310, -320, -323, -324, -325, -326, -330, 400, -400, 5000, -5000,
                        rng.randint(-340, 340), 10 ** 30])
        t += rng.choice('eE') + rng.choice(['', '', '+']) * (e >= 0) + str(e)
        if rng.random() < 0.05:
            t = t.replace('e', 'e_', 1)
    t = rng.choice(['', '', '', '+', '-']) + t
    m = rng.random()
    if m < 0.04:
        t = t + '_'
    elif m < 0.08:
        t = '_' + t
    elif m < 0.12:
        t = t.replace('.', '_.', 1)
    elif m < 0.16:
        t = t.replace('.', '._', 1)
    elif m < 0.20:
        t = t + rng.choice(['e', 'e+', 'e-', 'f', 'd', 'L', ' 1', 'x0'])
    elif m < 0.23:
        t = t.replace('.', ',', 1)
    elif m < 0.26:
        t = '"%s%s%s"' % (rng.choice(['', ' ', '\t']), t, rng.choice(['', ' ']))
    return t


def gen_accept(rng, names, junk_p=0.08, float_p=0.04):
    r = rng.random()
    if r < 0.04:
        return None
    if r < 0.06:
        return ''
    if r < 0.06 + junk_p:
        alphabet = 'gzipidentyx-*;q=0.15, "\\\xe9\xa0A/+'
        return ''.join(rng.choice(alphabet) for _ in range(rng.randint(1, 24))).strip() or ','
    n = rng.choice([1, 1, 1, 2, 2, 2, 3, 3, 4, 5])
    els = []
    for _ in range(n):
        name = rng.choice(names)
        if rng.random() < float_p:
            q = rng.choice([';q=', ';q=', '; q=', ';Q=']) + gen_q_float(rng)
        elif rng.random() < 0.12:
            q = rng.choice(QS_ODD)
        else:
            q = rng.choice(QS_OK)
            if q == '' and rng.random() < 0.15:
                q = ';q=0.%d' % rng.randint(0, 999)
        els.append(name + q)
    sep = rng.choice([',', ', ', ', ', ' , ', ',\t'])
    s = sep.join(els)
    if rng.random() < 0.05:
        s += ','
    if rng.random() < 0.03:
        s = ',' + s
    return s.strip()


MIME_SETS = [
    ['text/html', 'text/plain'], ['text/html', 'text/plain'], ['text/*'], ['text/*', 'application/*+xml'],
    ['application/*+xml'], ['application/json', 'image/*+xml'], ['*/*'], [], ['text/html'], ['texthtml'],
    ['image/*', 'text/*+xml', 'application/*+json', 'application/xml'], ['application/x+xml', 'application/*+xml'],
    ['text/*+xml', 'text/*'], ['application/*+', 'application/*'],
]
CTS = ['text/html', 'text/html', 'text/plain', 'text/plain', 'text/css', 'text/html; charset=utf-8',
       'text/html;charset=iso-8859-1', 'application/xml', 'application/atom+xml', 'application/xhtml+xml',
       'image/svg+xml', 'image/png', 'application/json', 'application/ld+json', 'text/x+xml', '', None, 'text',
       'TEXT/HTML', 'text/html ;x=1', 'application/x+xml', 'text/', '/html', 'application/+xml', 'application/a+',
       'texthtml', 'text/plain;format=flowed']


def gen_body(rng, big):
    r = rng.random()
    if big:
        n = rng.choice([65535, 65536, 65537, 100000, 131072, 200000, 262144, 300 * 1024, rng.randint(70000, 307200)])
    elif r < 0.08:
        n = 0
    elif r < 0.5:
        n = rng.randint(1, 64)
    elif r < 0.9:
        n = rng.randint(65, 3000)
    else:
        n = rng.randint(3000, 40000)
    k = rng.random()
    if k < 0.4:
        data = rng.randbytes(n)
    elif k < 0.8:
        words = [b'Hello, world ', b'<p>', b'</p>\n', b'cherrypy ', b'\xe6\x97\xa5\xe6\x9c\xac ', b'0123456789']
        out = bytearray()
        while len(out) < n:
            out += rng.choice(words)
        data = bytes(out[:n])
    elif k < 0.9:
        data = bytes([rng.randrange(256)]) * n
    else:
        data = bytes(rng.choice(b'ab\x00\xff') for _ in range(min(n, 5000))) * (n // 5000 + 1)
        data = data[:n]
    # chunking
    c = rng.random()
    if n == 0:
        chunks = rng.choice([[], [b''], [b'', b''], []])
    elif c < 0.25:
        chunks = [data]
    elif c < 0.35 and n <= 300:
        chunks = [data[i:i + 1] for i in range(n)]
    else:
        m = rng.choice([1, 2, 3, 5, 9, 17]) if not big else rng.choice([2, 5, 40])
        cuts = sorted(rng.randint(0, n) for _ in range(m))
        chunks, prev = [], 0
        for x in cuts + [n]:
            chunks.append(data[prev:x])
            prev = x
    if rng.random() < 0.3:
        for _ in range(rng.randint(1, 3)):
            chunks.insert(rng.randint(0, len(chunks)), b'')
    return chunks


GRID_TYPES = ['text', 'application', 'image', 'model', 'message', 'audio']
GRID_SUBS = ['html', 'plain', 'xml', 'svg+xml', 'atom+xml', 'x3d+xml', 'imdn+xml', 'ld+json', 'json', 'x+json', '+xml',
             'xml+', 'x-meta+json', 'css', 'xhtml+xml']


def gen_mime_grid(rng):
    """(Content-Type, mime_types): media types x the documented pattern forms, the pattern's top-level type and
    suffix independently equal to / different from the response's (never a shape that makes the matching crash)"""
    t, sub = rng.choice(GRID_TYPES), rng.choice(GRID_SUBS)
    ct = t + '/' + sub
    suf = sub.split('+', 1)[1] if '+' in sub else rng.choice(['xml', 'json'])
    pats = []
    for _ in range(rng.choice([1, 1, 1, 2, 3])):
        t2 = t if rng.random() < 0.5 else rng.choice(GRID_TYPES)
        suf2 = suf if rng.random() < 0.6 else rng.choice(['xml', 'json', 'zip', ''])
        form = rng.random()
        if form < 0.45:
            pats.append('%s/*+%s' % (t2, suf2))
        elif form < 0.65:
            pats.append('%s/*' % t2)
        elif form < 0.8:
            pats.append('%s/%s' % (t2, rng.choice(GRID_SUBS)))
        elif form < 0.9:
            pats.append('%s/%s' % (t2, sub))
        else:
            pats.append(rng.choice(['*/*', '*/*+' + suf, t2, '*', t2 + '/', '/*+' + suf, t2 + '/x+' + suf2]))
    if rng.random() < 0.3:
        ct += rng.choice(['; charset=utf-8', ';x=1', ' ; q=1', ';charset=iso-8859-1'])
    return ct, pats


def gen_gz_case(rng, big=False):
    chunks = gen_body(rng, big)
    kind = rng.choice(['bytes', 'list', 'list', 'gen', 'gen', 'stream', 'file', 'shortfile', 'shortfile', 'servefile',
                       'servefile_cl'])
    ae = gen_accept(rng, CODINGS)
    if rng.random() < 0.35:
        ae = rng.choice(['gzip', 'gzip', 'x-gzip', 'gzip, deflate', 'gzip;q=1.0, identity; q=0.5, *;q=0',
                         'gzip, deflate, br', 'identity;q=0, gzip', 'x-gzip;q=0.5', '*;q=0, gzip;q=0.1'])
    mimes = rng.choice(MIME_SETS)
    ct = rng.choice(CTS)
    r = rng.random()
    if r < 0.40:
        ct, mimes = rng.choice(['text/html', 'text/plain']), ['text/html', 'text/plain']
    elif r < 0.62:
        ct, mimes = gen_mime_grid(rng)
        if rng.random() < 0.8:
            ae = rng.choice(['gzip', 'gzip', 'x-gzip;q=0.5', 'gzip, identity;q=0.1', 'gzip, *;q=0'])
    vary = rng.choice([None, None, None, 'Accept-Encoding', 'Cookie', 'Cookie, Accept-Encoding', 'accept-encoding',
                       'Accept-Language ,  Cookie', ',', '*', 'Accept-EncodingX'])
    mtime = rng.choice([0, 1, 1700000000, 1700000000.75, 2 ** 32 - 1, 2 ** 32, 2 ** 32 + 5, 2 ** 40 + 3,
                        rng.randint(0, 2 ** 33)])
    if kind == 'servefile' and ct is None:
        kind = 'shortfile'          # serve_fileobj sets a Content-Type of its own
    return {'t': 'gz', 'chunks': [c.hex() for c in chunks], 'kind': kind, 'ae': ae, 'mimes': mimes, 'ct': ct,
            'level': rng.randint(0, 9), 'vary': vary, 'cl': rng.random() < 0.3, 'cached': rng.random() < 0.03,
            'mtime': mtime, 'enc': rng.random() < 0.15, 'debug': rng.random() < 0.06}


CHARSETS = ['utf-8', 'utf-8', 'UTF-8', 'utf8', 'iso-8859-1', 'iso-8859-1', 'ISO-8859-1', 'latin-1', 'us-ascii',
            'ascii', 'utf-16', 'utf-16le', 'utf-32', 'utf-7', 'cp1252', 'windows-1251', 'koi8-r', 'shift_jis',
            'gb2312', 'big5', 'euc-jp', 'iso-8859-5', 'iso-8859-7', 'iso-8859-15', 'x-mac-ce', 'bogus', '*', '*',
            'utf-8-sig', 'gbk', 'cp437', 'Latin-1', 'unicode-1-1-utf-8',
            # names the codec registry knows that are NOT text encodings (str.encode refuses them with LookupError),
            # a client may name any of them
            'rot13', 'base64', 'hex', 'zlib', 'bz2', 'quopri', 'uu', 'rot_13', 'base_64', 'undefined']
# (idna / punycode are text encodings for str.encode but no charsets: not injective / not chunk-wise - finding F18f,
#  witness replayed on every run; they are not part of the random pool)
ALPHABETS = [
    'abcdefghijklmnopqrstuvwxyz ABC012.,<>&\n',
    'abc \xe9\xe8\xfc\xf1\xdf\xa0\xff\xd7',
    'ab\u20ac\u201c\u201d\u2013\u0152',
    '\u043f\u0440\u0438\u0432\u0435\u0442 abc',
    '\u03b1\u03b2\u03b3\u03b4 xyz',
    '\u65e5\u672c\u8a9e\u6bdb\u6cfd\u4e1c ab',
    'a\U0001f600\U0001f40d\U00010348b',
    'a\u0301e\u0308\ufeff\u200b z',
    'abc\xe9\u20ac\u0434\u03b2\u6bdb\U0001f600',
    'ab\ud800c',          # a lone surrogate: not even the default utf-8 can represent it
]


# Codecs of the standard library whose incremental encoder keeps state or HOLDS OUTPUT BACK until it is told that the
# text has ended (shift sequences, a character that may still combine with the next one, a signature): name ->
# (letters the codec can represent, letters after which the encoder still holds something back)
_JA = '\u65e5\u672c\u8a9e\u3067\u3059\u306e\u306f abc\u30a2'
_JA_HELD = '\u304b\u304d\u304f\u3051\u3053\u30bb\u30c4\u30c8'          # ka ki ku ke ko / SE TSU TO
_LAT_HELD = '\u00e6\u0259\u0254'                                       # ae, schwa, open o
STATEFUL = {
    'iso-2022-jp': (_JA, _JA_HELD), 'iso-2022-jp-1': (_JA, _JA_HELD), 'iso-2022-jp-2': (_JA + '\ud55c\uad6d', _JA_HELD),
    'iso-2022-jp-2004': (_JA, _JA_HELD + _LAT_HELD), 'iso-2022-jp-3': (_JA, _JA_HELD + _LAT_HELD),
    'iso-2022-jp-ext': (_JA, _JA_HELD), 'iso-2022-kr': ('\ud55c\uad6d\uc5b4 abc', '\ud55c\uc5b4'),
    'shift_jisx0213': (_JA, _JA_HELD + _LAT_HELD), 'shift_jis_2004': (_JA, _JA_HELD + _LAT_HELD),
    'euc-jisx0213': (_JA, _JA_HELD + _LAT_HELD), 'euc_jis_2004': (_JA, _JA_HELD + _LAT_HELD),
    'hz': ('\u4e2d\u6587\u6bdb abc', '\u4e2d\u6587'), 'big5hkscs': ('\u4e2d\u6587 abc', '\u00ca\u00ea'),
    'utf-7': ('ab\u20ac\u65e5+-', '\u20ac\u65e5+'), 'utf-16': ('ab\u20ac\U0001f600', 'b\U0001f600'),
    'utf-32': ('ab\u20ac\U0001f600', 'b\U0001f600'), 'utf-8-sig': ('ab\u20ac', '\u20ac'),
}


def gen_stateful_cs_case(rng):
    """a text that ENDS in a state the encoder has to be told about (held-back character, open shift sequence),
    announced in a stateful codec, streamed and buffered, in one or several chunks (cut also right before the end)"""
    name = rng.choice(sorted(STATEFUL))
    alpha, held = STATEFUL[name]
    n = rng.choice([0, 0, 1, 2, 3, 5, 9, 30])
    text = ''.join(rng.choice(alpha + held) for _ in range(n)) + rng.choice(held)
    c = rng.random()
    if c < 0.35:
        chunks = [text]
    elif c < 0.5:
        chunks = list(text)
    elif c < 0.7:
        chunks = [text[:-1], text[-1:]]
    else:
        cuts = sorted(rng.randint(0, len(text)) for _ in range(rng.choice([1, 2, 3])))
        chunks, prev = [], 0
        for x in cuts + [len(text)]:
            chunks.append(text[prev:x])
            prev = x
    if rng.random() < 0.2:
        chunks.append('')
    kind = rng.choice(['str', 'list', 'gen', 'stream', 'stream', 'stream'])
    spell = rng.choice([name, name, name.upper(), name.replace('-', '_')])
    ac = rng.choice([spell, spell, spell + ', utf-8;q=0.5', spell + ';q=0.9, *;q=0.1', 'us-ascii;q=0.2, ' + spell])
    forced = spell if rng.random() < 0.15 else None
    return {'t': 'cs', 'chunks': chunks, 'kind': kind, 'ac': ac, 'forced': forced,
            'ct': rng.choice(['text/html', 'text/plain', 'text/plain; format=flowed']), 'text_only': True,
            'add_charset': True, 'cl': False, 'debug': False}


def gen_text_chunks(rng):
    alpha = rng.choice(ALPHABETS)
    r = rng.random()
    n = 0 if r < 0.05 else rng.randint(1, 12) if r < 0.5 else rng.randint(13, 300) if r < 0.97 else rng.randint(3000, 20000)
    text = ''.join(rng.choice(alpha) for _ in range(n))
    c = rng.random()
    if n == 0:
        return rng.choice([[], [''], []])
    if c < 0.45:
        return [text]
    if c < 0.55 and n <= 400:
        return list(text)           # one chunk per character
    m = rng.choice([1, 1, 2, 3, 6])
    cuts = sorted(rng.randint(0, n) for _ in range(m))
    chunks, prev = [], 0
    for x in cuts + [n]:
        chunks.append(text[prev:x])
        prev = x
    return chunks


CS_CTS = ['text/html', 'text/html', 'text/plain', 'text/plain', 'text/html;charset=x', 'text/plain; format=flowed',
          'TEXT/Plain', 'application/json', 'application/xml', None, 'text/html; charset="q"; a=b',
          'text/css;Charset=old', 'image/svg+xml', 'text/plain;a="x;y"', 'application/json, text/zzz', 'text/a, text/b;v=1']


def gen_cs_case(rng):
    if rng.random() < 0.2:
        return gen_stateful_cs_case(rng)
    chunks = gen_text_chunks(rng)
    kind = rng.choice(['str', 'list', 'list', 'gen', 'gen', 'stream'])
    if not chunks and rng.random() < 0.3:
        kind = 'none'           # the handler returns None
    ac = gen_accept(rng, CHARSETS, junk_p=0.05)
    if ac and rng.random() < 0.35:
        ac += rng.choice([', utf-8;q=0.1', ', *;q=0.1', ',utf-8;q=0.5', ', utf-16le;q=0.01', ', utf-8'])
    if rng.random() < 0.2:
        ac = rng.choice(['iso-8859-1;q=1, utf-16;q=0.5', '*;q=1, utf-7;q=.2', 'iso-8859-1, *;q=0',
                         'us-ascii, ISO-8859-1, x-mac-ce', 'utf-8', 'ISO-8859-1,utf-8;q=0.7,*;q=0.7',
                         'us-ascii;q=0.9, iso-8859-1;q=0.8, koi8-r;q=0.7, utf-8;q=0.1'])
    forced = None
    if rng.random() < 0.2:
        forced = rng.choice(['utf-8', 'UTF-8', 'iso-8859-1', 'utf-16', 'latin-1', 'koi8-r', 'us-ascii', 'bogus'])
    ct = rng.choice(CS_CTS)
    if rng.random() < 0.5:
        ct = rng.choice(['text/html', 'text/plain'])
    return {'t': 'cs', 'chunks': chunks, 'kind': kind, 'ac': ac, 'forced': forced, 'ct': ct,
            'text_only': rng.random() < 0.8, 'add_charset': rng.random() < 0.96, 'cl': rng.random() < 0.2,
            'debug': rng.random() < 0.06}


BOTH_CTS = ['text/html', 'text/html', 'text/plain', 'text/plain', 'text/html;charset=x', 'text/css', 'application/xml',
            'application/atom+xml', 'image/svg+xml', 'text/x+xml', 'TEXT/HTML', 'text/plain; format=flowed', 'application/json']


def gen_both_case(rng):
    """a text body through tools.encode and tools.gzip: Accept-Charset x Accept-Encoding x media type x mime_types"""
    c = gen_cs_case(rng)
    while c['kind'] == 'stream':
        c['kind'] = rng.choice(['str', 'list', 'gen'])
    c['t'] = 'both'
    c.pop('cl', None)
    if rng.random() < 0.55:
        c['ac'] = rng.choice([None, 'utf-8', '*', 'iso-8859-1, utf-8;q=0.5', 'utf-16', 'utf-16;q=0.9, utf-8;q=0.5',
                              'iso-8859-1;q=0.9, *;q=0.1', 'us-ascii, utf-8;q=0.1', 'utf-8, iso-8859-1;q=0.5',
                              'koi8-r, utf-8;q=0.2', 'utf-32;q=0.3, utf-16le'])
        c['forced'] = None if rng.random() < 0.85 else c['forced']
    ae = gen_accept(rng, CODINGS)
    if rng.random() < 0.6:
        ae = rng.choice(['gzip', 'gzip', 'x-gzip', 'gzip, deflate', 'gzip;q=1.0, identity; q=0.5, *;q=0', 'identity;q=0, gzip',
                         'x-gzip;q=0.5', '*;q=0, gzip;q=0.1', 'identity', 'gzip;q=0', 'identity;q=0', 'deflate'])
    c['ae'] = ae
    r = rng.random()
    if r < 0.5:
        c['ct'], c['mimes'] = rng.choice(['text/html', 'text/plain']), ['text/html', 'text/plain']
    elif r < 0.75:
        c['ct'], c['mimes'] = gen_mime_grid(rng)
        if rng.random() < 0.8:
            c['text_only'] = False
    else:
        c['ct'], c['mimes'] = rng.choice(BOTH_CTS), rng.choice(MIME_SETS)
        if not c['ct'].lower().startswith('text/') and rng.random() < 0.7:
            c['text_only'] = False
    if rng.random() < 0.7:
        c['add_charset'] = True
    c['level'] = rng.randint(0, 9)
    c['vary'] = rng.choice([None, None, None, 'Cookie', 'Accept-Encoding', 'Accept-Charset'])
    c['mtime'] = rng.choice([0, 1700000000, 2 ** 32 + 5, rng.randint(0, 2 ** 33)])
    return c


Q_JUNK = ['', ' ', '.', '-', '+', 'e5', '.e5', '1e', '1e+', '1e-', '0x10', '1,5', '1 5', '1..5', '1.5.', '--1', '+-1',
          '1-', 'nan1', 'infi', '1f', '1d0', '½', '²', '1\u20605', 'q', '"1"', "'1'", '1;', '1e5e5', '1e5.5', '1_e5',
          '1e5_', '_', '1__5', '0_0', '0_', '1._', '._1', '1_.', 'in f', 'na_n', '∞']


def gen_q_case(rng):
    r = rng.random()
    if r < 0.7:
        t = gen_q_float(rng)
    elif r < 0.85:
        t = rng.choice([q.split('=', 1)[1] if '=' in q else q for q in QS_OK + QS_ODD])
    else:
        t = rng.choice(Q_JUNK)
    if rng.random() < 0.1:
        t = rng.choice([' ', '\t', '\xa0', '  ']) + t + rng.choice(['', ' ', '\n'])
    return {'t': 'q', 'v': t}


# the element shapes pinned by `example`s in lean/CpProofs/C17Order.lean, replayed on the real parser on every run
ELS_FIXED = ['a;q=0.5;level=1, b', 'a;level=1;q=0.5', 'a;x="1,2";q=0.1', 'gzip ; q = 0.5', 'gzip;\tq=0.5', 'a;q=0.5;q=0.9',
             'gzip;q=', 'gzip;q=, identity', 'gzip;Q=0', 'a;q=0.5, b;q=0.7, c;q=0.5', 'a;q=5e-1, b;q=0.7', 'a;q=nan, b',
             'gzip, identity', 'a;q=1e400, b;q=inf, c;q=-inf, d;q=-1e400', 'a;q=1_0, b;q=9', 'a;q="0.5", b;q=" .5 "',
             'a;q=1e-400, b;q=0, c;q=-0']


# ----------------------------------------------------------------------------------------------
# unit level: header_elements, crc32, compress()
# ----------------------------------------------------------------------------------------------
def gen_els_case(rng):
    r = rng.random()
    if r < 0.5:
        v = gen_accept(rng, CODINGS + CHARSETS, junk_p=0.15, float_p=0.35)
    elif r < 0.8:
        alphabet = 'abq=;,." \\*-01\xe9Q'
        v = ''.join(rng.choice(alphabet) for _ in range(rng.randint(0, 30)))
    else:
        parts = []
        for _ in range(rng.randint(1, 4)):
            e = rng.choice(['text/html', 'a', 'b', 'gzip', '"x,y"', 'a;b=c', 'a; b = "c;d" ;e', 'A;B=C;b=d',
                            'x;y="\\"z\\\\";q=0.5', ';q=1', 'a;q=0.5;q=0.7', 'a;=b', 'a;b', 'a;b=;c==', '"', 'a"b,c"d'])
            parts.append(e + rng.choice(QS_OK + QS_ODD[:12]))
        v = rng.choice([',', ', '])  .join(parts)
    return {'t': 'els', 'kind': rng.choice(['A', 'A', 'A', 'P']), 'v': v if v is None else v.strip()}


def run_els(case):
    from cherrypy.lib import httputil
    import cherrypy
    name = 'Accept-Encoding' if case['kind'] == 'A' else 'Content-Type'
    try:
        els = httputil.header_elements(name, case['v'])
    except cherrypy.HTTPError as e:
        return 'err%d' % e.status
    except Exception as e:                    # anything else is an observation the comparison reports
        return 'exc:%s' % type(e).__name__
    out = []
    for e in els:
        qx = None
        if case['kind'] == 'A':
            try:
                q = e.qvalue
            except cherrypy.HTTPError:
                q = 'bad'
            except Exception as x:
                q = 'exc:%s' % type(x).__name__
            try:
                qx = q_expect(q_raw(e))
            except Exception as x:
                qx = 'unreadable:%s' % type(x).__name__
        else:
            q = None
        out.append((e.value, q, str(e), qx))
    return out


def q_expect(raw):
    """Independent classification of one q text (the value `float()` is given) with the decimal module:
    'bad' | 'nan' | 'inf' | '-inf' | 'exotic' (finite, but decimal -> double is not injective there: more than 15
    significant digits or a magnitude next to the overflow / underflow thresholds) | Fraction (the exact value)."""
    import decimal
    import math
    from fractions import Fraction
    try:
        f = float(raw)
    except ValueError:
        return 'bad'
    if math.isnan(f):
        return 'nan'
    t = raw.strip().replace('_', '')
    if t.lstrip('+-').lower() in ('inf', 'infinity'):
        return 'inf' if f > 0 else '-inf'
    m = re.match(r'^[+-]?(\d*)\.?(\d*)(?:[eE]([+-]?\d+))?$', t)
    if not m:
        return 'unreadable'
    ip, fp, ex = m.group(1), m.group(2), int(m.group(3) or 0)
    digits = (ip + fp).lstrip('0')
    if not digits:
        return Fraction(0)
    sig = digits.rstrip('0')
    adj = ex - len(fp) + len(digits) - 1            # exponent of the leading digit
    if adj >= 309:
        return 'inf' if f > 0 else '-inf'
    if adj <= -325:
        return Fraction(0)
    if len(sig) > 15 or adj > 307 or adj < -307:
        return 'exotic'
    return Fraction(decimal.Decimal(t))


def model_q(mq):
    """the model's q field -> same domain as q_expect"""
    from fractions import Fraction
    if mq in ('bad', 'nan', 'inf', '-inf', 'exotic'):
        return mq
    num, sc = mq.split('e-')
    return Fraction(int(num), 10 ** int(sc))


def q_raw(e):
    """the text `qvalue` hands to float() (read off the real element object)"""
    v = e.params.get('q', '1')
    return v.value if hasattr(v, 'value') and not isinstance(v, str) else v


def cmp_els(case, impl, line):
    """None when equal, else a description"""
    import math
    if line == 'err400':
        return None if impl == 'err400' else 'model err400'
    if line == 'exotic':
        # the model refuses to order the list: legitimate only if some q is nan / outside the exact range
        if isinstance(impl, str):
            return 'model exotic, impl %s' % impl
        if len(impl) >= 2 and any(x[3] in ('nan', 'exotic') for x in impl):
            return None
        return 'model says exotic for a list it should order'
    if isinstance(impl, str):
        return 'impl %s' % impl
    f = line.split(' ')[1:]
    f = [x for x in f if x]
    if len(f) != len(impl):
        return 'lengths %d vs %d' % (len(impl), len(f))
    for (v, q, s, qx), m in zip(impl, f):
        mv, mq, ms = m.split('/')
        if unT(mv) != v or unT(ms) != s:
            return 'value/str differ'
        if mq == '-':
            continue
        mqv = model_q(mq)
        if mqv != qx:
            return 'q class/value differs: model %s, float() of the same text %r' % (mq, qx)
        # ... and against the float the property object really returned
        if mqv == 'bad':
            if q != 'bad':
                return 'model q bad, impl %r' % (q,)
        elif q == 'bad':
            return 'impl q bad, model %s' % mq
        elif mqv == 'nan':
            if not math.isnan(q):
                return 'model nan, impl %r' % (q,)
        elif mqv in ('inf', '-inf'):
            if q != float(mqv):
                return 'model %s, impl %r' % (mqv, q)
        elif mqv != 'exotic' and float(mqv) != q:
            return 'q differs %r vs %s' % (q, mq)
    return None


def run_compress_unit(chunks, level, mtime):
    _setup()
    from cherrypy.lib import encoding
    _FakeTime.now = mtime
    return b''.join(encoding.compress(iter(chunks), level))


def member_check(chunks, level, mtime, member):
    """Oracle on one real gzip member (worker side).  Returns (fails, frame line or None, hist keys)."""
    body = b''.join(chunks)
    fails, hist = [], []
    ok = True
    try:
        if _gzip.decompress(member) != body:
            fails.append(('gzip member decompresses to other bytes', 'gz:lossy'))
            ok = False
    except Exception as e:
        fails.append(('gzip member invalid: %s: %s' % (type(e).__name__, e), 'gz:invalid_member'))
        ok = False
    if len(member) < 18:
        return fails, None, hist
    payload = member[10:-8]
    # the contract of the deflate parameter, checked on the real zlib output
    try:
        d = zlib.decompressobj(-15)
        plain = d.decompress(payload) + d.flush()
        lawful = plain == body and d.eof and d.unused_data == b''
    except Exception:
        lawful = False
    if not lawful:
        # valid for gzip.decompress but not header(10) + raw deflate + trailer(8): the statement is met (optional
        # header fields, several members ... are legal gzip); it is the MODEL's layout that does not fit -> reported
        # as a model/implementation disagreement by settle(), not as an oracle failure
        hist.append('frame:payload_not_a_complete_deflate_stream')
        return fails, ('unframed' if ok else None), hist
    hist.append('frame:checked')
    field = int.from_bytes(member[4:8], 'little')
    if field != int(mtime) & 0xFFFFFFFF:
        # the code did not read the clock the harness controls (`encoding.time`): a legal way to write compress().
        # MTIME is then not an input of the case; the model is given the field the member carries if it is a
        # plausible "now", so that only the other nine header bytes and the trailer are compared
        import time as _t
        if abs(field - (int(_t.time()) & 0xFFFFFFFF)) <= 600:
            hist.append('frame:mtime_uncontrolled')
            mtime = field
    return fails, 'frame %d %d %s %s %s' % (level, int(mtime), H(payload), L(H(c) for c in chunks), H(member)), hist


class _Big(bytes):
    """a chunk whose len() claims `virt` bytes (content is small): drives the ISIZE arithmetic past 2^32"""
    virt = 0

    def __len__(self):
        return self.virt


def virtual_size_probe(ctx, rng):
    import struct
    _setup()
    from cherrypy.lib import encoding
    for _ in range(ctx.budget(6, 60)):
        sizes = [rng.choice([2 ** 32 - 1, 2 ** 32, 2 ** 32 + 5, 2 ** 33 + 7, 3 * 2 ** 31, rng.randint(2 ** 31, 2 ** 34)])
                 for _ in range(rng.randint(1, 3))]
        chunks = []
        for s in sizes:
            b = _Big(rng.randbytes(rng.randint(0, 8)))
            b.virt = s
            chunks.append(b)
        _FakeTime.now = 0
        case = {'t': 'virt', 'sizes': sizes, 'data': [bytes(c).hex() for c in chunks]}
        ctx.case(case, nontrivial=True)
        ctx.count('unit:virtual_size')
        try:
            member = b''.join(encoding.compress(iter(chunks), 6))
        except Exception as e:
            ctx.oracle_fail(case, 'compress() fails for a body of %d bytes: %s: %s' % (sum(sizes), type(e).__name__, e),
                            'gz:isize_overflow')
            continue
        isize = struct.unpack('<L', member[-4:])[0]
        if isize != sum(sizes) % 2 ** 32:
            ctx.oracle_fail(case, 'ISIZE %d for a body of %d bytes (want size mod 2^32 = %d)'
                            % (isize, sum(sizes), sum(sizes) % 2 ** 32), 'gz:isize_overflow')


# ----------------------------------------------------------------------------------------------
# batch evaluation (module level so that worker processes can run it)
# ----------------------------------------------------------------------------------------------
CASE_TIME_LIMIT = 30.0
MAX_HANGS = 2                   # cases without an answer before the run stops generating (each costs the limit)




def eval_case(case):
    """eval_case_unguarded under a time limit: a call into the code under test that does not come back is an
    observation (the statement promises a response), not a hang of the harness"""
    try:
        with time_limit(CASE_TIME_LIMIT):
            return eval_case_unguarded(case)
    except _Hang:
        case.pop('_chunks', None)
        return {'case': case, 'lines': [], 'hist': ['hang'], 'nontrivial': True, 'impl': None,
                'fails': [('no answer within %d s' % CASE_TIME_LIMIT, '%s:hang' % case.get('t'))]}


def eval_case_unguarded(case):
    """Run one case on the real code + oracle.  Returns a small record; no ctx access (worker safe)."""
    t = case['t']
    rec = {'case': case, 'fails': [], 'lines': [], 'hist': []}
    if t == 'gz':
        obs = run_gz(case)
        rec['fails'] = oracle_gz(case, obs)
        rec['impl'] = impl_gz(case, obs)
        rec['lines'] = [line_gz(case, obs.get('seen'))]
        nbytes = sum(len(c) for c in case['_chunks'])
        rec['hist'] = ['gz:decision:' + rec['impl']['D'], 'gz:kind:' + case['kind'],
                       'gz:size:' + ('0' if nbytes == 0 else '<=64' if nbytes <= 64 else '<=4K' if nbytes <= 4096
                                     else '<=64K' if nbytes <= 65536 else '>64K'),
                       'gz:chunks:' + ('0' if not case['chunks'] else '1' if len(case['chunks']) == 1 else
                                       '2-9' if len(case['chunks']) < 10 else '>=10'),
                       'gz:header:' + ('absent' if case['ae'] is None else
                                       'strict' if strict_elements(case['ae']) is not None else 'junk')]
        if '' in case['chunks'] and len(case['chunks']) > 1:
            rec['hist'].append('gz:empty_chunk')
        rec['nontrivial'] = nbytes > 0 and case['ae'] not in (None, '')
        if rec['impl']['D'] == 'compress' and not rec['fails']:
            f2, rec['frame'], h2 = member_check(case['_chunks'], case['level'], case.get('mtime', 0), obs['body'])
            rec['fails'] += f2
            rec['hist'] += h2
        case.pop('_chunks', None)
    elif t == 'cs':
        obs = run_cs(case)
        text = ''.join(case['chunks'])
        rec['fails'] = oracle_cs(case, obs)
        rec['impl'] = impl_cs(case, obs, text)
        rec['lines'] = [line_cs(case)]
        ann = ct_charset(rec['impl'][1]) if rec['impl'][0] == '200' else None
        rec['hist'] = ['cs:status:%s' % rec['impl'][0], 'cs:kind:' + case['kind'],
                       'cs:charset:' + str(codec_name(ann) if ann else ann),
                       'cs:header:' + ('absent' if case['ac'] is None else
                                       'strict' if strict_elements(case['ac']) is not None else 'junk'),
                       'cs:forced' if case['forced'] else 'cs:negotiated',
                       'cs:chunks:' + ('0' if not case['chunks'] else '1' if len(case['chunks']) == 1 else '>=2')]
        rec['nontrivial'] = bool(text)
    elif t == 'both':
        obs = run_both(case)
        text = ''.join(case['chunks'])
        rec['fails'] = oracle_both(case, obs)
        rec['impl'] = impl_both(case, obs)
        rec['lines'] = [line_both(case)]
        rec['hist'] = ['both:status:%d' % obs['status'], 'both:' + (rec['impl'][2] if rec['impl'][0] == '200' else 'error'),
                       'both:kind:' + case['kind'],
                       'both:ae:' + ('absent' if case['ae'] is None else
                                     'strict' if strict_elements(case['ae']) is not None else 'junk'),
                       'both:ac:' + ('absent' if case['ac'] is None else
                                     'strict' if strict_elements(case['ac']) is not None else 'junk')]
        rec['nontrivial'] = bool(text) and case['ae'] not in (None, '')
        if rec['impl'][0] == '200' and rec['impl'][2] == 'compress' and not rec['fails']:
            plain = _gzip.decompress(obs['body'])
            f2, rec['frame'], h2 = member_check([plain], case['level'], case.get('mtime', 0), obs['body'])
            rec['fails'] += f2
            rec['hist'] += h2
    elif t == 'fgen':
        from cherrypy import lib as _lib
        segs = [bytes.fromhex(x) for x in case['chunks']]
        data = b''.join(segs)
        f = ShortReader(segs)
        try:
            if case['count'] is None:
                out = list(_lib.file_generator(f, case['size']))
                want = data
            else:
                out = list(_lib.file_generator_limited(f, case['count'], case['size']))
                want = data[:case['count']]
            rec['impl'] = L(H(c) for c in out)
            if b''.join(out) != want:
                rec['fails'] = [('a file-like body with short reads is delivered as %d of %d bytes (reads of %s bytes)'
                                 % (len(b''.join(out)), len(want), [len(x) for x in f.log][:12]), 'file:truncated')]
        except Exception as e:
            rec['impl'] = 'exc:%s' % type(e).__name__
            rec['fails'] = [('reading a file-like body raises %s: %s' % (type(e).__name__, e), 'file:raises')]
        rec['lines'] = ['fgen %s %s' % ('N' if case['count'] is None else case['count'], L(H(c) for c in f.log))]
        rec['hist'] = ['fgen:' + ('limited' if case['count'] is not None else 'plain'),
                       'fgen:reads:' + ('short' if any(0 < len(x) < case['size'] for x in f.log[:-1]) else 'full')]
        rec['nontrivial'] = bool(data)
    elif t == 'q':
        try:
            rec['impl'] = str(q_expect(case['v']))
        except Exception as e:
            rec['impl'] = 'unreadable:%s' % type(e).__name__
        rec['lines'] = ['q %s' % T(case['v'])]
        rec['hist'] = ['q:' + (rec['impl'] if rec['impl'] in ('bad', 'nan', 'inf', '-inf', 'exotic') else
                               'zero' if rec['impl'] == '0' else 'finite')]
        rec['nontrivial'] = True
    elif t == 'els':
        rec['impl'] = run_els(case)
        rec['lines'] = ['els %s %s' % (case['kind'], T(case['v']))]
        rec['hist'] = ['els:' + ('error' if isinstance(rec['impl'], str) else 'n=%d' % min(len(rec['impl']), 4))]
        rec['nontrivial'] = bool(case['v'])
    elif t == 'crc':
        data = bytes.fromhex(case['data'])
        rec['impl'] = zlib.crc32(data, case['init'])
        rec['lines'] = ['crc %d %s' % (case['init'], H(data))]
        rec['hist'] = ['crc']
        rec['nontrivial'] = bool(data)
    elif t == 'unit':
        chunks = [bytes.fromhex(x) for x in case['chunks']]
        try:
            member = run_compress_unit(chunks, case['level'], case['mtime'])
            rec['fails'], rec['frame'], h2 = member_check(chunks, case['level'], case['mtime'], member)
            rec['hist'] = h2
        except Exception as e:
            rec['fails'] = [('compress() raised %s: %s' % (type(e).__name__, e), 'gz:compress_raises')]
        rec['hist'] = rec['hist'] + ['unit:compress:level%d' % case['level']]
        rec['nontrivial'] = True
    return rec


def settle(ctx, recs, compare=True):
    """Parent side: register cases, feed the model, compare."""
    lines, pending = [], []
    for rec in recs:
        case = rec['case']
        if 'hang' in rec['hist']:
            ctx.extra['hangs'] = ctx.extra.get('hangs', 0) + 1
        ctx.case(case, nontrivial=rec.get('nontrivial', True))
        for k in rec['hist']:
            ctx.count(k)
        for what, sig in rec['fails']:
            ctx.oracle_fail(case, what, sig)
        known_class = any(ctx.match_known(sig) for _, sig in rec['fails'])
        if rec.get('frame') == 'unframed':
            ctx.compared()
            ctx.disagree({k: v for k, v in case.items() if k != 'chunks'} | {'chunks': case['chunks'][:20]},
                         'a member gzip.decompress accepts', 'header(10) + raw deflate + trailer(8)',
                         'the gzip member is valid but not laid out as the model builds it (optional header fields?)')
        elif rec.get('frame'):
            lines.append(rec['frame'])
            pending.append(('frame', case, None))
        if rec['fails'] and not known_class:
            continue
        for l in rec['lines']:
            lines.append(l)
            pending.append((case['t'], case, rec['impl']))
    if not compare or not lines:
        return
    out = ctx.model(lines)
    if out is None:
        return
    for (t, case, impl), o in zip(pending, out):
        ctx.compared()
        if t == 'gz':
            m = model_gz(o)
            if m['D'] == 'exotic':
                ctx.count('model:exotic')
                continue
            if m != impl:
                ctx.disagree(case, impl, m, 'gzip decision / headers differ')
        elif t == 'cs':
            text = ''.join(case['chunks'])
            m = model_cs(case, o, text)
            if m[0] == 'exotic':
                ctx.count('model:exotic')
                continue
            if tuple(m) != tuple(impl):
                ctx.disagree(case, list(impl), list(m), 'charset decision / Content-Type differ')
        elif t == 'both':
            m = model_both(case, o)
            if m[0] == 'skip':
                ctx.count('model:exotic')
                continue
            if list(m) != list(impl):
                ctx.disagree(case, list(impl), list(m), 'encode + gzip: status / Content-Type / decision / headers differ')
        elif t == 'fgen':
            if o != impl:
                ctx.disagree(case, impl[:300], o[:300], 'file_generator: chunks yielded for these read results differ')
        elif t == 'q':
            m = str(model_q(o))
            if m != impl:
                ctx.disagree(case, impl, o, 'float() of a q text: class / value differs')
        elif t == 'els':
            d = cmp_els(case, impl, o)
            if d:
                ctx.disagree(case, repr(impl)[:300], o[:300], 'header_elements: ' + d)
        elif t == 'crc':
            if int(o) != impl:
                ctx.disagree(case, impl, o, 'crc32 differs from zlib.crc32')
        elif t == 'frame':
            parts = dict(p.split('=', 1) for p in o.split(' '))
            if (parts['EQ'] != '1' or parts['GUNZIP'] != 'ok' or parts.get('FULL') != 'ok' or parts.get('FLG') != '0'
                    or parts.get('OPT') != 'none'):
                ctx.disagree({k: v for k, v in case.items() if k != 'chunks'} | {'chunks': case['chunks'][:20]},
                             'real member', o[-120:], 'gzip member differs from the model frame (header / trailer / optional fields)')


def gen_fgen_case(rng):
    """file_generator / file_generator_limited over a reader with short reads: segment sizes around the chunk size"""
    size = rng.choice([1, 2, 3, 8, 64, 4096])
    segs = []
    for _ in range(rng.choice([0, 1, 1, 2, 3, 5, 9])):
        n = rng.choice([0, 1, 1, size - 1, size, size + 1, 2 * size, 2 * size + 1, rng.randint(1, 3 * size + 2)])
        segs.append(rng.randbytes(min(max(n, 0), 10000)))
    total = sum(len(x) for x in segs)
    count = None
    if rng.random() < 0.5:
        count = rng.choice([total, total, total, 0, 1, max(total - 1, 0), total + 1, rng.randint(0, total + 3)])
    return {'t': 'fgen', 'chunks': [x.hex() for x in segs], 'size': size, 'count': count}


def gen_stream(rng, n_gz, n_cs, n_els, n_crc, n_unit, n_big, n_both=0, n_q=0):
    cases = []
    for i in range(n_unit):
        cases.append(gen_fgen_case(rng))
    for i in range(n_both):
        cases.append(gen_both_case(rng))
    for i in range(n_q):
        cases.append(gen_q_case(rng))
    for i in range(n_gz):
        cases.append(gen_gz_case(rng, big=False))
    for i in range(n_big):
        c = gen_gz_case(rng, big=True)
        c['ae'], c['ct'], c['mimes'] = rng.choice(['gzip', 'x-gzip;q=0.5, identity;q=0.1']), 'text/html', ['text/html']
        c['cached'] = False
        cases.append(c)
    for i in range(n_cs):
        cases.append(gen_cs_case(rng))
    for i in range(n_els):
        cases.append(gen_els_case(rng))
    for i in range(n_crc):
        n = rng.choice([0, 1, 2, 3, 4, 7, 8, 9, 255, 256, rng.randint(0, 2000)])
        cases.append({'t': 'crc', 'init': rng.choice([0, 0, 1, 0xFFFFFFFF, rng.getrandbits(32)]),
                      'data': rng.randbytes(n).hex()})
    for i in range(n_unit):
        chunks = gen_body(rng, False)
        cases.append({'t': 'unit', 'chunks': [c.hex() for c in chunks], 'level': rng.randint(0, 9),
                      'mtime': rng.choice([0, 1700000000, 2 ** 32 + 9, rng.randint(0, 2 ** 33)])})
    return cases


def _worker(args):
    seed, counts = args
    rng = random.Random(seed)
    cases = gen_stream(rng, *counts)
    cov = c17_cov.start()
    out = []
    hangs = 0
    try:
        for c in cases:
            rec = eval_case(c)
            out.append(rec)
            hangs += 'hang' in rec['hist']
            if hangs >= MAX_HANGS:
                break
    finally:
        c17_cov.stop()
    return out, cov.hits()


def corpus_cases():
    d = os.path.join(common.CORPUS, PROPERTY)
    out = []
    if os.path.isdir(d):
        for f in sorted(os.listdir(d)):
            if f.endswith('.json'):
                out.append(json.load(open(os.path.join(d, f))))
    return out


def run(ctx):
    _setup()
    cov = c17_cov.start()
    try:
        # known findings first, then the regression corpus
        for e in ctx.known:
            if e.get('status') == 'known':
                settle(ctx, [eval_case(dict(e['witness']))])
        settle(ctx, [eval_case(dict(c)) for c in corpus_cases()])
        settle(ctx, [eval_case({'t': 'els', 'kind': 'A', 'v': v}) for v in ELS_FIXED])
        virtual_size_probe(ctx, ctx.rng)
        if ctx.quick():
            cases = gen_stream(ctx.rng, 4000, 4000, 5000, 600, 600, 24, 2500, 3000)
            recs = []
            for c in cases:
                rec = eval_case(c)
                recs.append(rec)
                if 'hang' in rec['hist'] and sum('hang' in r['hist'] for r in recs) >= MAX_HANGS:
                    break
            settle(ctx, recs)
        else:
            c17_cov.stop()              # the forked workers install their own monitor
            jobs = [(ctx.rng.getrandbits(48), (2500, 2500, 2500, 300, 300, 6, 1500, 1500)) for _ in range(80)]
            for i in range(0, len(jobs), 16):
                for recs, hits in common.parallel_map(_worker, jobs[i:i + 16]):
                    cov.add_hits(hits)
                    settle(ctx, recs)
                if ctx.extra.get('hangs', 0) >= MAX_HANGS:
                    break
    finally:
        c17_cov.stop()
    cov.report(ctx)


def search(ctx, around=None):
    """Oracle-only hunt (no model): more cases of the kind that disagreed, then the general stream."""
    kinds = {'gz': (6000, 0, 0, 0, 200, 4), 'cs': (0, 8000, 0, 0, 0, 0), 'both': (0, 0, 0, 0, 0, 0, 8000, 0)}
    t = (around or {}).get('t')
    plans = [kinds[t]] if t in kinds else []
    plans.append((4000, 4000, 0, 0, 200, 4, 3000, 0))
    if ctx.extra.get('hangs', 0) >= MAX_HANGS:
        return              # the failing inputs are on record; every further one costs the time limit
    for counts in plans:
        jobs = [(ctx.rng.getrandbits(48), tuple(max(0, c // 8) for c in counts)) for _ in range(8)]
        for recs, _hits in common.parallel_map(_worker, jobs, procs=8):
            settle(ctx, recs, compare=False)
        if ctx.oracle_failures:
            return


def replay(ctx, case):
    case = dict(case)
    rec = eval_case(case)
    print('case  :', json.dumps(common._clip(rec['case'], 1500)))
    print('impl  :', repr(rec.get('impl'))[:600])
    for what, sig in rec['fails']:
        print('oracle:', what, '[%s]' % sig)
    if rec['lines']:
        m = ctx.model(rec['lines'])
        if m:
            print('model :', m[0][:600])
    settle(ctx, [rec])
