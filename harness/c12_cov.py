"""C12: which lines of the anchored functions does the correspondence run execute?

sys.monitoring (PEP 669) LINE events restricted to the code objects of the anchored functions; every line
reports once and is then disabled, so the cost is a few hundred callbacks per process.  The result goes
to ctx.extra['anchored_lines_not_executed'] as 'file:function:line' strings.
"""
import sys

TOOL = 4            # a free tool id (0-5; debugger 0, coverage 1, profiler 2, optimizer 5 are the named ones)
_STATE = {'on': False, 'seen': set(), 'codes': {}}


def anchored():
    """(label, function) for every anchored function (live objects, nothing parsed)."""
    from cherrypy import _cperror, _cplogging, _cprequest
    from cherrypy.lib import httputil, static, cptools, sessions
    HM = httputil.HeaderMap

    def fn(x):
        return getattr(x, '__func__', x)          # classmethod / staticmethod object or plain function
    out = [
        ('httputil.HeaderMap.encode', fn(HM.__dict__['encode'])),
        ('httputil.HeaderMap.encode_header_item', fn(HM.__dict__['encode_header_item'])),
        ('httputil.HeaderMap.encode_header_items', fn(HM.__dict__['encode_header_items'])),
        ('httputil.HeaderMap.output', HM.output),
        ('httputil.decode_TEXT', httputil.decode_TEXT),
        ('httputil.decode_TEXT_maybe', httputil.decode_TEXT_maybe),
        ('httputil.valid_status', httputil.valid_status),
        ('httputil.SanitizedHost.__new__', httputil.SanitizedHost.__new__),
        ('httputil.SanitizedHost._sanitize', fn(httputil.SanitizedHost.__dict__['_sanitize'])),
        ('httputil.CaseInsensitiveDict.transform_key', fn(httputil.CaseInsensitiveDict.__dict__['transform_key'])),
        ('_cprequest.Response.finalize', _cprequest.Response.finalize),
        ('_cprequest.Request.process_headers', _cprequest.Request.process_headers),
        ('_cperror.get_error_page', _cperror.get_error_page),
        ('_cperror.HTTPRedirect.set_response', _cperror.HTTPRedirect.set_response),
        ('_cperror.HTTPError.set_response', _cperror.HTTPError.set_response),
        ('_cperror._be_ie_unfriendly', _cperror._be_ie_unfriendly),
        ('_cperror.clean_headers', _cperror.clean_headers),
        ('_cplogging.LogManager.access', _cplogging.LogManager.access),
        ('static._make_content_disposition', static._make_content_disposition),
        ('cptools.proxy', cptools.proxy),
        ('cptools.trailing_slash', cptools.trailing_slash),
        ('sessions.set_response_cookie', sessions.set_response_cookie),
    ]
    return out


def start():
    mon = getattr(sys, 'monitoring', None)
    if mon is None or _STATE['on']:
        return
    try:
        funcs = anchored()
    except Exception:          # an anchored name is gone: the measurement is skipped, nothing else
        return
    try:
        mon.use_tool_id(TOOL, 'c12cov')
    except ValueError:
        return

    def on_line(code, line):
        _STATE['seen'].add((code, line))
        return mon.DISABLE
    mon.register_callback(TOOL, mon.events.LINE, on_line)
    for label, f in funcs:
        code = getattr(f, '__code__', None)
        if code is None:
            continue
        _STATE['codes'][code] = label
        mon.set_local_events(TOOL, code, mon.events.LINE)
    _STATE['on'] = True


def seen_labels():
    """{(label, line)} executed so far in this process."""
    return {(_STATE['codes'][c], l) for c, l in _STATE['seen'] if c in _STATE['codes']}


def all_lines():
    out = set()
    for code, label in _STATE['codes'].items():
        first = code.co_firstlineno
        for _s, _e, line in code.co_lines():
            if line is not None and line != first:      # the `def` line itself reports at definition time only
                out.add((label, line))
    return out


def report(extra_seen=()):
    """Sorted 'label:line' strings of anchored lines no case executed (this process + extra_seen)."""
    if not _STATE['on']:
        return None
    seen = seen_labels() | set(tuple(x) for x in extra_seen)
    return sorted('%s:%d' % x for x in all_lines() - seen)
