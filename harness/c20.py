"""C20 - background workers obey stop/graceful under every thread interleaving.

Models: lean/CpModel/Monitor.lean (M), BlockWait.lean (B), ThreadMgr.lean (T), C20Admit.lean (trace
inclusion); theorems: lean/CpProofs/C20*.lean; driver: lean/Drv/C20.lean.  Real code: REAL threads
running the real `BackgroundTask/Monitor/ThreadManager/Bus` code under the deterministic replay
scheduler `harness/c20_sched.py`.  Yield points are SHARED-STATE ACCESSES AND PRIMITIVE CALLS (data
descriptors on the live classes, a dict proxy, module-global shims for `time`/`threading`/`os`),
never source lines.  A case is a scenario + a schedule (list of thread ids).  After every effective
turn the observable shared state of the real objects is recorded; the Lean driver decides whether
the model ADMITS that trace (subset construction over model states, model steps that do not change
the observation are stuttering steps); an oracle written from the property statement is evaluated
on the journal of callback invocations / publications.
"""
import json
import os
import sys
import threading

from . import common
from . import c20_sched as S

PROPERTY = 'C20'
LEAN_TARGETS = ['CpProofs.C20', 'CpProofs.C20Freq', 'drv_c20']
DRIVER = 'drv_c20'
THEOREMS = [
    # the frequency re-configured at run time: where the model reads it (lean/CpProofs/C20Freq.lean)
    'CpProofs.C20Freq.stepCtl_ignores_frequency',
    'CpProofs.C20Freq.stepW_ignores_frequency',
    'CpProofs.C20Freq.step_ignores_frequency',
    'CpProofs.C20Freq.C20_stop_ignores_frequency',
    'CpProofs.C20Freq.C20_start_consults_frequency',
    'CpProofs.C20.C20_one_worker',
    'CpProofs.C20.C20_at_most_once_after_stop',
    'CpProofs.C20.C20_graceful_leaves_one',
    'CpProofs.C20.C20_cancelled_worker_terminates',
    'CpProofs.C20.C20_stop_joins_nondaemon',
    'CpProofs.C20.C20_controller_never_crashes',
    'CpProofs.C20.C20_one_worker_partial',
    'CpProofs.C20.C20_at_most_once_after_stop_partial',
    'CpProofs.C20.C20_graceful_leaves_one_partial',
    'CpProofs.C20.C20_at_most_once_after_stop_asIs_false',
    'CpProofs.C20.C20_one_worker_asIs_false',
    'CpProofs.C20.C20_graceful_leaves_one_asIs_false',
    'CpProofs.C20.C20_exiting_stable',
    'CpProofs.C20.C20_block_returns',
    'CpProofs.C20.C20_block_only_after_exiting',
    'CpProofs.C20.C20_execv_iff_restart',
    'CpProofs.C20.C20_block_joins_only_nondaemon',
    'CpProofs.C20.C20_block_waits_for_foreign',
    'CpProofs.C20.C20_execv_after_joins',
    'CpProofs.C20.C20_thread_notifications',
    'CpProofs.C20.C20_thread_notifications_quiescent',
    'CpProofs.C20.C20_thread_notifications_partial',
    'CpProofs.C20.C20_thread_notifications_asIs_false',
    'CpProofs.C20.C20_dead_worker_inert',
    'CpProofs.C20.C20_start_keeps_dead_worker',
    'CpProofs.C20.C20_graceful_replaces_dead_worker',
    'CpProofs.C20.C20_no_raise_no_dead_worker',
    'CpProofs.C20.reachAll2_idle',
    'CpProofs.C20.C20_overlapping_stop_crashes',
    'CpProofs.C20.C20_overlapping_stop_breaks_one_worker',
    'CpProofs.C20.C20_admitted_trace_is_model_run',
    'CpProofs.C20.C20_admitted_M_safe',
    'CpProofs.C20.C20_admitted_B_safe',
    'CpProofs.C20.C20_admitted_T_safe',
]
LEVEL = 'proof'
TECHNIQUE = ('Lean 4 proof: inductive invariants over the step relation of interleaving models (all schedules, all '
             'call sequences, any number of threads); models tied to the real threads by deterministic schedule '
             'replay at shared-state accesses and trace inclusion modulo stuttering (subset construction, proved sound)')
LEVEL_TEXT = ''     # set at the end of the module
LEVEL_NOTE = ''
TRUSTED_BASE = [
    'CPython: threads are switched only between bytecodes; attribute load/store and single dict operations '
    '(in, len, d[k]=v, pop, clear, list(d), one next() of an iterator) are atomic',
    'the shared variables of the anchored code are the instrumented ones (BackgroundTask.running, Monitor.thread, '
    'Bus.state, Bus.execv, ThreadManager.threads) and the primitive calls go through the shimmed module globals; '
    'code between two such accesses is thread-local, so pre-empting at accesses exhibits all interleavings',
    'time.sleep is a logical no-op (real-time behaviour is not modelled); os._exit/execv/atexit are recorded, '
    'not executed; threading.enumerate() inside wspbus returns the threads the scenario declares',
]
ASSUMPTIONS = [
    'Monitor.start/stop/graceful calls do not overlap each other (any thread may issue them, one at a time); they '
    'interleave freely with every worker',
    'bus listeners do not raise (C18 covers publish)',
    'exit()/restart() is the last bus call of the second thread; no third thread changes the bus state',
]
RULE = ('scenario (M: controller call sequence x frequency x daemon x raising callback; B: second-thread call sequence '
        'x foreign threads; T: request thread scripts x number of stop() calls) x schedule over shared-state accesses '
        '(systematic single/double pre-emption points, model-derived witness schedules, random); non-trivial = at '
        'least two threads took a step; distinct = distinct (scenario, schedule)')

PROCS = min(int(os.environ.get('C20_PROCS', '8')), os.cpu_count() or 2)
COV_TOOL = 3


class _Clock:
    """`plugins.time` / `wspbus.time`: sleeping takes no real time, it is a yield point."""

    def __init__(self, real):
        self._real = real
        self.sleeps = 0
        self.raise_at = None        # (number of the sleep, exception class): Ctrl-C / SystemExit inside sleep

    def sleep(self, _interval):
        S.ypoint(('sleep',))
        self.sleeps += 1
        if self.raise_at is not None and self.raise_at[0] == self.sleeps:
            raise self.raise_at[1]()

    @staticmethod
    def time():
        return 0.0

    def __getattr__(self, name):
        return getattr(self._real, name)


class _ProcExit(BaseException):
    pass


class _OsShim:
    def __init__(self, real):
        self._real = real

    def __getattr__(self, name):
        return getattr(self._real, name)

    @staticmethod
    def _exit(code):
        S.ypoint(('os._exit',))
        raise _ProcExit(code)


class _FakeAtexit:
    @staticmethod
    def register(*a, **k):
        return None


def _plugins():
    from cherrypy.process import plugins, wspbus
    return plugins, wspbus


def _funcs(cls, names=None, skip=()):
    out = []
    for k, v in cls.__dict__.items():
        f = v.__func__ if isinstance(v, (staticmethod, classmethod)) else v
        code = getattr(f, '__code__', None)
        if code is None or k in skip:
            continue
        if names is None or k in names or (k.startswith('_') and not k.startswith('__')):
            out.append(code)
    return out


BUS_SKIP = ('publish', 'log', 'subscribe', 'unsubscribe', '_clean_exit', '_do_execv', '_get_true_argv',
            '_get_interpreter_argv', '_extend_pythonpath', '_set_cloexec', 'start_with_callback', '__init__')


def anchored_codes():
    """The code objects the property is anchored in (public entry points by name + private helpers of the
    same classes, so that an extracted helper stays inside)."""
    plugins, wspbus = _plugins()
    m = _funcs(plugins.BackgroundTask, ('run', 'cancel', 'start'))
    m += _funcs(plugins.Monitor, ('start', 'stop', 'graceful'))
    m += _funcs(plugins.Autoreloader, ('start',), skip=('_archive_for_zip_module', '_file_for_file_module',
                                                        '_file_for_module', '_make_absolute'))
    t = _funcs(plugins.ThreadManager, ('acquire_thread', 'release_thread', 'stop'))
    b = _funcs(wspbus.Bus, ('wait', 'block', 'exit', 'restart', 'stop', 'start', 'graceful'), skip=BUS_SKIP)
    return {'M': m, 'T': t, 'B': b}


# ---- line coverage of the anchored functions (informational) ------------------------------------
_cov = {'on': False, 'seen': set()}


def _all_codes(code):
    yield code
    for c in code.co_consts:
        if hasattr(c, 'co_code'):
            for x in _all_codes(c):
                yield x


def coverage_on():
    if _cov['on']:
        return
    mon = sys.monitoring
    try:
        mon.use_tool_id(COV_TOOL, 'c20_cov')
    except ValueError:
        return

    def on_line(code, line):
        _cov['seen'].add((code.co_qualname, line - code.co_firstlineno))
        return mon.DISABLE
    mon.register_callback(COV_TOOL, mon.events.LINE, on_line)
    for codes in anchored_codes().values():
        for code in codes:
            for c in _all_codes(code):
                mon.set_local_events(COV_TOOL, c, mon.events.LINE)
    _cov['on'] = True


def coverage_all_lines():
    out = set()
    for codes in anchored_codes().values():
        for code in codes:
            for c in _all_codes(code):
                doc_end = c.co_firstlineno
                for _s, _e, ln in c.co_lines():
                    if ln is not None and ln > doc_end:
                        out.add((c.co_qualname, ln - c.co_firstlineno))
    return out


# ----------------------------------------------------------------------------------------------
# M: Monitor / BackgroundTask
# ----------------------------------------------------------------------------------------------
class _Boom(Exception):
    """what a failing monitor callback raises"""


class RunBase:
    """Common part of the three runners: scheduler, patches, the clock of effective steps."""
    kind = '?'

    def __init__(self, case):
        self.case = case
        self.clock = 0
        self.hang = None
        self.patches = S.Patches()
        self.undo = []
        codes = anchored_codes()[self.kind] if case.get('op') else ()
        self.sched = self.s = S.Sched(op_codes=codes)

    def on_write(self, obj, name, value):
        return value

    def activate(self):
        S._cur[0] = self
        self.s.install()

    def close(self):
        try:
            self.s.kill_all()
        finally:
            self.s.uninstall()
            S._cur[0] = None
            self.patches.restore()
            for fn in reversed(self.undo):
                fn()

    def runnable(self, tid):
        return tid in self.s.recs and tid in self.s.runnable()

    def step(self, tid):
        """One effective turn of thread `tid`; False when it is not schedulable (a no-op turn)."""
        if not self.runnable(tid):
            return False
        self.clock += 1
        self.before_step(tid)
        self.s.step(tid)
        self.after_step(tid)
        return True

    def before_step(self, tid):
        pass

    def after_step(self, tid):
        pass

    def model_tid(self, tid):
        return tid


class RunM(RunBase):
    """One M scenario on the real code."""
    kind = 'M'

    def __init__(self, case):
        RunBase.__init__(self, case)
        plugins, wspbus = _plugins()
        self.plugins = plugins
        self.patches.shared_attr(plugins.BackgroundTask, 'running')
        self.patches.shared_attr(plugins.Monitor, 'thread')
        saved_time = plugins.time
        plugins.time = _Clock(saved_time)
        self.undo.append(lambda: setattr(plugins, 'time', saved_time))
        self.bus = wspbus.Bus()
        self.journal = []          # (time, worker tid)
        self.rets = []             # (call index, call, begin time, return time)
        self.wstart = {}           # worker tid -> time it was started
        self.workers = []          # task objects in the order they were stored into Monitor.thread
        self.raises = set(case.get('boom') or ())      # numbers (1-based, global) of the invocations that raise
        self.ncb = 0
        self.boomed = {}           # worker tid -> time of the invocation that raised
        self.armed_twice = None    # first observation with two armed live workers of this monitor: (turn, tids)
        if case.get('ar'):
            # the Autoreloader, as far as it is a Monitor: it watches no file (match nothing), its
            # own run() is called behind the journalling probe
            self.mon = plugins.Autoreloader(self.bus, frequency=(1 if case['freq'] else 0), match='^$')
            poll = self.mon.callback
            self.touched = None
            self.polls = [0, 0]         # polls completed before / after the watched file changed
            if case['ar'] == 2:
                # a watched file that changes at the schedule step 'u': the worker itself then cancels its task
                # and calls bus.restart() -> exit -> 'stop' -> Autoreloader.stop() from the worker thread
                import tempfile
                fd, self.watched = tempfile.mkstemp(prefix='c20-watched-')
                os.close(fd)
                self.undo.append(lambda: os.path.exists(self.watched) and os.remove(self.watched))
                self.mon.files.add(self.watched)
                self.mon.subscribe()
                self.bus._do_execv = lambda: None

            def probe():
                self._cb()
                k = 0 if self.touched is None else 1
                poll()
                self.polls[k] += 1
            self.mon.callback = probe
        else:
            self.mon = plugins.Monitor(self.bus, self._cb, frequency=(1 if case['freq'] else 0), name='m')
        if not case['daemon']:
            self.s.before_start = lambda thr: setattr(thr, 'daemon', False)
        self.s.on_worker = lambda rec, thr: self.wstart.__setitem__(rec.tid, self.tick())
        self.seq = 0
        self.rets2 = []            # returned calls of the second controller (overlapping calls, outside the quantifier)
        self.activate()
        self.s.spawn('c', self._ctl)
        if case.get('calls2'):
            self.s.spawn('k', self._ctl2)

    def on_write(self, obj, name, value):
        if name == 'thread' and obj is self.mon and value is not None and \
                not any(value is w for w in self.workers):
            self.workers.append(value)
        return value

    def tick(self):
        """logical time of the oracle: a counter of recorded events (worker started, call begins, call
        returns, callback invoked); only one thread runs at a time, so the order is the real order"""
        self.seq += 1
        return self.seq

    def _cb(self):
        S.ypoint(('cb',))
        me = self.s.me()
        self.ncb += 1
        self.journal.append((self.tick(), me.tid if me else '?'))
        if self.ncb in self.raises:
            self.boomed[me.tid if me else '?'] = self.seq
            raise _Boom('callback failure #%d' % self.ncb)

    def _ctl(self):
        for k, call in enumerate(self.case['calls']):
            begin = self.tick()
            if call in ('f0', 'f1'):
                # the monitor's frequency re-configured at run time (what the config entry
                # engine.<plugin>.frequency does: a plain attribute assignment by the controlling thread)
                self.mon.frequency = int(call[1])
            else:
                getattr(self.mon, call)()
            self.rets.append((k, call, begin, self.tick()))

    def after_step(self, tid):
        # counted at EVERY observation: workers of this monitor that are started, have not left run() and
        # whose cancellation flag is up
        if self.armed_twice is None:
            armed = [t for t in self.s.order
                     if self.s.recs[t].kind == 'worker' and not self.s.recs[t].done
                     and self.s.recs[t].thread.__dict__.get('running')]
            if len(armed) > 1:
                self.armed_twice = (self.clock, armed)

    def _ctl2(self):
        for k, call in enumerate(self.case['calls2']):
            begin = self.tick()
            getattr(self.mon, call)()
            self.rets2.append((k, call, begin, self.tick()))

    def runnable(self, tid):
        if tid == 'u':
            return self.case.get('ar') == 2 and self.touched is None
        return RunBase.runnable(self, tid)

    def step(self, tid):
        if tid == 'u':
            if not self.runnable(tid):
                return False
            self.clock += 1
            st = os.stat(self.watched)
            os.utime(self.watched, (st.st_atime + 100, st.st_mtime + 100))
            self.touched = self.tick()
            return True
        return RunBase.step(self, tid)

    def _widx(self, obj):
        for i, w in enumerate(self.workers):
            if w is obj:
                return i
        return None

    def model_tid(self, tid):
        if tid in ('c', 'k') or tid not in self.s.recs:
            return tid
        rec = self.s.recs[tid]
        i = self._widx(rec.thread)
        # the turn in which the callback raises is a turn of its own kind in the model (Tid.wx)
        boom = rec.pending == ('cb',) and (self.ncb + 1) in self.raises
        return '%s%d' % ('x' if boom else 'w', i + 1) if i is not None else 'w99'

    def obs(self):
        cur = self.mon.__dict__.get('thread')
        if cur is None:
            t = 'N'
        else:
            i = self._widx(cur)
            t = '?' if i is None else str(i)
        ws = []
        for w in self.workers:
            rec = self.s.find_thread(w)
            n = sum(1 for (_, who) in self.journal if rec is not None and who == rec.tid)
            ws.append('%d%d%d%d:%d' % (1 if rec is not None else 0, 1 if w.__dict__.get('running') else 0,
                                       1 if (rec is not None and rec.done) else 0,
                                       1 if (rec is not None and rec.exc is not None) else 0, n))
        crec = self.s.recs['c']
        krec = self.s.recs.get('k')
        return 'T=%s;R=%d;X=%d;W=%s;R2=%d;X2=%d' % (t, len(self.rets), 1 if crec.exc is not None else 0, '/'.join(ws),
                                                   len(self.rets2), 1 if (krec is not None and krec.exc is not None) else 0)


def oracle_M_overlap(case, run):
    """Two controller threads whose calls OVERLAP: outside the property's quantifier (one sequence of calls).
    Demanded: nothing hangs, and what holds regardless - a worker cancelled by a stop()/graceful() that has
    returned invokes the callback at most once more.  Recorded (not demanded): AttributeError on None in one of
    the controllers, a worker that stays armed without being Monitor.thread (C20_overlapping_stop_*)."""
    bad = []
    recs = [run.s.recs['c'], run.s.recs['k']]
    for r in recs:
        # AttributeError: `self.thread` became None under the caller's feet; RuntimeError: both controllers
        # call Thread.start() on the same task object
        if r.exc is not None and not isinstance(r.exc, (AttributeError, RuntimeError)):
            bad.append(('controller call raised %r' % (r.exc,), 'M2:controller_exception:%s' % type(r.exc).__name__))
        elif r.exc is not None:
            bad.append(('(overlapping calls) %r' % (r.exc,), 'INFO:overlap:%s' % type(r.exc).__name__))
    if any(r.exc is None and not r.done for r in recs):
        bad.append(('a controller call never returned although every thread was given its turns', 'M2:call_never_returns'))
    if any(r.exc is not None or not r.done for r in recs):
        return bad
    allrets = sorted(run.rets + run.rets2, key=lambda r: r[3])
    # a worker that has been cancelled (its flag is down at the end) invokes the callback at most once more after
    # the last stop()/graceful() has returned
    stops = [r[3] for r in allrets if r[1] in ('stop', 'graceful')]
    if stops:
        for w in run.wstart:
            rec = run.s.recs[w]
            if rec.thread.__dict__.get('running'):
                continue
            n = sum(1 for (t, who) in run.journal if who == w and t > max(stops))
            if n > 1:
                bad.append(('cancelled worker %s invoked the callback %d times after the last stop()/graceful() had '
                            'returned' % (w, n), 'M2:callbacks_after_stop'))
    tdone = max([r[3] for r in allrets] or [0])
    active = sorted(w for w in run.wstart
                    if sum(1 for (t, who) in run.journal if who == w and t > tdone) >= 2 and not run.s.recs[w].done)
    if len(active) > 1:
        bad.append(('(overlapping calls) %d workers keep invoking the callback: %s' % (len(active), active),
                    'INFO:overlap:two_active_workers'))
    cur = run.mon.__dict__.get('thread')
    orphans = [w for w in active if run.s.recs[w].thread is not cur]
    if orphans:
        bad.append(('(overlapping calls) worker(s) %s keep running without being Monitor.thread' % orphans,
                    'INFO:overlap:orphan_worker'))
    return bad


def oracle_M_reload(case, run):
    """Autoreloader whose watched file changes: the worker cancels itself and restarts the bus from inside
    the callback.  Demanded: no controller call fails or hangs; once the worker has polled the file before
    AND after the change, the bus has been asked to re-exec and driven to EXITING, the monitor has let go of
    the worker, and the worker invokes the callback at most once more after that poll."""
    bad = []
    crec = run.s.recs['c']
    if crec.exc is not None:
        return [('controller call raised %r' % (crec.exc,), 'M:controller_exception:%s' % type(crec.exc).__name__)]
    if not crec.done:
        return [('a controller call never returned', 'M:call_never_returns')]
    for tid, r in run.s.recs.items():
        if r.kind == 'worker' and r.exc is not None:
            bad.append(('the reloading worker %s died with %r' % (tid, r.exc), 'M:reload_exception:%s' % type(r.exc).__name__))
    if run.touched is not None and run.polls[0] >= 1 and run.polls[1] >= 1 and not bad:
        names = {id(getattr(run.bus.states, n)): n for n in ('STOPPED', 'STARTING', 'STARTED', 'STOPPING', 'EXITING')}
        st = names.get(id(run.bus.state), repr(run.bus.state))
        if not run.bus.execv or st != 'EXITING':
            bad.append(('the watched file changed and was polled, but the bus is %s with execv=%s'
                        % (st, run.bus.execv), 'M:reload_not_requested'))
        if run.polls[1] > 2:
            bad.append(('the worker polled %d more times after it had seen the change' % (run.polls[1] - 1),
                        'M:callbacks_after_stop'))
    return bad


def oracle_M(case, run):
    """The property statement evaluated on what the real threads did (complete runs only)."""
    if case.get('calls2'):
        return oracle_M_overlap(case, run)
    if case.get('ar') == 2:
        return oracle_M_reload(case, run)
    bad = []
    crec = run.s.recs['c']
    if crec.exc is not None:
        bad.append(('controller call raised %r' % (crec.exc,), 'M:controller_exception:%s' % type(crec.exc).__name__))
        return bad
    if not crec.done:
        bad.append(('controller call #%d (%s) never returned although every thread was given its turns'
                    % (len(run.rets), case['calls'][len(run.rets)]), 'M:call_never_returns'))
        return bad
    # once stop has returned: at most one more invocation by any worker started before it, then never again
    for (k, call, begin, tret) in run.rets:
        if call not in ('stop', 'graceful'):
            continue
        for w, t0 in run.wstart.items():
            if t0 >= begin:
                continue
            n = sum(1 for (t, who) in run.journal if who == w and t > tret)
            if n > 1:
                bad.append(('worker %s invoked the callback %d times after %s() #%d had returned'
                            % (w, n, call, k), 'M:callbacks_after_stop'))
    # at most one worker per monitor is active, at every moment: never two started, unfinished workers with
    # their flag up; and an older worker invokes the callback at most once (the invocation in flight) after a
    # newer worker of the same monitor has been started
    if run.armed_twice is not None:
        bad.append(('after turn %d two workers of the monitor are armed and alive at the same time: %s'
                    % run.armed_twice, 'M:two_armed_workers'))
    order = sorted(run.wstart, key=lambda w: run.wstart[w])
    for i, old in enumerate(order):
        for new in order[i + 1:]:
            n = sum(1 for (t, who) in run.journal if who == old and t > run.wstart[new])
            if n > 1:
                bad.append(('worker %s invoked the callback %d times after its successor %s had been started'
                            % (old, n, new), 'M:old_worker_fires_beside_new'))
                break
    # graceful/start leave exactly one, stop leaves none
    tdone = run.rets[-1][3] if run.rets else 0
    active = sorted(w for w in run.wstart
                    if sum(1 for (t, who) in run.journal if who == w and t > tdone) >= 2
                    and not run.s.recs[w].done)      # (a worker whose thread has ended is not active)
    # (f0 / f1 = the frequency re-configured at run time: not a call of the statement; what counts is the frequency
    # in effect when the last start()/graceful() ran)
    freq, last, freq_at_last = case['freq'], None, case['freq']
    for (_k, call, _b, _t) in run.rets:
        if call in ('f0', 'f1'):
            freq = int(call[1])
        else:
            last, freq_at_last = call, freq
    want = 1 if (last in ('start', 'graceful') and freq_at_last) else 0
    # a callback that raises kills its worker (run() re-raises): the monitor's current worker is then dead,
    # start() does not replace it (less demanding reading), graceful() does
    cur = run.s.find_thread(run.mon.__dict__.get('thread')) if run.mon.__dict__.get('thread') is not None else None
    ok = {want}
    if cur is not None and cur.tid in run.boomed:
        ok = {0, want}      # (the statement says nothing about a worker whose callback failed: dead or alive)
    if len(active) > 1:
        bad.append(('%d workers keep invoking the callback after the last call (%s) returned: %s'
                    % (len(active), last, active), 'M:two_active_workers'))
    elif len(active) not in ok:
        bad.append(('%d active worker(s) after the last call (%s) returned, expected %d'
                    % (len(active), last, want), 'M:wrong_worker_count_after_%s' % last))
    return bad


def tail_M(nworkers=4):
    # up to 4 calls, each of which may have to wait (join) for a non-daemon worker to run off
    t = []
    for _ in range(5):
        t += ['c'] * 30 + ['k'] * 12
        for w in range(1, nworkers + 1):
            t += ['w%d' % w] * 14
    return t


# ----------------------------------------------------------------------------------------------
# B: Bus.block / wait
# ----------------------------------------------------------------------------------------------
class _Foreign(threading.Thread):
    """A thread of the embedding application as `threading.enumerate()` shows it to block(): never
    really started; `join()` is a blocking yield point; a turn of its schedule id finishes it."""

    def __init__(self, run, fid, daemon):
        threading.Thread.__init__(self, name='foreign-' + fid, daemon=bool(daemon))
        self.fid = fid
        self.done = False
        self._c20run = run

    def join(self, timeout=None):
        self._c20run.joined.append(self.fid)
        self._c20run.s.wait_for(self, ('join-foreign', self.fid))

    def is_alive(self):
        return not self.done


class _ThreadingShim:
    """`wspbus.threading`: enumerate() shows the threads the scenario declares."""

    def __init__(self, real, run):
        self._real = real
        self._c20run = run

    def __getattr__(self, name):
        return getattr(self._real, name)

    def enumerate(self):
        S.ypoint(('enumerate',))
        self._c20run.left_loop('enumerate')
        me = self._real.current_thread()
        out = [self._real.main_thread(), me]
        x = self._c20run.s.recs.get('x')
        if x is not None:
            out.append(x.thread)        # (daemonic; listed whether or not it has finished: never joined)
        return out + [f for f in self._c20run.foreign if f.is_alive()]


class RunB(RunBase):
    kind = 'B'

    def __init__(self, case):
        RunBase.__init__(self, case)
        plugins, wspbus = _plugins()
        self.wspbus = wspbus
        saved = (wspbus.time, wspbus.os, wspbus.atexit, wspbus.threading)
        wspbus.time = _Clock(saved[0])
        if case.get('intr'):
            # the main thread's n-th sleep inside wait() is interrupted: 'k' KeyboardInterrupt, 's' SystemExit
            wspbus.time.raise_at = (int(case['intr'][1:]), KeyboardInterrupt if case['intr'][0] == 'k' else SystemExit)
        wspbus.os = _OsShim(os)
        wspbus.atexit = _FakeAtexit
        wspbus.threading = _ThreadingShim(saved[3], self)

        def undo():
            wspbus.time, wspbus.os, wspbus.atexit, wspbus.threading = saved
        self.undo.append(undo)
        self.patches.shared_attr(wspbus.Bus, 'state')
        self.patches.shared_attr(wspbus.Bus, 'execv')
        self.bus = wspbus.Bus()
        self.names = {id(getattr(wspbus.states, n)): n for n in
                      ('STOPPED', 'STARTING', 'STARTED', 'STOPPING', 'EXITING')}
        self.pubs = 0
        self.execv_done = False
        self.xrets = 0
        self.joined = []
        # foreign threads: 'n' non-daemon, 'd' daemon; ids f1, f2, ...
        self.foreign = [_Foreign(self, 'f%d' % (i + 1), ch == 'd') for i, ch in enumerate(case.get('foreign', ''))]
        self.t_exiting = None      # time the bus first was EXITING
        self.t_left_wait = None
        self.state_when_left = None
        self.left_by = None
        self.m_steps_after_exiting = 0
        self.bus.subscribe('main', self._main)
        for ch in ('start', 'stop', 'exit', 'graceful'):
            self.bus.subscribe(ch, (lambda c: lambda: S.ypoint(('listener', c)))(ch))
        self.bus._do_execv = self._execv
        self.bus.start()
        self.activate()
        self.s.spawn('m', self._m)
        self.s.spawn('x', self._x)

    def _main(self):
        S.ypoint(('listener', 'main'))
        self.pubs += 1

    def _execv(self):
        S.ypoint(('execv',))
        self.left_loop('execv')
        me = self.s.me()
        self.execv_done = (me.tid if me else '?')

    def left_loop(self, how):
        """the main thread does something that block() does only after its polling loop"""
        me = self.s.me()
        if me is not None and me.tid == 'm' and self.t_left_wait is None:
            self.t_left_wait = self.clock
            self.state_when_left = self.state()
            self.left_by = how

    def _m(self):
        try:
            self.bus.block()
        finally:
            self.left_loop('return')

    def _x(self):
        for call in self.case['calls']:
            getattr(self.bus, call)()
            self.xrets += 1

    def state(self):
        st = self.bus.__dict__.get('state')
        return self.names.get(id(st), repr(st))

    def runnable(self, tid):
        if tid.startswith('f'):
            return any(f.fid == tid and not f.done for f in self.foreign)
        return RunBase.runnable(self, tid)

    def step(self, tid):
        if tid.startswith('f'):
            for f in self.foreign:
                if f.fid == tid and not f.done:
                    self.clock += 1
                    f.done = True
                    return True
            return False
        return RunBase.step(self, tid)

    def before_step(self, tid):
        if tid == 'm' and self.t_exiting is not None:
            self.m_steps_after_exiting += 1

    def after_step(self, tid):
        if self.t_exiting is None and self.state() == 'EXITING':
            self.t_exiting = self.clock

    def obs(self):
        x = self.s.recs['x']
        m = self.s.recs['m']
        e = '0' if x.exc is None else ('1' if isinstance(x.exc, _ProcExit) else 'C')
        o = 'S=%s;X=%d;P=%d;D=%d;M=%d;R=%d;E=%s' % (self.state(), 1 if self.bus.__dict__.get('execv') else 0,
                                                    self.pubs, 1 if self.execv_done else 0,
                                                    1 if (m.done and m.exc is None) else 0, self.xrets, e)
        o += ';F=' + ''.join('%d' % (1 if f.done else 0) for f in self.foreign) + \
             ';J=' + (','.join(self.joined) or '-')
        if m.exc is not None:
            o += ';MX=1'
        return o


def oracle_B(case, run):
    bad = []
    m, x = run.s.recs['m'], run.s.recs['x']
    if case.get('intr'):
        return oracle_B_interrupted(case, run)
    for r, who in ((m, 'block()'), (x, 'second thread')):
        if r.exc is not None:
            bad.append(('%s raised %r' % (who, r.exc), 'B:exception:%s' % type(r.exc).__name__))
    if bad:
        return bad
    if run.t_left_wait is not None and run.state_when_left != 'EXITING':
        bad.append(('block() left its wait loop (%s) in state %s (EXITING %s)'
                    % (run.left_by, run.state_when_left, 'never reached' if run.t_exiting is None else 'reached'),
                    'B:block_returns_without_EXITING'))
    pending_foreign = [f.fid for f in run.foreign if not f.daemon and not f.done]
    limit = (600 if case.get('op') else 14) + 3 * len(run.foreign)
    if run.t_exiting is not None and not m.done and not pending_foreign and run.m_steps_after_exiting >= limit:
        bad.append(('the bus is EXITING and the main thread took %d more steps, but block() has not returned'
                    % run.m_steps_after_exiting, 'B:block_does_not_return'))
    blk = m.blocked_on
    if run.t_exiting is not None and not m.done and not pending_foreign and blk is not None and not blk.done:
        bad.append(('the bus is EXITING and every non-daemon thread of the application has finished, but block() '
                    'waits for %s' % ('daemon thread ' + blk.fid if isinstance(blk, _Foreign) else 'a bus thread'),
                    'B:block_does_not_return'))
    if m.done:
        want = 'restart' in case['calls']
        if bool(run.execv_done) != want:
            bad.append(('block() returned; execv performed=%s, restart requested=%s' % (run.execv_done, want),
                        'B:execv_mismatch'))
        elif want and run.execv_done != 'm':
            bad.append(('execv performed by thread %s, not by the main thread' % run.execv_done,
                        'B:execv_wrong_thread'))
    return bad


def oracle_B_interrupted(case, run):
    """Ctrl-C / SystemExit inside the polling loop: block() itself drives the bus to EXITING and returns
    (SystemExit is passed on after that)."""
    bad = []
    m, x = run.s.recs['m'], run.s.recs['x']
    fired = run.wspbus.time.sleeps >= run.wspbus.time.raise_at[0]
    if x.exc is not None:
        bad.append(('second thread raised %r' % (x.exc,), 'B:exception:%s' % type(x.exc).__name__))
    if not fired:
        return bad
    kind = case['intr'][0]
    if isinstance(m.exc, _ProcExit) and 'start' in case['calls']:
        return bad      # exit() found the bus STARTING (a concurrent start()): os._exit is the documented reaction
    if not m.done:
        bad.append(('the main thread was interrupted inside wait() but block() has not returned', 'B:block_does_not_return'))
    elif kind == 'k' and m.exc is not None:
        bad.append(('block() raised %r after a KeyboardInterrupt' % (m.exc,), 'B:exception:%s' % type(m.exc).__name__))
    elif kind == 's' and not isinstance(m.exc, SystemExit):
        bad.append(('SystemExit inside wait() was not passed on by block() (%r)' % (m.exc,), 'B:systemexit_swallowed'))
    elif run.t_exiting is None:
        # (the second thread may rewrite the state afterwards: only "EXITING was reached" is demanded)
        bad.append(('block() was interrupted and is over (%s), but the bus never was EXITING' % run.left_by,
                    'B:block_returns_without_EXITING'))
    return bad


def tail_B(case):
    # the non-daemon foreign threads finish at last; daemonic ones may run for ever
    t = ['x'] * 40 + ['m'] * 16
    for i, ch in enumerate(case.get('foreign', '')):
        if ch == 'n':
            t += ['f%d' % (i + 1)] + ['m'] * 8
    return t


# ----------------------------------------------------------------------------------------------
# T: ThreadManager
# ----------------------------------------------------------------------------------------------
class RunT(RunBase):
    kind = 'T'

    def __init__(self, case):
        RunBase.__init__(self, case)
        plugins, wspbus = _plugins()
        self.patches.shared_attr(plugins.ThreadManager, 'threads', reads=False)
        self.patches.shared_attr(wspbus.Bus, 'state')
        self.bus = wspbus.Bus()
        self.tm = plugins.ThreadManager(self.bus)
        self._wrap(self.tm)
        self.lifecycle = case.get('bus')
        if self.lifecycle:
            # the real bus life-cycle around the thread manager: it is subscribed like in a deployment, the
            # stopper calls bus.stop()/graceful()/exit(), which publish to SEVERAL listeners in priority order
            # (one before and one after the thread manager's own sweep), request threads go through the
            # 'acquire_thread' / 'release_thread' channels; acquisitions and releases land in every bus state
            saved = (wspbus.os, wspbus.atexit)
            wspbus.os = _OsShim(os)
            wspbus.atexit = _FakeAtexit

            def undo():
                wspbus.os, wspbus.atexit = saved
            self.undo.append(undo)
            self.tm.subscribe()
            for ch in ('stop', 'graceful', 'exit'):
                for prio, tag in ((10, 'early'), (90, 'late')):
                    self.bus.subscribe(ch, (lambda c, t: lambda: S.ypoint(('listener', c, t)))(ch, tag), priority=prio)
            self.bus.start()
        self.journal = []          # ('+'|'-', index, publisher tid)
        self.bus.subscribe('start_thread', lambda i: self._pub('+', i))
        self.bus.subscribe('stop_thread', lambda i: self._pub('-', i))
        self.ident = {}
        self.n = len(case['scripts'])
        self.rrets = [0] * self.n
        self.srets = 0
        self.activate()
        for k, ops in enumerate(case['scripts']):
            self.s.spawn('t%d' % (k + 1), self._req(k, ops))
        self.s.spawn('s', self._stopper)

    def _wrap(self, tm):
        cur = tm.__dict__.get('threads')
        if isinstance(cur, dict) and not isinstance(cur, S.SharedDict):
            d = S.SharedDict()
            dict.update(d, cur)
            tm.__dict__['threads'] = d

    def on_write(self, obj, name, value):
        if name == 'threads' and type(value) is dict:
            d = S.SharedDict()
            dict.update(d, value)
            return d
        return value

    def _pub(self, kind, i):
        S.ypoint(('listener', kind))
        me = self.s.me()
        self.journal.append((kind, i, me.tid if me else '?'))

    def _req(self, k, ops):
        def body():
            self.ident[threading.get_ident()] = 't%d' % (k + 1)
            for op in ops:
                if self.lifecycle:
                    self.bus.publish('acquire_thread' if op == 'a' else 'release_thread')
                elif op == 'a':
                    self.tm.acquire_thread()
                else:
                    self.tm.release_thread()
                self.rrets[k] += 1
        return body

    def _stopper(self):
        if self.lifecycle:
            for call in self.lifecycle:
                getattr(self.bus, call)()
                self.srets += 1
            return
        for _ in range(self.case['nstops']):
            self.tm.stop()
            self.srets += 1

    def registry(self):
        d = self.tm.__dict__.get('threads')
        return list(dict.items(d)) if isinstance(d, dict) else []

    def obs(self):
        d = ['%s:%s' % (self.ident.get(k, '?'), v) for k, v in self.registry()]
        j = ['%s%s@%s' % e for e in self.journal]
        srec = self.s.recs['s']
        # (inside bus.stop() a failure of the sweep arrives wrapped in ChannelFailures)
        e = '0' if srec.exc is None else ('1' if isinstance(srec.exc, RuntimeError) or
                                          'RuntimeError(' in str(srec.exc) else 'C')
        o = 'D=%s;J=%s;r=%s;s=%d;E=%s' % (','.join(d) or '-', ','.join(j) or '-',
                                         ','.join(str(n) for n in self.rrets) or '-', self.srets, e)
        dead = [tid for tid, r in self.s.recs.items() if tid != 's' and r.exc is not None]
        if dead:
            o += ';RX=' + ','.join(sorted(dead))
        return o


def oracle_T(case, run):
    bad = []
    for tid, r in run.s.recs.items():
        if r.exc is not None:
            bad.append(('%s raised %s: %s' % ('ThreadManager.stop()' if tid == 's' else 'request thread ' + tid,
                                              type(r.exc).__name__, str(r.exc)[:200]),
                        'T:exception:%s:%s' % ('stop' if tid == 's' else 'request', type(r.exc).__name__)))
    if not all(r.done for r in run.s.recs.values()):
        return bad + [('a ThreadManager call did not finish', 'T:call_never_returns')]
    # exactly once per serving thread: every start_thread(i) is matched by exactly one stop_thread(i),
    # except for the registrations still held at the end
    idx = {}
    for kind, i, _who in run.journal:
        idx.setdefault(i, [0, 0])[0 if kind == '+' else 1] += 1
    held = {}
    for _k, v in run.registry():
        held[v] = held.get(v, 0) + 1
    for i in sorted(set(idx) | set(held), key=repr):
        st, sp = idx.get(i, [0, 0])
        if st != sp + held.get(i, 0):
            bad.append(('index %s: start_thread published %d time(s), stop_thread %d time(s), %d registration(s) '
                        'left' % (i, st, sp, held.get(i, 0)),
                        'T:stop_thread_twice' if sp + held.get(i, 0) > st else 'T:stop_thread_missing'))
    # a serving thread that has released itself (and not acquired again) is not registered any more
    left = set(run.ident.get(k, '?') for k, _v in run.registry())
    for k, ops in enumerate(case['scripts']):
        tid = 't%d' % (k + 1)
        if ops and ops[-1] == 'r' and tid in left:
            bad.append(('%s has called release_thread (its last call) but is still registered when everything is '
                        'over: its start_thread will never be matched by a stop_thread' % tid, 'T:stale_registration'))
    # each serving thread announces itself (start_thread from its own acquire) at most once per registration
    for k, ops in enumerate(case['scripts']):
        tid = 't%d' % (k + 1)
        mine = sum(1 for kind, _i, who in run.journal if kind == '+' and who == tid)
        if mine > ops.count('a'):
            bad.append(('%s published start_thread %d times with %d acquire calls' % (tid, mine, ops.count('a')),
                        'T:start_thread_twice'))
        if _nstops(case) == 0 and mine != _expected_starts(ops):
            bad.append(('%s published start_thread %d times, expected %d (no concurrent stop)'
                        % (tid, mine, _expected_starts(ops)), 'T:start_thread_count'))
    return bad


def _expected_starts(ops):
    reg, n = False, 0
    for op in ops:
        if op == 'a' and not reg:
            reg, n = True, n + 1
        elif op == 'r':
            reg = False
    return n


def tail_T(n):
    t = []
    for _ in range(2):
        for k in range(n):
            t += ['t%d' % (k + 1)] * 30
        t += ['s'] * 40
    return t


# ----------------------------------------------------------------------------------------------
# common driver of a case
# ----------------------------------------------------------------------------------------------
RUNNERS = {'M': RunM, 'B': RunB, 'T': RunT}
ORACLES = {'M': oracle_M, 'B': oracle_B, 'T': oracle_T}
_modes = {}


def modes():
    """Which protocol does the live tree implement?  Decided by behaviour, not by reading source."""
    if _modes:
        return _modes
    # M: is the task armed when Monitor.start() has returned and the worker has not run yet?
    _modes['M'] = 'fixed'
    try:
        r = RunM({'k': 'M', 'freq': 1, 'daemon': 1, 'calls': ['start'], 'sched': []})
        try:
            n = 0
            while not r.s.recs['c'].done and n < 60:
                if not r.step('c'):
                    break
                n += 1
            w = r.workers[0] if r.workers else None
            if w is not None and r.s.find_thread(w) is not None and not w.__dict__.get('running'):
                _modes['M'] = 'asIs'
        finally:
            r.close()
    except (S.Hang, S.SchedError, Exception):     # noqa - a broken start() is the oracle's business
        pass
    # T: is the entry already removed when stop() publishes stop_thread?
    plugins, wspbus = _plugins()
    seen = []
    try:
        bus = wspbus.Bus()
        tm = plugins.ThreadManager(bus)
        bus.subscribe('stop_thread', lambda i: seen.append(len(tm.threads)))
        tm.acquire_thread()
        tm.stop()
    except Exception:           # noqa - a broken stop() is the oracle's business, not the detector's
        seen = [0]
    _modes['T'] = 'asIs' if seen == [1] else 'fixed'
    return _modes


def full_sched(case):
    """The case's schedule followed by the completion tail (every thread gets enough turns to finish
    its calls; turns of threads that are not schedulable are no-ops)."""
    k = case['k']
    tail = tail_M() if k == 'M' else tail_B(case) if k == 'B' else tail_T(len(case['scripts']))
    if case.get('op'):
        tail = [t for t in tail for _ in range(40)]     # bytecode steps are much finer than accesses
    return list(case['sched']) + tail


def scenario_key(case):
    k = case['k']
    if k == 'M':
        return 'M %d %d %s %s%s%s%s' % (case['freq'], case['daemon'], ','.join(case['calls']) or '-',
                                        'ar%s ' % case['ar'] if case.get('ar') else '', 'op ' if case.get('op') else '',
                                        'boom=%s' % (case.get('boom'),) if case.get('boom') else '',
                                        ' ||' + ','.join(case['calls2']) if case.get('calls2') else '')
    if k == 'B':
        return 'B %s %s%s%s' % (','.join(case['calls']) or '-', case.get('foreign', ''), ' op' if case.get('op') else '',
                                ' intr=' + case['intr'] if case.get('intr') else '')
    return 'T %d %s%s%s' % (case['nstops'], '/'.join(case['scripts']) or '-', ' op' if case.get('op') else '',
                            ' bus=' + ','.join(case['bus']) if case.get('bus') else '')


def model_line(case, trace):
    k = case['k']
    if k == 'M':
        return 'AM %s %d %d %s %s %s' % (modes()['M'], case['freq'], case['daemon'], ','.join(case['calls']) or '-',
                                         ','.join(case.get('calls2') or ()) or '-', trace)
    if k == 'B':
        return 'AB %s %s %s' % (','.join(case['calls']) or '-', case.get('foreign') or '-', trace)
    return 'AT %s %d %s %s' % (modes()['T'], _nstops(case), '/'.join(case['scripts']) or '-', trace)


def _nstops(case):
    # every bus.stop()/graceful()/exit() runs the thread manager's sweep exactly once
    return len(case['bus']) if case.get('bus') else case['nstops']


def comparable(case):
    if case.get('op'):
        return False            # bytecode-granular runs: oracle only
    if case['k'] == 'M' and case.get('ar') == 2:
        return False            # Autoreloader restarting the bus from inside its callback: oracle only
    if case['k'] == 'M' and any(c in ('f0', 'f1') for c in case['calls']):
        return False            # frequency re-configured at run time (the model's frequency is a constant): oracle only
    if case['k'] == 'M' and case.get('boom'):
        return MODEL_HAS.get('boom', False)
    if case['k'] == 'B' and case.get('intr'):
        return False            # Ctrl-C / SystemExit inside wait(): oracle only
    if case['k'] == 'B' and case.get('foreign'):
        return MODEL_HAS.get('foreign', False)
    if case['k'] == 'T':
        if any(not ops for ops in case['scripts']):
            return False
        if modes()['T'] == 'asIs' and sum(ops.count('a') for ops in case['scripts']) > 5:
            return False        # beyond the no-resize bound of the dict model
    return True


MODEL_HAS = {'boom': True, 'foreign': True}


_hangs = {}         # scenario kind -> number of hangs seen in this process


def execute(case):
    """Run one case on the real threads.
    Returns (trace, oracle failures, #threads that ran, labels of the executed accesses)."""
    if _hangs.get(case['k'], 0) >= 1:
        # a thread of an earlier case is still spinning inside the code under test in this process: that
        # case has been reported; running more cases beside it would only produce timeouts
        return '~skipped', [], 0, []
    try:
        run = RUNNERS[case['k']](case)
    except S.SchedError as e:
        raise common.HarnessError('scheduler: %s (case %s)' % (e, json.dumps(case)[:400]))
    except common.HarnessError:
        raise
    except Exception as e:      # noqa - the code under test cannot even be set up: an observation
        S._cur[0] = None
        return '~setup-failed', [('setting up the scenario raised %r' % (e,),
                                  '%s:setup_exception:%s' % (case['k'], type(e).__name__))], 0, []
    labels = []
    try:
        last = run.obs()
        items = ['~' + last]
        hang = None
        for tid in full_sched(case):
            if not run.runnable(tid):
                continue
            mt = run.model_tid(tid)
            lab = run.s.recs[tid].pending if tid in run.s.recs else None
            try:
                run.step(tid)
            except S.Hang as e:
                hang = e
                _hangs[case['k']] = _hangs.get(case['k'], 0) + 1
                break
            o = run.obs()
            labels.append((tid, lab))
            if o == last:
                items.append(mt)
            else:
                items.append(mt + '~' + o)
                last = o
        if hang is not None:
            bad = [('the code under test hangs: %s (all blocking primitives are virtual, so this is a livelock '
                    'or a real blocking call inside the anchored code)' % hang, '%s:hang' % case['k'])]
        else:
            bad = ORACLES[case['k']](case, run)
        nthreads = sum(1 for r in run.s.recs.values() if r.steps > 1)
        return '|'.join(items), bad, nthreads, labels
    except S.SchedError as e:
        raise common.HarnessError('scheduler: %s (case %s)' % (e, json.dumps(case)[:400]))
    finally:
        run.close()


def _exec_chunk(chunk):
    coverage_on()
    out = []
    for c in chunk:
        tr, bad, n, _labels = execute(c)
        out.append((tr, bad, n))
    return out, sorted(_cov['seen'])


def _pmap(fn, args):
    """parallel map over forked workers; a worker that dies (interpreter crash) is a harness error,
    never a hang and never a violation"""
    if PROCS <= 1 or len(args) <= 1:
        return [fn(a) for a in args]
    import multiprocessing as mp
    from concurrent.futures import ProcessPoolExecutor
    from concurrent.futures.process import BrokenProcessPool
    try:
        with ProcessPoolExecutor(max_workers=PROCS, mp_context=mp.get_context('fork')) as ex:
            return list(ex.map(fn, args, timeout=3000))
    except BrokenProcessPool as e:
        raise common.HarnessError('a case-execution worker process died: %r' % (e,))


def _model_parallel(ctx, lines):
    """the admission test is CPU-bound in the Lean driver: several driver processes side by side"""
    if not lines:
        return []
    if ctx.model(lines[:1]) is None:
        return None
    n = max(1, min(PROCS, len(lines) // 50))
    if n == 1:
        return ctx.model(lines)
    from concurrent.futures import ThreadPoolExecutor
    size = (len(lines) + n - 1) // n
    parts = [lines[i:i + size] for i in range(0, len(lines), size)]
    with ThreadPoolExecutor(max_workers=n) as ex:
        res = list(ex.map(ctx.model, parts))
    return [x for part in res for x in part]


COVERED = set()


def check_cases(ctx, cases, compare=True):
    done = []
    cases = list(cases)
    modes()
    chunks = [cases[i:i + 25] for i in range(0, len(cases), 25)]
    results = []
    for rs, cov in _pmap(_exec_chunk, chunks):
        results += rs
        COVERED.update(tuple(x) for x in cov)
    for case, (trace, bad, nthreads) in zip(cases, results):
        key = scenario_key(case) + ' ' + ','.join(case['sched'])
        ctx.case(case, nontrivial=nthreads >= 2, key=key)
        ctx.count('scenario:' + case['k'] + ('/bytecode' if case.get('op') else '') + ('/Autoreloader' if case.get('ar') else ''))
        ctx.count('%s:turns<=%d' % (case['k'], 20 * (1 + trace.count('|') // 20)))
        if case['k'] == 'M':
            ctx.count('M:calls=' + ','.join(case['calls']))
            ctx.count('M:daemon=%d,freq=%d%s' % (case['daemon'], case['freq'], ',raising' if case.get('boom') else ''))
        elif case['k'] == 'B':
            ctx.count('B:calls=' + ','.join(case['calls']) + (' foreign=' + case['foreign'] if case.get('foreign') else ''))
        else:
            ctx.count('T:threads=%d,stops=%d' % (len(case['scripts']), case['nstops']))
        for what, sig in bad:
            if sig.startswith('INFO:'):
                ctx.count(sig)      # recorded, not demanded (outside the property's quantifier)
                continue
            ctx.count('oracle:' + sig)
            ctx.oracle_fail(case, what, sig)
        done.append((case, trace, any(not sig.startswith('INFO:') for _w, sig in bad)))
    if compare:
        comp = [(c, t) for (c, t, _b) in done if comparable(c) and not t.startswith('~s')]
        answers = _model_parallel(ctx, [model_line(c, t) for c, t in comp])
        if answers is not None:
            for (c, t), a in zip(comp, answers):
                ctx.compared()
                if a != 'ok':
                    ctx.count('not-admitted:' + c['k'])
                    ctx.disagree(c, _tail_of(t, a), a,
                                 'the model does not admit the observable trace of the real threads (%s)' % a[:160])


def _tail_of(trace, answer):
    """the turns around the one the model could not follow"""
    items = trace.split('|')
    parts = answer.split()
    try:
        i = int(parts[1]) + 1
    except (IndexError, ValueError):
        i = 0
    obs = ''
    for it in items[:max(i - 1, 0) + 1]:
        if '~' in it:
            obs = it.split('~', 1)[1]
    return 'before: %s / turns %d..: %s' % (obs, max(i - 1, 0), ' | '.join(items[max(i - 1, 1):i + 3]))


# ----------------------------------------------------------------------------------------------
# generators (a schedule step = one shared-state access / primitive call of that thread)
# ----------------------------------------------------------------------------------------------
M_SEQS = [['start'], ['start', 'stop'], ['start', 'stop', 'graceful'], ['start', 'stop', 'graceful', 'start'],
          ['start', 'graceful'], ['start', 'graceful', 'stop'], ['graceful'], ['stop'], ['start', 'start', 'stop'],
          ['start', 'stop', 'start'], ['start', 'stop', 'stop', 'start'], ['graceful', 'graceful']]
MAIN_SEQ = ['start', 'stop', 'graceful', 'start']


def gen_M_systematic(calls, freq, daemon, points_a, points_b, **extra):
    """controller runs a steps, then the workers get b steps each, then everything completes"""
    for a in points_a:
        for b in points_b:
            sched = ['c'] * a + ['w1'] * b + ['w2'] * b
            yield dict({'k': 'M', 'freq': freq, 'daemon': daemon, 'calls': calls, 'sched': sched}, **extra)


# the frequency re-configured while a worker exists (engine.<plugin>.frequency = 0 / = n at run time)
M_FREQ_SEQS = [['start', 'f0', 'stop'], ['start', 'f0', 'stop', 'f1', 'start'], ['start', 'f0', 'graceful'],
               ['start', 'f0', 'stop', 'stop'], ['start', 'f0', 'f1', 'stop'], ['f1', 'start', 'stop'],
               ['start', 'f0', 'graceful', 'f1', 'graceful'], ['start', 'stop', 'f0', 'start', 'f1', 'start']]


def gen_M_two(calls, freq, daemon, rng, n):
    for _ in range(n):
        a1, b1, a2, b2 = rng.randint(0, 26), rng.randint(0, 10), rng.randint(1, 16), rng.randint(0, 10)
        w = rng.choice(['w1', 'w2'])
        sched = ['c'] * a1 + ['w1'] * b1 + ['c'] * a2 + [w] * b2
        yield {'k': 'M', 'freq': freq, 'daemon': daemon, 'calls': calls, 'sched': sched}


B_SEQS = [['exit'], ['restart'], ['stop', 'exit'], ['stop', 'start', 'exit'], ['graceful', 'restart'],
          ['stop'], ['stop', 'start'], [], ['stop', 'restart'], ['graceful', 'stop', 'start', 'exit']]


def gen_B_systematic(calls, points_m, points_x, foreign=''):
    for a in points_m:
        for b in points_x:
            case = {'k': 'B', 'calls': calls, 'sched': ['m'] * a + ['x'] * b + ['m'] * 7}
            if foreign:
                case['foreign'] = foreign
            yield case


T_SCRIPTS = [['ar', 'ar'], ['ar'], ['aar', 'ar'], ['ara', 'ar'], ['ar', 'ar', 'ar'], ['arar', 'a'],
             ['ar', 'ar', 'a', 'ar'], ['a', 'a', 'r'], ['ra', 'ar']]


def gen_T_systematic(scripts, nstops, pts, quick=True):
    n = len(scripts)
    for a in pts:
        for b in ((0, 1, 2, 3, 4, 6) if quick else range(0, 9)):
            for c in ((0, 1, 2, 3) if quick else range(0, 7)):
                sched = []
                for k in range(n):
                    sched += ['t%d' % (k + 1)] * a
                sched += ['s'] * b + ['t1'] * c + ['s'] * 3 + ['t%d' % n] * 2
                yield {'k': 'T', 'nstops': nstops, 'scripts': scripts, 'sched': sched}


def rand_sched(rng, names, length):
    out, cur = [], rng.choice(names)
    for _ in range(length):
        if rng.random() > 0.65:
            cur = rng.choice(names)
        out.append(cur)
    return out


def gen_random(ctx, kind, n):
    rng = ctx.rng
    out = []
    for _ in range(n):
        if kind == 'M':
            calls = rng.choice(M_SEQS) if rng.random() < 0.6 else \
                [rng.choice(['start', 'stop', 'graceful']) for _ in range(rng.randint(1, 4))]
            pre = rand_sched(rng, ['c', 'c', 'w1', 'w1', 'w2'], rng.randint(5, 70))
            case = {'k': 'M', 'freq': 0 if rng.random() < 0.08 else 1, 'daemon': 0 if rng.random() < 0.3 else 1,
                    'calls': calls, 'sched': pre}
            if rng.random() < 0.15:
                case['ar'] = 1
            elif rng.random() < 0.2:
                case['boom'] = sorted(set(rng.randint(1, 4) for _ in range(rng.randint(1, 2))))
        elif kind == 'B':
            case = {'k': 'B', 'calls': rng.choice(B_SEQS),
                    'sched': rand_sched(rng, ['m', 'x'], rng.randint(3, 40))}
            if rng.random() < 0.3:
                case['foreign'] = ''.join(rng.choice('nd') for _ in range(rng.randint(1, 3)))
                names = ['m', 'm', 'x', 'x'] + ['f%d' % (i + 1) for i in range(len(case['foreign']))]
                case['sched'] = rand_sched(rng, names, rng.randint(3, 50))
        else:
            nthreads = rng.randint(2, 4)
            scripts = [rng.choice(['ar', 'ar', 'a', 'aar', 'ara', 'arar', 'r']) for _ in range(nthreads)]
            if modes()['T'] == 'asIs':
                while sum(x.count('a') for x in scripts) > 5:
                    scripts.pop()
            names = ['s', 's'] + ['t%d' % (k + 1) for k in range(len(scripts))]
            case = {'k': 'T', 'nstops': rng.choice([0, 1, 1, 1, 2]), 'scripts': scripts,
                    'sched': rand_sched(rng, names, rng.randint(4, 60))}
            if rng.random() < 0.35 and case['nstops']:
                case['bus'] = [rng.choice(['stop', 'graceful', 'exit']) for _ in range(case['nstops'])]
                if 'exit' in case['bus'][:-1]:
                    case['bus'] = ['stop'] * case['nstops']
        out.append(case)
    return out


def gen_opcode(ctx, n):
    """bytecode-granular schedules (oracle only): random bursts, much longer than the access-granular ones"""
    out = []
    for kind in ('M', 'B', 'T'):
        for case in gen_random(ctx, kind, n):
            case = dict(case, op=1)
            case.pop('ar', None)
            names = sorted(set(case['sched'])) or ['c']
            case['sched'] = rand_sched(ctx.rng, names + names[:1], ctx.rng.randint(20, 900))
            out.append(case)
    return out


def witness_cases():
    """Model-derived schedules: the Lean witnesses of the *_asIs_false theorems and neighbours (the
    controller finishes start();stop() before the worker's first instruction, ...)."""
    cs = []
    for calls, pre in ((['start', 'stop'], 15), (['start', 'stop', 'start'], 15), (['start', 'graceful'], 22),
                       (MAIN_SEQ, 15)):
        for daemon in (1, 0):
            for d in (-1, 0, 1, 2):
                cs.append({'k': 'M', 'freq': 1, 'daemon': daemon, 'calls': calls,
                           'sched': ['c'] * (pre + d) + ['w1'] * 2})
    cs.append({'k': 'T', 'nstops': 1, 'scripts': ['ar', 'ar'],
               'sched': ['t1'] * 5 + ['t2'] * 5 + ['s'] * 2 + ['t1'] * 4})
    cs.append({'k': 'T', 'nstops': 1, 'scripts': ['ar', 'a'],
               'sched': ['t1'] * 5 + ['s'] * 1 + ['t2'] * 5})
    return cs


def corpus_cases():
    d = os.path.join(common.CORPUS, PROPERTY)
    out = []
    if os.path.isdir(d):
        for f in sorted(os.listdir(d)):
            if f.endswith('.json'):
                out.append(json.load(open(os.path.join(d, f))))
    return out


def all_cases(ctx):
    quick = ctx.quick()
    cases = []
    for e in ctx.known:
        if e.get('witness'):
            cases.append(e['witness'])
    cases += corpus_cases()
    cases += witness_cases()
    # M: the controller's calls issued at every point of the worker's life (incl. before its first
    # instruction) and the worker let loose at every access of the controller
    pa = range(0, 30) if quick else range(0, 34)
    pb = (0, 1, 2, 3, 4, 5, 6, 7, 9) if quick else range(0, 12)
    cases += list(gen_M_systematic(MAIN_SEQ, 1, 1, pa, pb))
    cases += list(gen_M_systematic(MAIN_SEQ, 1, 0, pa, (0, 1, 2, 5) if quick else pb))
    for calls in M_SEQS:
        if calls != MAIN_SEQ:
            cases += list(gen_M_systematic(calls, 1, 1, range(0, 22, 2 if quick else 1), (0, 2, 5)))
    cases += list(gen_M_systematic(['start', 'stop'], 0, 1, (0, 3), (0,)))
    for daemon in (1, 0):
        cases += list(gen_M_systematic(MAIN_SEQ, 1, daemon, range(0, 34, 2 if quick else 1), (0, 2, 5), ar=1))
    # a callback that raises (run() logs and re-raises: the worker dies with `running` and Monitor.thread set)
    for calls in (MAIN_SEQ, ['start', 'start'], ['start', 'graceful'], ['start', 'stop', 'start'],
                  ['start', 'graceful', 'graceful'], ['start', 'graceful', 'stop']):
        for boom in ([1], [2], [1, 2]):
            cases += list(gen_M_systematic(calls, 1, 1 if boom != [2] else 0, range(6, 26, 3 if quick else 1),
                                           (4, 5, 9) if quick else range(0, 12), boom=boom))
    # the frequency re-configured at run time while a worker exists (oracle only: the model's frequency is fixed)
    for calls in M_FREQ_SEQS:
        for daemon in (1, 0):
            cases += list(gen_M_systematic(calls, 1, daemon, range(0, 30, 3 if quick else 1), (0, 2, 5)))
    cases += list(gen_M_systematic(['f1', 'start', 'f0', 'stop'], 0, 1, range(0, 30, 3 if quick else 1), (0, 5)))
    # a SECOND controller thread whose stop()/graceful() overlaps the calls of the first (outside the quantifier:
    # compared with the two-controller model, Lean witnesses C20_overlapping_stop_* replayed)
    for calls, calls2 in ((['start', 'graceful', 'start'], ['stop']), (['start', 'graceful'], ['stop']),
                          (['start', 'stop', 'start'], ['stop']), (['start', 'graceful'], ['graceful'])):
        for a in range(8, 20, 3 if quick else 1):
            for b in range(0, 9, 2 if quick else 1):
                for a2 in ((4, 9, 30) if quick else (2, 4, 6, 9, 12, 30)):
                    cases.append({'k': 'M', 'freq': 1, 'daemon': 1, 'calls': calls, 'calls2': calls2,
                                  'sched': ['c'] * a + ['k'] * b + ['c'] * a2 + ['k'] * 9 + ['c'] * 12 + ['w2'] * 9})
    # the real Autoreloader with a watched file that changes ('u'): the worker restarts the bus itself
    for calls in (['start'], ['graceful'], ['start', 'graceful']):
        for b in range(0, 14, 2 if quick else 1):
            for d in (4, 5, 9):
                cases.append({'k': 'M', 'freq': 1, 'daemon': 1, 'calls': calls, 'ar': 2,
                              'sched': ['c'] * 26 + ['w1'] * b + ['w2'] * b + ['u'] + ['w1'] * d + ['w2'] * d})
    # small scope, systematic: the controller pre-empted between any two of its shared-state accesses inside
    # start()/graceful()/stop(), the OLD and the NEW worker given turns there (enough for two invocations),
    # optionally a second pre-emption a few accesses later
    for calls in (['start', 'graceful'], ['start', 'stop', 'start'], ['start', 'graceful', 'graceful']):
        for a in range(6, 26 if quick else 34):
            for b1, b2 in ((9, 0), (5, 5), (0, 5), (9, 5)):
                first = ['c'] * a + ['w1'] * b1 + ['w2'] * b2
                cases.append({'k': 'M', 'freq': 1, 'daemon': 1, 'calls': calls, 'sched': first})
                for a2 in ((1, 3) if quick else (1, 2, 3, 5)):
                    cases.append({'k': 'M', 'freq': 1, 'daemon': 1, 'calls': calls,
                                  'sched': first + ['c'] * a2 + ['w1'] * 9 + ['w2'] * 5})
    for calls in (MAIN_SEQ, ['start', 'graceful', 'stop'], ['start', 'stop', 'start']):
        cases += list(gen_M_two(calls, 1, ctx.rng.choice([0, 1]), ctx.rng, 40 if quick else 1500))
    # B
    for calls in B_SEQS:
        cases += list(gen_B_systematic(calls, (0, 1, 2, 3, 4) if quick else range(0, 8),
                                       range(0, 22, 2 if quick else 1)))
    # B with foreign threads of the embedding application (n = non-daemon, d = daemon) that finish at some point
    # of the schedule (or never): which of them block() joins, and that it returns / re-execs only afterwards
    for calls, foreign in ((['exit'], 'n'), (['restart'], 'nd'), (['restart'], 'dn'), (['stop', 'exit'], 'nn'),
                           (['exit'], 'd'), (['restart'], 'ndn')):
        for pre in ([], ['f1'], ['f2']):
            for mid in ([], ['f1'], ['f1', 'f2', 'f3'], ['f2', 'f1']):
                for a in ((0, 3) if quick else range(0, 5)):
                    for b in ((4, 8, 12) if quick else range(0, 14, 2)):
                        for late in ((4, 7, 12) if quick else range(2, 14, 2)):
                            cases.append({'k': 'B', 'calls': calls, 'foreign': foreign,
                                          'sched': pre + ['m'] * a + ['x'] * b + ['m'] * late + mid + ['m'] * 8})
    # Ctrl-C / SystemExit inside the polling loop of wait() (oracle only)
    for calls in ([], ['stop'], ['stop', 'start'], ['graceful']):
        for intr in ('k1', 'k2', 's1', 's3'):
            for b in (0, 2, 5, 9):
                cases.append({'k': 'B', 'calls': calls, 'intr': intr, 'sched': ['m'] * 2 + ['x'] * b + ['m'] * 12})
    # T inside the real bus life-cycle: bus.stop()/graceful()/exit() publish 'stop' to an early listener, the
    # thread manager's sweep, a late listener; acquisitions and releases land in every state (STARTED, STOPPING
    # before / during / after the sweep, STOPPED)
    for scripts, calls in ((['ar', 'ar'], ['stop']), (['a', 'ar'], ['stop']), (['ar', 'ar'], ['graceful']),
                           (['ar', 'ar'], ['exit']), (['ar', 'ar', 'ar'], ['stop']), (['a', 'ar'], ['stop', 'stop']),
                           (['ar', 'ara'], ['graceful', 'stop'])):
        last = 't%d' % len(scripts)
        for a in (0, 5):
            for b in range(0, 13 if quick else 16):
                for c in ((0, 4, 7) if quick else range(0, 9)):
                    for d in ((0, 2) if quick else (0, 1, 2, 3, 5)):
                        cases.append({'k': 'T', 'nstops': len(calls), 'bus': calls, 'scripts': scripts,
                                      'sched': ['t1'] * a + ['s'] * b + [last] * c + ['s'] * d + [last] * 8})
    # T
    for scripts in T_SCRIPTS:
        if modes()['T'] == 'asIs' and sum(s.count('a') for s in scripts) > 5:
            continue
        for nstops in (1, 2) if not quick else (1,):
            cases += list(gen_T_systematic(scripts, nstops, (0, 2, 3, 4, 5) if quick else range(0, 9), quick))
        cases.append({'k': 'T', 'nstops': 0, 'scripts': scripts, 'sched': []})
    return cases


def run(ctx):
    ctx.extra['protocol_detected'] = dict(modes())
    ctx.note('live tree implements: BackgroundTask %(M)s, ThreadManager.stop %(T)s' % modes())
    check_cases(ctx, all_cases(ctx))
    n = ctx.budget(400, 5000)
    for kind in ('M', 'B', 'T'):
        check_cases(ctx, gen_random(ctx, kind, n))
    ops = gen_opcode(ctx, ctx.budget(50, 1200))
    check_cases(ctx, ops)
    ctx.extra['bytecode_granular_oracle_only_cases'] = len(ops)
    if not ctx.quick():
        check_cases(ctx, list(thorough_two_preemptions(ctx)))
    missing = sorted(coverage_all_lines() - COVERED)
    ctx.extra['anchored_lines_not_executed'] = ['%s+%d' % x for x in missing]
    ctx.extra['anchored_lines_total'] = len(coverage_all_lines())


def thorough_two_preemptions(ctx):
    """all schedules of controller x first worker with <= 2 pre-emptions over the statement's sequence"""
    for a1 in range(0, 30):
        for b1 in range(0, 8):
            for a2 in range(1, 22, 2):
                for b2 in (1, 3, 5):
                    yield {'k': 'M', 'freq': 1, 'daemon': 1, 'calls': MAIN_SEQ,
                           'sched': ['c'] * a1 + ['w1'] * b1 + ['c'] * a2 + ['w1'] * b2}
    ctx.extra['two_preemption_schedules'] = 30 * 8 * 11 * 3


def search(ctx, around=None):
    for kind in ('M', 'B', 'T'):
        check_cases(ctx, gen_random(ctx, kind, 1500), compare=False)


def replay(ctx, case):
    """Re-run one case on the current tree; print every effective turn (thread, access executed,
    observation when it changed) and the model's verdict on the trace."""
    print('protocol of the live tree:', modes())
    print('case   :', json.dumps(case)[:3000])
    trace, bad, _n, labels = execute(case)
    items = trace.split('|')
    print('impl (one line per effective turn: thread, access executed, observation if changed):')
    print('     init  %s' % items[0][1:])
    for i, ((tid, lab), it) in enumerate(zip(labels, items[1:])):
        if i >= 160:
            print('     ... %d more turns' % (len(labels) - i))
            break
        print('     %3d %-3s %-22s %s' % (i, tid, ' '.join(str(x) for x in (lab or ())), it.split('~', 1)[1] if '~' in it else ''))
    if comparable(case):
        m = ctx.model([model_line(case, trace)])
        if m:
            print('model  :', 'admits this trace' if m[0] == 'ok' else 'does NOT admit this trace: ' + m[0][:600])
    check_cases(ctx, [case])


LEVEL_TEXT = ('proof (partial). Proved in Lean, for EVERY schedule, every controller call sequence and any number of '
              'threads, over interleaving models of the repaired code: at most one armed worker per monitor; once '
              'stop() has returned the cancelled worker invokes the callback at most once more and then never again; '
              'start/graceful leave exactly one armed worker (alive unless its own callback raised) and stop none; '
              'stop() joins a non-daemon worker; schedules include callbacks that raise (run() re-raises, the worker '
              'dies armed: it is inert, start() does not replace it, graceful() does); EXITING is stable; block() '
              'returns within 2*#foreign+14 own steps once the bus is EXITING and the non-daemon foreign threads have '
              'finished, never earlier; it joins exactly the non-daemon threads other than the caller and the main '
              'thread; execv happens iff restart() was called, by the main thread, after those joins; '
              'start_thread/stop_thread obey a conservation law that gives exactly one stop_thread per start_thread at '
              'quiescence and stop() never raises. The pre-fix protocols (worker arms itself; stop() iterates the live '
              'dict) and overlapping controller calls (second controller thread) are proved FALSE by witness '
              'schedules. Tie to the code: real threads are driven at shared-state accesses and primitive calls (no '
              'source lines involved); the Lean driver decides for every recorded trace whether the model admits it '
              '(trace inclusion modulo stuttering, subset construction, proved sound: an admitted trace is a sampling '
              'of a model run and inherits every safety theorem, C20_admitted_*_safe). Partial: the theorems are about '
              'the models; bytecode atomicity, real-time sleeping, Ctrl-C inside wait() and the Autoreloader restarting '
              'the bus from its own callback are outside the models (oracle only). The frequency re-configured at run '
              'time: proved that the model reads it only in start()\'s first test (stop()/cancel()/the worker are the '
              'same functions under any frequency, C20Freq.*); the real threads are driven with f0/f1 pseudo-calls, '
              'oracle only.')
LEVEL_NOTE = ('Trusted: Lean kernel (propext, Classical.choice, Quot.sound only); the hand models CpModel/Monitor.lean, '
              'BlockWait.lean, ThreadMgr.lean as validated on this run by trace inclusion of the real threads\' '
              'observable traces under harness/c20_sched.py; CPython switching threads only between bytecodes with '
              'atomic attribute/dict operations; the instrumented attributes/primitives are the only shared state of '
              'the anchored code; controller calls on one monitor do not overlap (overlap is modelled, its failures '
              'are proved and reproduced, not demanded); bus listeners do not raise.')
