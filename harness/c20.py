"""C20 - background workers obey stop/graceful under every thread interleaving.

Models: lean/CpModel/Monitor.lean (M), BlockWait.lean (B), ThreadMgr.lean (T); theorems:
lean/CpProofs/C20*.lean; driver: lean/Drv/C20.lean.  Real code: REAL threads running the real
`BackgroundTask/Monitor/ThreadManager/Bus` code under the deterministic replay scheduler
`harness/c20_sched.py` (baton passing at `sys.settrace` line events of the anchored functions;
`plugins.time`/`wspbus.time` replaced by a logical clock; `Thread.start/join` instrumented).  A
case is a scenario + a schedule (list of thread ids); after every step the shared state of the real
objects is compared with the Lean model's snapshot, and an oracle written from the property
statement is evaluated on the journal of callback invocations / publications.
"""
import itertools
import json
import os
import threading

from . import common
from . import c20_sched as S

PROPERTY = 'C20'
LEAN_TARGETS = ['CpProofs.C20', 'drv_c20']
DRIVER = 'drv_c20'
THEOREMS = [
    'CpProofs.C20.C20_one_worker',
    'CpProofs.C20.C20_at_most_once_after_stop',
    'CpProofs.C20.C20_graceful_leaves_one',
    'CpProofs.C20.C20_cancelled_worker_terminates',
    'CpProofs.C20.C20_stop_joins_nondaemon',
    'CpProofs.C20.C20_controller_never_crashes',
    'CpProofs.C20.C20_one_worker_partial',
    'CpProofs.C20.C20_at_most_once_after_stop_partial',
    'CpProofs.C20.C20_graceful_leaves_one_partial',
    'CpProofs.C20.C20_at_most_once_after_stop_asIs_false',
    'CpProofs.C20.C20_one_worker_asIs_false',
    'CpProofs.C20.C20_graceful_leaves_one_asIs_false',
    'CpProofs.C20.C20_exiting_stable',
    'CpProofs.C20.C20_block_returns',
    'CpProofs.C20.C20_block_only_after_exiting',
    'CpProofs.C20.C20_execv_iff_restart',
    'CpProofs.C20.C20_thread_notifications',
    'CpProofs.C20.C20_thread_notifications_quiescent',
    'CpProofs.C20.C20_thread_notifications_partial',
    'CpProofs.C20.C20_thread_notifications_asIs_false',
]
LEVEL = 'proof'
TECHNIQUE = ('Lean 4 proof: inductive invariants over the step relation of line-granular interleaving models '
             '(all schedules, all call sequences, any number of threads); models tied to the real threads by '
             'deterministic schedule replay with per-step snapshot comparison')
LEVEL_TEXT = ('proof (partial). Proved in Lean, for EVERY schedule, every controller call sequence and any number of '
              'threads, over line-granular interleaving models of the repaired code: at most one armed worker per '
              'monitor; once stop() has returned the cancelled worker invokes the callback at most once more and then '
              'never again; start/graceful leave exactly one armed live worker and stop none; stop() joins a non-daemon '
              'worker; EXITING is stable, block() returns within 5 own steps of the main thread once the bus is EXITING, '
              'never earlier, and execv happens iff restart() was called; start_thread/stop_thread obey a conservation '
              'law that gives exactly one stop_thread per start_thread at quiescence and stop() never raises. The '
              'pre-fix protocols (worker arms itself; stop() iterates the live dict) are proved FALSE by witness '
              'schedules and true under explicit side conditions. Partial: the theorems are about the models; the real '
              'code is tied to them by replaying generated schedules on real threads (snapshots compared after every '
              'step) - bytecode atomicity, real-time sleeping, join of foreign threads in block(), execv and raising '
              'callbacks are outside the models.')
LEVEL_NOTE = ('Trusted: Lean kernel (propext, Classical.choice, Quot.sound only); the hand models CpModel/Monitor.lean, '
              'BlockWait.lean, ThreadMgr.lean as validated on this run by per-step comparison with real threads under '
              'harness/c20_sched.py; CPython switching threads only between bytecodes with atomic attribute/dict '
              'operations; line granularity = at most one shared access per traced line; controller calls on one '
              'monitor do not overlap; callbacks and listeners do not raise.')
TRUSTED_BASE = [
    'CPython: threads are switched only between bytecodes; attribute load/store and single dict operations '
    '(in, len, d[k]=v, pop, clear, list(d), one next() of an iterator) are atomic',
    'line granularity: every traced line of the anchored functions performs at most one access to the shared '
    'variables of the model, so pre-empting at line boundaries exhibits all interleavings of shared accesses',
    'time.sleep is a logical no-op (real-time behaviour is not modelled); os._exit/execv/atexit are recorded, '
    'not executed',
]
ASSUMPTIONS = [
    'Monitor.start/stop/graceful calls do not overlap each other (any thread may issue them, one at a time); they '
    'interleave freely with every worker',
    'the monitor callback and the bus listeners do not raise',
    'exit()/restart() is the last bus call of the second thread; no third thread changes the bus state',
]
RULE = ('scenario (M: controller call sequence x frequency x daemon; B: second-thread call sequence; T: request '
        'thread scripts x number of stop() calls) x schedule (systematic single/double pre-emption points, '
        'model-derived witness schedules, random); non-trivial = at least two threads took a step; distinct = '
        'distinct (scenario, schedule) line')

PROCS = min(int(os.environ.get('C20_PROCS', '8')), os.cpu_count() or 2)


class _Clock:
    """`plugins.time` / `wspbus.time`: sleeping takes no real time."""

    def __init__(self):
        self.sleeps = 0
        self.dead = False

    def sleep(self, _interval):
        if self.dead:
            raise SystemExit(S.KILL)    # tear-down of bytecode-granular runs (see c20_sched.kill_all)
        self.sleeps += 1

    @staticmethod
    def time():
        return 0.0


class _ProcExit(BaseException):
    pass


class _OsShim:
    def __init__(self, real):
        self._real = real

    def __getattr__(self, name):
        return getattr(self._real, name)

    @staticmethod
    def _exit(code):
        raise _ProcExit(code)


class _FakeAtexit:
    @staticmethod
    def register(*a, **k):
        return None


def _label(rec, crashed=None):
    if rec.done:
        if rec.exc is not None and crashed:
            return crashed(rec.exc)
        return 'done'
    lab = '%s+%d' % rec.at
    if rec.blocked_on is not None:
        lab += '!'
    return lab


def _plugins():
    from cherrypy.process import plugins, wspbus
    return plugins, wspbus


# ----------------------------------------------------------------------------------------------
# M: Monitor / BackgroundTask
# ----------------------------------------------------------------------------------------------
def _bt_codes(plugins):
    BT = plugins.BackgroundTask
    codes = [BT.run.__code__, BT.cancel.__code__]
    if 'start' in BT.__dict__:
        codes.append(BT.__dict__['start'].__code__)
    for k in ('start', 'stop', 'graceful'):
        codes.append(getattr(plugins.Monitor, k).__code__)
    return codes, [BT.run.__code__]


class RunM:
    """One M scenario on the real code."""

    def __init__(self, case):
        self.case = case
        plugins, wspbus = _plugins()
        self.plugins = plugins
        self.saved_time = plugins.time
        plugins.time = _Clock()
        self.bus = wspbus.Bus()
        self.clock = 0
        self.journal = []          # (time, worker tid)
        self.rets = []             # (call index, call, begin time, return time)
        self.wstart = {}           # worker tid -> time it was started
        if case.get('ar'):
            # the Autoreloader, as far as it is a Monitor: it watches no file (match nothing), its
            # own run() is called behind the journalling probe
            self.mon = plugins.Autoreloader(self.bus, frequency=(1 if case['freq'] else 0), match='^$')
            poll = self.mon.callback
            self.mon.callback = lambda: (self._cb(), poll())
        else:
            self.mon = plugins.Monitor(self.bus, self._cb, frequency=(1 if case['freq'] else 0), name='m')
        codes, entry = _bt_codes(plugins)
        if case.get('ar'):
            codes.append(plugins.Autoreloader.start.__code__)
        self.s = S.Sched(codes, entry, opcodes=bool(case.get('op')))
        if not case['daemon']:
            self.s.before_start = lambda thr: setattr(thr, 'daemon', False)
        self.s.on_worker = lambda rec, thr: self.wstart.__setitem__(rec.tid, self.clock)
        self.s.install()
        self.s.spawn('c', self._ctl)
        self.s.step('c')           # to its first traced line (or to the end when there are no calls)

    def _cb(self):
        if self.plugins.time.dead:
            raise SystemExit(S.KILL)
        me = self.s._me()
        self.journal.append((self.clock, me.tid if me else '?'))

    def _ctl(self):
        for k, call in enumerate(self.case['calls']):
            begin = self.clock
            getattr(self.mon, call)()
            self.rets.append((k, call, begin, self.clock))

    def close(self):
        try:
            self.plugins.time.dead = True
            self.s.kill_all()
        finally:
            self.s.uninstall()
            self.plugins.time = self.saved_time

    def snapshot(self):
        mon = self.mon
        t = 'N' if mon.thread is None else ('1' if mon.thread.running else '0')
        ws = []
        for tid in self.s.order:
            r = self.s.recs[tid]
            if r.kind != 'worker':
                continue
            n = sum(1 for (_, w) in self.journal if w == tid)
            ws.append('%s:%s:%d' % (_label(r), '1' if r.thread.running else '0', n))
        crec = self.s.recs['c']
        return 'C=%s;T=%s;R=%d;W=%s' % (_label(crec, lambda e: 'crashed'), t, len(self.rets),
                                       '/'.join(ws) or '-')

    def step(self, tid):
        if tid not in self.s.recs or tid not in self.s.runnable():
            return False
        self.clock += 1
        self.s.step(tid)
        return True


def oracle_M(case, run):
    """The property statement evaluated on what the real threads did (complete runs only)."""
    bad = []
    crec = run.s.recs['c']
    if crec.exc is not None:
        bad.append(('controller call raised %r' % (crec.exc,), 'M:controller_exception:%s' % type(crec.exc).__name__))
        return bad
    if not crec.done:
        bad.append(('controller call #%d (%s) never returned although every thread was given its turns'
                    % (len(run.rets), case['calls'][len(run.rets)]), 'M:call_never_returns'))
        return bad
    # once stop has returned: at most one more invocation by any worker started before it, then never again
    for (k, call, begin, tret) in run.rets:
        if call not in ('stop', 'graceful'):
            continue
        for w, t0 in run.wstart.items():
            if t0 >= begin:
                continue
            n = sum(1 for (t, who) in run.journal if who == w and t > tret)
            if n > 1:
                bad.append(('worker %s invoked the callback %d times after %s() #%d had returned'
                            % (w, n, call, k), 'M:callbacks_after_stop'))
    # at most one worker per monitor is active; graceful/start leave exactly one, stop leaves none
    tdone = run.rets[-1][3] if run.rets else 0
    active = sorted(w for w in run.wstart
                    if sum(1 for (t, who) in run.journal if who == w and t > tdone) >= 2)
    last = run.rets[-1][1] if run.rets else None
    want = 1 if (last in ('start', 'graceful') and case['freq']) else 0
    if len(active) > 1:
        bad.append(('%d workers keep invoking the callback after the last call (%s) returned: %s'
                    % (len(active), last, active), 'M:two_active_workers'))
    elif len(active) != want:
        bad.append(('%d active worker(s) after the last call (%s) returned, expected %d'
                    % (len(active), last, want), 'M:wrong_worker_count_after_%s' % last))
    # a stopped non-daemon worker has been joined: it is dead when stop() returns
    return bad


def tail_M(nworkers=4):
    # up to 4 calls, each of which may have to wait (join) for a non-daemon worker to run off
    t = []
    for _ in range(5):
        t += ['c'] * 34
        for w in range(1, nworkers + 1):
            t += ['w%d' % w] * 16
    return t


# ----------------------------------------------------------------------------------------------
# B: Bus.block / wait
# ----------------------------------------------------------------------------------------------
class RunB:
    def __init__(self, case):
        self.case = case
        plugins, wspbus = _plugins()
        self.wspbus = wspbus
        self.saved = (wspbus.time, wspbus.os, wspbus.atexit)
        wspbus.time = _Clock()
        wspbus.os = _OsShim(os)
        wspbus.atexit = _FakeAtexit
        self.bus = wspbus.Bus()
        self.names = {id(getattr(wspbus.states, n)): n for n in
                      ('STOPPED', 'STARTING', 'STARTED', 'STOPPING', 'EXITING')}
        self.pubs = 0
        self.execv_done = False
        self.clock = 0
        self.t_exiting = None      # time the bus first was EXITING
        self.t_left_wait = None
        self.state_when_left = None
        self.m_steps_after_exiting = 0
        self.bus.subscribe('main', self._main)
        self.bus._do_execv = self._execv
        self.bus.start()
        B = wspbus.Bus
        codes = [getattr(B, n).__code__ for n in ('wait', 'block', 'exit', 'restart', 'stop', 'start', 'graceful')]
        self.s = S.Sched(codes, [], opcodes=bool(case.get('op')))
        self.s.install()
        self.s.spawn('m', self.bus.block)
        self.s.spawn('x', self._x)
        self.s.step('m')
        self.s.step('x')
        self.block_line0 = None

    def _main(self):
        self.pubs += 1

    def _execv(self):
        me = self.s._me()
        self.execv_done = (me.tid if me else '?')

    def _x(self):
        for call in self.case['calls']:
            getattr(self.bus, call)()

    def close(self):
        try:
            self.wspbus.time.dead = True
            self.s.kill_all()
        finally:
            self.s.uninstall()
            self.wspbus.time, self.wspbus.os, self.wspbus.atexit = self.saved

    def state(self):
        return self.names.get(id(self.bus.state), repr(self.bus.state))

    def _mlabel(self):
        r = self.s.recs['m']
        if r.done:
            return 'done'
        if r.at[0] == 'Bus.block' and r.at[1] > 11:
            return 'tail'
        return _label(r)

    def snapshot(self):
        x = self.s.recs['x']
        xl = _label(x, lambda e: 'osexit' if isinstance(e, _ProcExit) else 'crashed')
        return 'm=%s;x=%s;S=%s;X=%s;P=%d;D=%s' % (self._mlabel(), xl, self.state(),
                                                  '1' if self.bus.execv else '0', self.pubs,
                                                  '1' if self.execv_done else '0')

    def step(self, tid):
        if tid not in self.s.recs or tid not in self.s.runnable():
            return False
        self.clock += 1
        if tid == 'm':
            if self.t_exiting is not None:
                self.m_steps_after_exiting += 1
            if self._mlabel() == 'tail':
                n = 0
                while not self.s.recs['m'].done:      # the tail of block() is one model step
                    self.s.step('m')
                    n += 1
                    if n > 2000:
                        raise common.HarnessError('block() tail does not terminate')
            else:
                self.s.step('m')
                if self._mlabel() in ('tail', 'done') and self.t_left_wait is None:
                    self.t_left_wait = self.clock
                    self.state_when_left = self.state()
        else:
            self.s.step(tid)
            if self.t_exiting is None and self.state() == 'EXITING':
                self.t_exiting = self.clock
        return True


def oracle_B(case, run):
    bad = []
    m, x = run.s.recs['m'], run.s.recs['x']
    for r, who in ((m, 'block()'), (x, 'second thread')):
        if r.exc is not None:
            bad.append(('%s raised %r' % (who, r.exc), 'B:exception:%s' % type(r.exc).__name__))
    if bad:
        return bad
    if run.t_left_wait is not None and run.state_when_left != 'EXITING':
        bad.append(('block() left its wait loop in state %s (EXITING %s)'
                    % (run.state_when_left, 'never reached' if run.t_exiting is None else 'reached'),
                    'B:block_returns_without_EXITING'))
    if run.t_exiting is not None and not m.done and run.m_steps_after_exiting >= (400 if case.get('op') else 8):
        bad.append(('the bus is EXITING and the main thread took %d more steps, but block() has not returned'
                    % run.m_steps_after_exiting, 'B:block_does_not_return'))
    if m.done:
        want = 'restart' in case['calls']
        if bool(run.execv_done) != want:
            bad.append(('block() returned; execv performed=%s, restart requested=%s' % (run.execv_done, want),
                        'B:execv_mismatch'))
        elif want and run.execv_done != 'm':
            bad.append(('execv performed by thread %s, not by the main thread' % run.execv_done,
                        'B:execv_wrong_thread'))
    return bad


def tail_B():
    return ['x'] * 45 + ['m'] * 14


# ----------------------------------------------------------------------------------------------
# T: ThreadManager
# ----------------------------------------------------------------------------------------------
class RunT:
    def __init__(self, case):
        self.case = case
        plugins, wspbus = _plugins()
        self.bus = wspbus.Bus()
        self.tm = plugins.ThreadManager(self.bus)
        self.journal = []          # ('+'|'-', index, publisher tid)
        self.bus.subscribe('start_thread', lambda i: self._pub('+', i))
        self.bus.subscribe('stop_thread', lambda i: self._pub('-', i))
        TM = plugins.ThreadManager
        codes = [getattr(TM, n).__code__ for n in ('acquire_thread', 'release_thread', 'stop')]
        self.s = S.Sched(codes, [], opcodes=bool(case.get('op')))
        self.s.install()
        self.ident = {}
        self.n = len(case['scripts'])
        for k, ops in enumerate(case['scripts']):
            self.s.spawn('t%d' % (k + 1), self._req(k, ops))
        self.s.spawn('s', self._stopper)
        for k in range(self.n):
            self.s.step('t%d' % (k + 1))
        self.s.step('s')

    def _pub(self, kind, i):
        me = self.s._me()
        self.journal.append((kind, i, me.tid if me else '?'))

    def _req(self, k, ops):
        def body():
            self.ident[threading.get_ident()] = 't%d' % (k + 1)
            for op in ops:
                if op == 'a':
                    self.tm.acquire_thread()
                else:
                    self.tm.release_thread()
        return body

    def _stopper(self):
        for _ in range(self.case['nstops']):
            self.tm.stop()

    def close(self):
        try:
            self.s.kill_all()
        finally:
            self.s.uninstall()

    def snapshot(self):
        def crashed(e):
            return 'rterr' if isinstance(e, RuntimeError) else 'crashed'
        rs = [_label(self.s.recs['t%d' % (k + 1)], crashed) for k in range(self.n)]
        # threads register their ident when they first run; idents of threads that have not run yet
        # cannot be in the dict
        d = ['%s:%s' % (self.ident.get(k, '?'), v) for k, v in list(self.tm.threads.items())]
        return 's=%s;r=%s;D=%s;J=%d' % (_label(self.s.recs['s'], crashed), ','.join(rs) or '-',
                                        ','.join(d) or '-', len(self.journal))

    def final(self):
        return ','.join('%s%s@%s' % e for e in self.journal) or '-'

    def step(self, tid):
        if tid not in self.s.recs or tid not in self.s.runnable():
            return False
        self.s.step(tid)
        return True


def oracle_T(case, run):
    bad = []
    for tid, r in run.s.recs.items():
        if r.exc is not None:
            bad.append(('%s raised %s: %s' % ('ThreadManager.stop()' if tid == 's' else 'request thread ' + tid,
                                              type(r.exc).__name__, r.exc),
                        'T:exception:%s:%s' % ('stop' if tid == 's' else 'request', type(r.exc).__name__)))
    if not all(r.done for r in run.s.recs.values()):
        return bad + [('a ThreadManager call did not finish', 'T:call_never_returns')]
    # exactly once per serving thread: every start_thread(i) is matched by exactly one stop_thread(i),
    # except for the registrations still held at the end
    idx = {}
    for kind, i, _who in run.journal:
        idx.setdefault(i, [0, 0])[0 if kind == '+' else 1] += 1
    held = {}
    for v in run.tm.threads.values():
        held[v] = held.get(v, 0) + 1
    for i in sorted(set(idx) | set(held), key=repr):
        st, sp = idx.get(i, [0, 0])
        if st != sp + held.get(i, 0):
            bad.append(('index %s: start_thread published %d time(s), stop_thread %d time(s), %d registration(s) '
                        'left' % (i, st, sp, held.get(i, 0)),
                        'T:stop_thread_twice' if sp + held.get(i, 0) > st else 'T:stop_thread_missing'))
    # each serving thread announces itself (start_thread from its own acquire) at most once per registration
    for k, ops in enumerate(case['scripts']):
        tid = 't%d' % (k + 1)
        mine = sum(1 for kind, _i, who in run.journal if kind == '+' and who == tid)
        if mine > ops.count('a'):
            bad.append(('%s published start_thread %d times with %d acquire calls' % (tid, mine, ops.count('a')),
                        'T:start_thread_twice'))
        if case['nstops'] == 0 and mine != _expected_starts(ops):
            bad.append(('%s published start_thread %d times, expected %d (no concurrent stop)'
                        % (tid, mine, _expected_starts(ops)), 'T:start_thread_count'))
    return bad


def _expected_starts(ops):
    reg, n = False, 0
    for op in ops:
        if op == 'a' and not reg:
            reg, n = True, n + 1
        elif op == 'r':
            reg = False
    return n


def tail_T(n):
    t = []
    for _ in range(2):
        for k in range(n):
            t += ['t%d' % (k + 1)] * 30
        t += ['s'] * 40
    return t


# ----------------------------------------------------------------------------------------------
# common driver of a case
# ----------------------------------------------------------------------------------------------
RUNNERS = {'M': RunM, 'B': RunB, 'T': RunT}
ORACLES = {'M': oracle_M, 'B': oracle_B, 'T': oracle_T}
_modes = {}


def modes():
    """Which protocol does the live tree implement?  Decided by behaviour, not by reading source."""
    if _modes:
        return _modes
    # M: is the task armed when Monitor.start() has returned and the worker has not run yet?
    r = RunM({'k': 'M', 'freq': 1, 'daemon': 1, 'calls': ['start'], 'sched': []})
    try:
        n = 0
        while not r.s.recs['c'].done and n < 60:
            r.step('c')
            n += 1
        _modes['M'] = 'asIs' if (r.mon.thread is not None and not r.mon.thread.running
                                 and 'w1' in r.s.recs) else 'fixed'
    finally:
        r.close()
    # T: is the entry already removed when stop() publishes stop_thread?
    plugins, wspbus = _plugins()
    bus = wspbus.Bus()
    tm = plugins.ThreadManager(bus)
    seen = []
    bus.subscribe('stop_thread', lambda i: seen.append(len(tm.threads)))
    try:
        tm.acquire_thread()
        tm.stop()
    except Exception:           # a broken stop() is the oracle's business, not the detector's
        seen = [0]
    _modes['T'] = 'asIs' if seen == [1] else 'fixed'
    return _modes


def full_sched(case):
    """The case's schedule followed by the completion tail (every thread gets enough turns to finish
    its calls; turns of threads that are not schedulable are no-ops on both sides)."""
    k = case['k']
    tail = tail_M() if k == 'M' else tail_B() if k == 'B' else tail_T(len(case['scripts']))
    if case.get('op'):
        tail = [t for t in tail for _ in range(14)]     # bytecode steps are much finer than lines
    return list(case['sched']) + tail


def model_line(case):
    if case.get('op') or case.get('ar'):
        return 'oracle-only ' + json.dumps(case, sort_keys=True)
    k = case['k']
    sched = ','.join(full_sched(case)) or '-'
    if k == 'M':
        return 'M %s %d %d %s %s' % (modes()['M'], case['freq'], case['daemon'], ','.join(case['calls']) or '-', sched)
    if k == 'B':
        return 'B %s %s' % (','.join(case['calls']) or '-', sched)
    return 'T %s %d %s %s' % (modes()['T'], case['nstops'], '/'.join(case['scripts']) or '-', sched)


def comparable(case):
    if case.get('op') or case.get('ar'):
        return False            # bytecode-granular runs and Autoreloader runs: oracle only
    if case['k'] == 'T':
        if any(not ops for ops in case['scripts']):
            return False
        if modes()['T'] == 'asIs' and sum(ops.count('a') for ops in case['scripts']) > 5:
            return False        # beyond the no-resize bound of the dict model
    return True


def execute(case):
    """Run one case on the real threads.  Returns (snapshots, oracle failures, schedule, #threads that ran)."""
    run = RUNNERS[case['k']](case)
    try:
        if case.get('op'):
            for tid in full_sched(case):
                run.step(tid)
            out = ''
        else:
            snaps = ['+' + run.snapshot()]
            for tid in full_sched(case):
                ok = run.step(tid)
                snaps.append(('+' if ok else '-') + run.snapshot())
            out = '|'.join(snaps)
            if case['k'] == 'T':
                out += '#' + run.final()
        bad = ORACLES[case['k']](case, run)
        return out, bad, full_sched(case), sum(1 for r in run.s.recs.values() if r.steps > 1)
    except S.SchedError as e:
        raise common.HarnessError('scheduler: %s (case %s)' % (e, json.dumps(case)[:400]))
    finally:
        run.close()


def first_diff(a, b):
    xa, xb = a.split('|'), b.split('|')
    for i, (p, q) in enumerate(zip(xa, xb)):
        if p != q:
            return 'step %d: impl %s / model %s' % (i, p, q)
    return 'length %d vs %d' % (len(xa), len(xb))


def _exec_chunk(chunk):
    return [execute(c) for c in chunk]


def _pmap(fn, args):
    """parallel map over forked workers; a worker that dies (interpreter crash) is a harness error,
    never a hang and never a violation"""
    if PROCS <= 1 or len(args) <= 1:
        return [fn(a) for a in args]
    import multiprocessing as mp
    from concurrent.futures import ProcessPoolExecutor
    from concurrent.futures.process import BrokenProcessPool
    try:
        with ProcessPoolExecutor(max_workers=PROCS, mp_context=mp.get_context('fork')) as ex:
            return list(ex.map(fn, args, timeout=3000))
    except BrokenProcessPool as e:
        raise common.HarnessError('a case-execution worker process died: %r' % (e,))


def check_cases(ctx, cases, compare=True):
    done = []
    cases = list(cases)
    modes()
    chunks = [cases[i:i + 25] for i in range(0, len(cases), 25)]
    results = [r for rs in _pmap(_exec_chunk, chunks) for r in rs]
    for case, (out, bad, sched, nthreads) in zip(cases, results):
        key = model_line(case)
        ctx.case(case, nontrivial=nthreads >= 2, key=key)
        ctx.count('scenario:' + case['k'] + ('/bytecode' if case.get('op') else '') + ('/Autoreloader' if case.get('ar') else ''))
        ctx.count('%s:steps<=%d' % (case['k'], 20 * (1 + len(sched) // 20)))
        if case['k'] == 'M':
            ctx.count('M:calls=' + ','.join(case['calls']))
            ctx.count('M:daemon=%d,freq=%d' % (case['daemon'], case['freq']))
        elif case['k'] == 'B':
            ctx.count('B:calls=' + ','.join(case['calls']))
        else:
            ctx.count('T:threads=%d,stops=%d' % (len(case['scripts']), case['nstops']))
        for what, sig in bad:
            ctx.count('oracle:' + sig)
            ctx.oracle_fail(case, what, sig)
        done.append((case, out, bool(bad)))
    if compare:
        comp = [(c, o) for (c, o, _b) in done if comparable(c)]
        lines = ctx.model([model_line(c) for c, _ in comp])
        if lines is not None:
            for (c, o), m in zip(comp, lines):
                ctx.compared()
                if o != m:
                    ctx.disagree(c, o[-600:], m[-600:], 'step snapshots differ (%s)' % first_diff(o, m))


# ----------------------------------------------------------------------------------------------
# generators
# ----------------------------------------------------------------------------------------------
M_SEQS = [['start'], ['start', 'stop'], ['start', 'stop', 'graceful'], ['start', 'stop', 'graceful', 'start'],
          ['start', 'graceful'], ['start', 'graceful', 'stop'], ['graceful'], ['stop'], ['start', 'start', 'stop'],
          ['start', 'stop', 'start'], ['start', 'stop', 'stop', 'start'], ['graceful', 'graceful']]


def gen_M_systematic(calls, freq, daemon, points_a, points_b):
    """controller runs a steps, then the workers get b steps each, then everything completes"""
    for a in points_a:
        for b in points_b:
            sched = ['c'] * a + ['w1'] * b + ['w2'] * b
            yield {'k': 'M', 'freq': freq, 'daemon': daemon, 'calls': calls, 'sched': sched}


def gen_M_two(calls, freq, daemon, rng, n):
    for _ in range(n):
        a1, b1, a2, b2 = rng.randint(0, 30), rng.randint(0, 14), rng.randint(1, 20), rng.randint(0, 14)
        w = rng.choice(['w1', 'w2'])
        sched = ['c'] * a1 + ['w1'] * b1 + ['c'] * a2 + [w] * b2
        yield {'k': 'M', 'freq': freq, 'daemon': daemon, 'calls': calls, 'sched': sched}


B_SEQS = [['exit'], ['restart'], ['stop', 'exit'], ['stop', 'start', 'exit'], ['graceful', 'restart'],
          ['stop'], ['stop', 'start'], [], ['stop', 'restart'], ['graceful', 'stop', 'start', 'exit']]


def gen_B_systematic(calls, points_m, points_x):
    for a in points_m:
        for b in points_x:
            yield {'k': 'B', 'calls': calls, 'sched': ['m'] * a + ['x'] * b + ['m'] * 7}


T_SCRIPTS = [['ar', 'ar'], ['ar'], ['aar', 'ar'], ['ara', 'ar'], ['ar', 'ar', 'ar'], ['arar', 'a'],
             ['ar', 'ar', 'a', 'ar'], ['a', 'a', 'r'], ['ra', 'ar']]


def gen_T_systematic(scripts, nstops, pts, quick=True):
    n = len(scripts)
    for a in pts:
        for b in ((0, 1, 2, 3, 5) if quick else range(0, 9)):
            for c in ((0, 2, 3, 4) if quick else range(0, 7)):
                sched = []
                for k in range(n):
                    sched += ['t%d' % (k + 1)] * a
                sched += ['s'] * b + ['t1'] * c + ['s'] * 3 + ['t%d' % n] * 2
                yield {'k': 'T', 'nstops': nstops, 'scripts': scripts, 'sched': sched}


def rand_sched(rng, names, length):
    out, cur = [], rng.choice(names)
    for _ in range(length):
        if rng.random() > 0.65:
            cur = rng.choice(names)
        out.append(cur)
    return out


def gen_random(ctx, kind, n):
    rng = ctx.rng
    out = []
    for _ in range(n):
        if kind == 'M':
            calls = rng.choice(M_SEQS) if rng.random() < 0.6 else \
                [rng.choice(['start', 'stop', 'graceful']) for _ in range(rng.randint(1, 4))]
            pre = rand_sched(rng, ['c', 'c', 'w1', 'w1', 'w2'], rng.randint(5, 90))
            case = {'k': 'M', 'freq': 0 if rng.random() < 0.08 else 1, 'daemon': 0 if rng.random() < 0.3 else 1,
                    'calls': calls, 'sched': pre}
        elif kind == 'B':
            case = {'k': 'B', 'calls': rng.choice(B_SEQS),
                    'sched': rand_sched(rng, ['m', 'x'], rng.randint(3, 60))}
        else:
            nthreads = rng.randint(2, 4)
            scripts = [rng.choice(['ar', 'ar', 'a', 'aar', 'ara', 'arar', 'r']) for _ in range(nthreads)]
            if modes()['T'] == 'asIs':
                while sum(x.count('a') for x in scripts) > 5:
                    scripts.pop()
            names = ['s', 's'] + ['t%d' % (k + 1) for k in range(len(scripts))]
            case = {'k': 'T', 'nstops': rng.choice([0, 1, 1, 1, 2]), 'scripts': scripts,
                    'sched': rand_sched(rng, names, rng.randint(4, 70))}
        out.append(case)
    return out


def gen_opcode(ctx, n):
    """bytecode-granular schedules (oracle only): random bursts, 10x longer than the line-granular ones"""
    out = []
    for kind in ('M', 'B', 'T'):
        for case in gen_random(ctx, kind, n):
            case = dict(case, op=1)
            names = sorted(set(case['sched'])) or ['c']
            case['sched'] = rand_sched(ctx.rng, names + names[:1], ctx.rng.randint(20, 700))
            out.append(case)
    return out


def witness_cases():
    """Model-derived schedules: the Lean witnesses of the *_asIs_false theorems and neighbours."""
    cs = []
    for calls, pre in ((['start', 'stop'], 17), (['start', 'stop', 'start'], 17), (['start', 'graceful'], 28),
                       (['start', 'stop', 'graceful', 'start'], 17)):
        for daemon in (1, 0):
            cs.append({'k': 'M', 'freq': 1, 'daemon': daemon, 'calls': calls,
                       'sched': ['c'] * pre + ['w1'] * 2})
            cs.append({'k': 'M', 'freq': 1, 'daemon': daemon, 'calls': calls,
                       'sched': ['c'] * (pre + 2)})
    cs.append({'k': 'T', 'nstops': 1, 'scripts': ['ar', 'ar'],
               'sched': ['t1'] * 5 + ['t2'] * 5 + ['s'] * 2 + ['t1'] * 4})
    cs.append({'k': 'T', 'nstops': 1, 'scripts': ['ar', 'a'],
               'sched': ['t1'] * 5 + ['s'] * 1 + ['t2'] * 5})
    return cs


def corpus_cases():
    d = os.path.join(common.CORPUS, PROPERTY)
    out = []
    if os.path.isdir(d):
        for f in sorted(os.listdir(d)):
            if f.endswith('.json'):
                out.append(json.load(open(os.path.join(d, f))))
    return out


def all_cases(ctx):
    quick = ctx.quick()
    cases = []
    for e in ctx.known:
        if e.get('witness'):
            cases.append(e['witness'])
    cases += corpus_cases()
    cases += witness_cases()
    # M: the controller's calls issued at every point of the worker's life (incl. before its first
    # instruction) and the worker let loose at every line of the controller
    pa = range(0, 46) if quick else range(0, 60)
    pb = (0, 1, 2, 3, 4, 5, 6, 7, 8, 13) if quick else range(0, 15)
    main_seq = ['start', 'stop', 'graceful', 'start']
    cases += list(gen_M_systematic(main_seq, 1, 1, pa, pb))
    cases += list(gen_M_systematic(main_seq, 1, 0, pa, (0, 2, 6) if quick else pb))
    for calls in M_SEQS:
        if calls != main_seq:
            cases += list(gen_M_systematic(calls, 1, 1, range(0, 30, 3 if quick else 1), (0, 2, 7)))
    cases += list(gen_M_systematic(['start', 'stop'], 0, 1, (0, 3), (0,)))
    for daemon in (1, 0):
        for c in gen_M_systematic(main_seq, 1, daemon, range(0, 56, 2 if quick else 1), (0, 2, 6)):
            cases.append(dict(c, ar=1))
    for calls in (main_seq, ['start', 'graceful', 'stop'], ['start', 'stop', 'start']):
        cases += list(gen_M_two(calls, 1, ctx.rng.choice([0, 1]), ctx.rng, 40 if quick else 1500))
    # B
    for calls in B_SEQS:
        cases += list(gen_B_systematic(calls, (0, 3, 5, 7) if quick else range(0, 9), range(0, 34, 3 if quick else 1)))
    # T
    for scripts in T_SCRIPTS:
        if modes()['T'] == 'asIs' and sum(s.count('a') for s in scripts) > 5:
            continue
        for nstops in (1, 2) if not quick else (1,):
            cases += list(gen_T_systematic(scripts, nstops, (0, 4, 5, 6) if quick else range(0, 11), quick))
        cases.append({'k': 'T', 'nstops': 0, 'scripts': scripts, 'sched': []})
    return cases


def run(ctx):
    ctx.extra['protocol_detected'] = dict(modes())
    ctx.note('live tree implements: BackgroundTask %(M)s, ThreadManager.stop %(T)s' % modes())
    check_cases(ctx, all_cases(ctx))
    n = ctx.budget(450, 5000)
    for kind in ('M', 'B', 'T'):
        check_cases(ctx, gen_random(ctx, kind, n))
    ops = gen_opcode(ctx, ctx.budget(60, 1500))
    check_cases(ctx, ops)
    ctx.extra['bytecode_granular_oracle_only_cases'] = len(ops)
    if not ctx.quick():
        check_cases(ctx, list(thorough_two_preemptions(ctx)))


def thorough_two_preemptions(ctx):
    """all schedules of controller x first worker with <= 2 pre-emptions over the statement's sequence"""
    calls = ['start', 'stop', 'graceful', 'start']
    for a1 in range(0, 46):
        for b1 in range(0, 9):
            for a2 in range(1, 30, 2):
                for b2 in (1, 3, 6):
                    yield {'k': 'M', 'freq': 1, 'daemon': 1, 'calls': calls,
                           'sched': ['c'] * a1 + ['w1'] * b1 + ['c'] * a2 + ['w1'] * b2}
    ctx.extra['two_preemption_schedules'] = 46 * 9 * 15 * 3


def search(ctx, around=None):
    for kind in ('M', 'B', 'T'):
        check_cases(ctx, gen_random(ctx, kind, 1500), compare=False)


def _show(stream, limit=90):
    body = stream.split('#')[0]
    steps = [x for x in body.split('|') if x.startswith('+')]
    for x in steps[:limit]:
        print('     ' + x)
    if len(steps) > limit:
        print('     ... %d more effective steps' % (len(steps) - limit))
    if '#' in stream:
        print('     journal: ' + stream.split('#', 1)[1])


def replay(ctx, case):
    """Re-run one case on the current tree; print the effective steps of both sides."""
    print('protocol of the live tree:', modes())
    print('case   :', json.dumps(case)[:3000])
    out, bad, sched, _n = execute(case)
    if out:
        print('impl (snapshot after every effective step):')
        _show(out)
    if comparable(case):
        m = ctx.model([model_line(case)])
        if m:
            if m[0] != out:
                print('model differs; first difference:', first_diff(out, m[0]))
                print('model:')
                _show(m[0])
            else:
                print('model  : identical snapshot stream (%d steps)' % len(out.split('|')))
    check_cases(ctx, [case])
