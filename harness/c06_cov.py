"""C06 - which lines of the anchored functions the differential run executes.

`sys.monitoring` LINE events restricted to the code objects of the functions the property is anchored in;
every location reports once and is then disabled (negligible cost).  Forked workers install their own monitor
and send their hits back with their results.  The lines that never ran end up in
ctx.extra['anchored_lines_not_executed'] (file:line function: source text).
"""
import importlib
import linecache
import os
import sys
import types

# (module, [qualified names]); a class name stands for all its functions
ANCHORED = [
    ('cherrypy._cprequest', ['Response.finalize', 'Response.collapse_body', 'Response._flush_body',
                             'ResponseBody.__set__', 'Request.handle_error']),
    ('cherrypy.lib.encoding', ['ResponseEncoder', 'UTF8StreamEncoder', 'prepare_iter', 'compress', 'decompress',
                               'gzip']),
    ('cherrypy.lib.caching', ['tee_output', 'expires']),
    ('cherrypy._cperror', ['_be_ie_unfriendly', 'clean_headers', 'HTTPError.set_response',
                           'HTTPRedirect.set_response', 'get_error_page', 'bare_error']),
    ('cherrypy.lib.static', ['_serve_fileobj', 'serve_fileobj']),
    ('cherrypy.lib.cptools', ['flatten', 'validate_etags', 'response_headers', 'trailing_slash']),
    ('cherrypy.lib.jsontools', ['json_out', 'json_handler']),
    ('cherrypy.lib.xmlrpcutil', ['_set_response', 'respond', 'on_error']),
]

# whole functions that cannot matter for framing: qualified name -> why
EXCLUDED_FUNCS = {
    'UTF8StreamEncoder.next': 'Python 2 alias',
    'UTF8StreamEncoder.__getattr__': 'attribute proxy',
    'decompress': 'not on the response path (helper for clients / tests)',
}
# why a line that never ran cannot be reached by the lattice (substring of the source line -> reason); reported next
# to the line in ctx.extra['anchored_lines_not_executed']
WHY = [
    ('except ValueError:', 'defensive: HTTPError.__init__ already validated the status'),
    ("raise cherrypy.HTTPError(500, _exc_info()[1].args[0])", 'defensive: HTTPError.__init__ already validated the status'),
    ("kwargs['message'] = message", 'defensive: set_response always passes a message'),
    ("kwargs[k] = ''", 'defensive: every None was replaced just above'),
    ('return False', 'encode_stream is never asked twice for one charset: its first call succeeds'),
    ('yield tail', 'stateful codecs (utf-16/32, utf-8-sig) are outside the modelled charsets (C17)'),
    ('body.append(tail)', 'stateful codecs (utf-16/32, utf-8-sig) are outside the modelled charsets (C17)'),
    ('raise cherrypy.HTTPError(500, self.failmsg %', 'UTF-8 cannot fail on the generated texts (no lone surrogates)'),
    ('self.default_encoding)', 'UTF-8 cannot fail on the generated texts (no lone surrogates)'),
    ("msg = 'Your client did not send an Accept-Charset header.'", 'needs a forced charset that cannot encode the text'),
    ('do_find = True', 'tools.encode.text_only=False is not in the lattice'),
    ('found = True', 'tools.gzip.mime_types keeps its default (no wildcard entries)'),
    ('break', 'tools.gzip.mime_types keeps its default (no wildcard entries)'),
    ("ct_left, ct_right = ct_sub_type.split('+')", 'tools.gzip.mime_types keeps its default (no wildcard entries)'),
    ("left, right = sub_type.split('+')", 'tools.gzip.mime_types keeps its default (no wildcard entries)'),
    ("if left == '*' and ct_right == right:", 'tools.gzip.mime_types keeps its default (no wildcard entries)'),
    ('return', 'tools.json_out runs at priority 30, before any tool that could have produced the body'),
    ('stop = content_length', 'get_ranges already clamps stop to the entity length'),
]


def why(text):
    for sub, reason in WHY:
        if text.strip() == sub or (len(sub) > 12 and sub in text):
            return reason
    return None
_DEBUG_LINES = {}


def _debug_lines(filename):
    """line numbers of `if debug:` / `if self.debug:` statements (test + body) in a source file"""
    if filename in _DEBUG_LINES:
        return _DEBUG_LINES[filename]
    out = set()
    try:
        import ast
        tree = ast.parse(''.join(linecache.getlines(filename)))
        for node in ast.walk(tree):
            if isinstance(node, ast.If) and not node.orelse:
                t = node.test
                if (isinstance(t, ast.Name) and t.id == 'debug') or \
                        (isinstance(t, ast.Attribute) and t.attr == 'debug'):
                    for ln in range(node.lineno, (node.end_lineno or node.lineno) + 1):
                        out.add(ln)
    except Exception:
        pass
    _DEBUG_LINES[filename] = out
    return out


def _excluded(code, line):
    if code.co_qualname in EXCLUDED_FUNCS:
        return EXCLUDED_FUNCS[code.co_qualname]
    if line in _debug_lines(code.co_filename):
        return 'debug logging'
    return None


def _funcs(obj):
    if isinstance(obj, (classmethod, staticmethod)):
        obj = obj.__func__
    if isinstance(obj, property):
        return [f for f in (obj.fget, obj.fset, obj.fdel) if f is not None]
    if isinstance(obj, types.FunctionType):
        return [obj]
    if isinstance(obj, type):
        out = []
        for v in vars(obj).values():
            out += _funcs(v)
        return out
    w = getattr(obj, '__wrapped__', None)
    if isinstance(w, types.FunctionType):
        return [w]
    return []


class Coverage(object):
    def __init__(self):
        self.codes = {}
        self.hit = set()
        self.tid = None
        self.missing_anchors = []
        for modname, names in ANCHORED:
            try:
                mod = importlib.import_module(modname)
            except Exception:
                self.missing_anchors.append(modname)
                continue
            for qn in names:
                obj = mod
                try:
                    for part in qn.split('.'):
                        obj = vars(obj)[part] if isinstance(obj, type) else getattr(obj, part)
                except (AttributeError, KeyError):
                    self.missing_anchors.append('%s.%s' % (modname, qn))
                    continue
                fs = _funcs(obj)
                if not fs:
                    self.missing_anchors.append('%s.%s' % (modname, qn))
                for f in fs:
                    self._code(f.__code__)

    def _code(self, code):
        if code in self.codes:
            return
        self.codes[code] = True
        for c in code.co_consts:
            if isinstance(c, types.CodeType):
                self._code(c)

    def executable(self):
        out = set()
        self.excluded = {}
        for code in self.codes:
            for _, _, line in code.co_lines():
                if line is not None and line != code.co_firstlineno:
                    why = _excluded(code, line)
                    if why:
                        self.excluded.setdefault(why, set()).add((code.co_filename, line))
                        continue
                    out.add((code.co_filename, line, code.co_qualname))
        return out

    def _line(self, code, line):
        self.hit.add((code.co_filename, line))
        return sys.monitoring.DISABLE

    def start(self):
        mon = getattr(sys, 'monitoring', None)
        if mon is None:
            return False
        for tid in (4, 3, 5, 2):
            try:
                mon.use_tool_id(tid, 'c06-cov')
            except ValueError:
                continue
            self.tid = tid
            break
        if self.tid is None:
            return False
        mon.register_callback(self.tid, mon.events.LINE, self._line)
        for code in self.codes:
            mon.set_local_events(self.tid, code, mon.events.LINE)
        return True

    def stop(self):
        if self.tid is None:
            return
        mon = sys.monitoring
        try:
            for code in self.codes:
                mon.set_local_events(self.tid, code, 0)
            mon.register_callback(self.tid, mon.events.LINE, None)
            mon.free_tool_id(self.tid)
        except ValueError:
            pass
        self.tid = None

    def hits(self):
        return sorted(self.hit)

    def add_hits(self, hits):
        for f, l in hits:
            self.hit.add((f, l))

    def report(self, ctx):
        ex = self.executable()
        missed = sorted((f, l, q) for f, l, q in ex if (f, l) not in self.hit)
        lines = []
        for f, l, q in missed:
            src = linecache.getline(f, l).strip()
            rel = f.split(os.sep + 'cherrypy' + os.sep, 1)[-1]
            w = why(src)
            lines.append('%s:%d %s: %s%s' % (rel, l, q, src[:100], '   [%s]' % w if w else ''))
        ctx.extra['anchored_lines_executable'] = len(ex)
        ctx.extra['anchored_lines_executed'] = len(ex) - len(missed)
        ctx.extra['anchored_lines_not_executed'] = lines
        ctx.extra['anchored_lines_out_of_scope'] = {k: len(v) for k, v in sorted(self.excluded.items())}
        if self.missing_anchors:
            ctx.extra['anchored_functions_not_found'] = self.missing_anchors
        ctx.count('anchored_lines_not_executed', len(lines))
        ctx.count('anchored_lines_executable', len(ex))


_current = {'cov': None, 'pid': None}


def ensure():
    """Start a monitor in this process unless one is running (a forked worker has to install its own: the parent's
    registration is not inherited in a usable state).  Returns the Coverage object or None."""
    if _current['cov'] is not None and _current['pid'] == os.getpid():
        return _current['cov']
    if _current['cov'] is not None:
        # inherited from the parent by fork: the monitoring state belongs to the parent's interpreter state copy;
        # drop it and start afresh
        try:
            _current['cov'].stop()
        except Exception:
            pass
        _current['cov'] = None
    cov = Coverage()
    if cov.start():
        _current['cov'] = cov
        _current['pid'] = os.getpid()
        return cov
    return None


def take_hits():
    """hits collected in this process so far (and forget them: they are sent to the parent)"""
    cov = _current['cov']
    if cov is None or _current['pid'] != os.getpid():
        return []
    h = cov.hits()
    return h


def stop():
    cov = _current['cov']
    if cov is not None and _current['pid'] == os.getpid():
        cov.stop()
    _current['cov'] = None
    return cov
