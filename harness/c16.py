"""C16 - conditional and range requests obey their validators and byte ranges.

Models: lean/CpModel/Ranges.lean, Validators.lean, CondFlow.lean (request flow: response.stream, handler scripts, the tool
as a step), CondElements.lean (HeaderMap.elements in full), HttpDate.lean (HTTPDate); theorems: lean/CpProofs/C16*.lean;
driver: lean/Drv/C16.lean; generated tables: lean/CpModel/Gen/C16Tables.lean.

Streams, each through the real code, an independent oracle and the model:
  R  `httputil.get_ranges(header, length)` called directly                                   (unit level)
  E  `httputil.header_elements('If-Match', value)`: the comma split (`elementsSimple`) and the whole function with
     parameters / unquoting / sorting (`elementsFull`)
  D  `httputil.HTTPDate(t)` for integer timestamps vs `httpDate`
  Q  whole requests through in-process WSGI, evaluated on what the WSGI iterable delivered:
     who serves / validates: serve_file | staticdir (two configurations, index files) | serve_fileobj(file) |
       serve_fileobj(BytesIO / object without fileno) | handler-generated body whose handler runs a script of
       `response.body = entity` / validate_since() / validate_etags(autotags) steps before or after the body exists,
       with or without tools.etags (autotags / handler ETag) at before_finalize
     x response.stream on/off x body shape bytes/list/generator/file object x GET/HEAD/POST/PUT x HTTP/1.0|1.1
     x Range x If-Match / If-None-Match / If-Modified-Since / If-Unmodified-Since / If-Range
     x configuration that must not matter (debug logging, Content-Disposition, pre-set Content-Length, cookies).
     Three systematic tables run in every tier (validator decision table, flow table, extras table) next to the
     generated requests; multipart bodies are also decoded by the Lean reference receiver.

Oracles are written from the property statement (see docs/C16.md for the readings taken):
Python slicing for ranges, a per-header decision table for the validators.
"""
import base64
import email.utils
import hashlib
import io
import json
import os
import re
import shutil
import tempfile
import zlib

from . import common
from . import c16_cov
from .c16_gen import (PYWS, gen_range_header, gen_len, gen_request, gen_elements_value,
                      enum_small_headers, enum_medium_headers, enum_decision_table, enum_flow_table, enum_extras_table,
                      content_bytes, httpdate)

PROPERTY = 'C16'
LEAN_TARGETS = ['CpProofs.C16', 'CpProofs.C16Cond', 'CpProofs.C16Elems', 'CpProofs.C16Multipart', 'CpProofs.C16Flow',
                'CpProofs.C16ElemsFull', 'CpProofs.C16Date', 'CpProofs.C16MultipartScan', 'drv_c16']
DRIVER = 'drv_c16'
THEOREMS = ['CpProofs.C16.' + t for t in (
    # ranges: parsing
    'ranges_in_bounds', 'getRanges_grammar', 'honoured_only_grammar', 'invalid_ignored',
    'invalid_spec_ignored', 'honoured_iff', 'suffix_zero', 'suffix_on_empty', 'empty_entity_unsat',
    # ranges: serving
    'readSlice_eq', 'http10_whole', 'unknown_length_whole', 'serve_ignored', 'serve_unsat', 'serve_single',
    'serve_multi', 'ranges_conform', 'slice_getElem?', 'parseDec_dec', 'multipart_decodes', 'serve_multi_wire',
    # validators
    'validateSince_table', 'validateSince_no_lastmod', 'validateSince_guard', 'validateEtags_table',
    'validateEtags_non2xx', 'absent_headers_pass', 'star_semantics', 'weak_is_not_equal', 'no_etag',
    'respond_file_table', 'respond_gen_table', 'respond_gen_non2xx', 'file_status_table',
    'file_conditional_iff_dictated', 'file_not_dictated_full', 'file_304_getHead', 'file_412_reason',
    'respond_304_no_body', 'respond_unconditional_file', 'head_no_body',
    'file_range_end_to_end', 'file_http10_whole_entity', 'gen_conditional_iff_dictated', 'gen_not_dictated_full',
    # the request flow: response.stream, handlers that validate themselves (scripts), the tool as a step
    'respondX_legacy', 'flow_gen_run', 'runScript_pass_iff', 'flow_gen_iff_dictated', 'flow_gen_not_dictated_full',
    'flow_gen_200_body', 'flow_304_no_body', 'flow_304_no_body_full_holds', 'flow_buffered_304_no_body',
    'unfixed_finalize_304_with_body', 'fixed_finalize_304_no_body',
    'flow_412_no_entity', 'flow_304_getHead', 'flow_non2xx_untouched', 'flow_file_stream', 'respondX_ignores_ifRange',
    'since_on_304', 'since_on_412', 'flow_handler_304_412', 'flow_raise_discards_entity',
    'respondX_conds_perm', 'respondX_from_header_texts', 'respondX_from_plain_texts',
    # HeaderMap.elements in full: parameters, unquoting, stable sort + reversal, str()
    'sortStable_perm', 'elementsFull_perm', 'elementsFull_mem', 'ltText_trans', 'sortStable_sorted',
    'elementsFull_descending', 'validateEtags_perm', 'sorting_irrelevant', 'parseElement_plain', 'parsed_plain',
    'plain_decision', 'render_params_ne_value', 'param_element_never_matches',
    # HTTP dates: the Last-Modified text determines the timestamp; If-(Un)Modified-Since over dates
    'g_mono', 'years_ok', 'doys_ok', 'civilOfDoe_inv', 'civil_injective', 'civil_ranges', 'renderFields_inj',
    'httpDate_injective', 'ims_dates', 'ius_dates',
    # multipart framing round trip with a delimiter-scanning receiver, arbitrary boundary text
    'splitAt1_clean', 'multipart_scan_decodes', 'scan_payload_truthful', 'clean_of_no_cr',
    'scan_confused_by_delimiter_in_payload',
    # list-valued validators
    'elements_tag_list', 'listed_etag_matches', 'space_codes_not_quote',
    # obligations over the regenerated tables
    'space_codes_not_digit_dash_comma_eq', 'lower_table_sources', 'entity_headers_stripped_304',
    'validator_headers_kept_304', 'content_range_kept_only_416', 'not_modified_methods',
)]
LEVEL = 'proof'
TECHNIQUE = ('Lean 4 proof: get_ranges refined to a declarative RFC 7233 byte-range semantics on every '
             'grammar-generated header text (induction over the header structure), bounds invariant for every header '
             'string, slice equalities for _serve_fileobj, validator decision table by case analysis, request flow with '
             'response.stream and self-validating handlers as a step machine (induction over scripts), header-element '
             'parser incl. stable sort (permutation + order invariance of the decision), HTTP-date injectivity (calendar '
             'arithmetic + kernel-checked finite cases), multipart framing inverted by a delimiter-scanning receiver; '
             'models tied to httputil/static/cptools/_cperror/_cprequest by differential runs (direct calls and in-process '
             'WSGI requests over three systematic tables and generated requests)')
LEVEL_TEXT = ('Proved in Lean over the model of the repaired code, without size bounds: for EVERY header text and length '
              'every slice get_ranges returns is non-empty and inside the entity; on every header of the RFC 7233 '
              'byte-range grammar (any digit strings, lists, overlaps, order, beyond-EOF values, Python whitespace '
              'around every token, any case of the unit) get_ranges equals the declarative semantics, and conversely '
              'every text outside that grammar (or with last < first) is ignored; _serve_fileobj answers 416 + '
              '"bytes */len", a single 206 whose body is exactly content[first..last] with the truthful Content-Range '
              'and Content-Length (64 KiB chunked reads modelled), multipart parts equal to the slices, the whole '
              'entity on HTTP/1.0 / unknown length / ignored header; validate_since / validate_etags equal the equality-'
              'comparison decision table, the whole request (handler exceptions, tools.etags, finalize, HEAD) equals a '
              'flat table, 304/412 exactly when a header dictates it, the full or ranged entity otherwise, 304 only for '
              'GET/HEAD. Round 2: the request flow with response.stream and handlers that validate themselves (any '
              'script of body / validate_since / validate_etags(autotags) steps, the tool as one more step, the '
              'run-twice guard): conservative extension of the first model, 304/412 iff a header dictates it to an '
              'executed step, the full entity otherwise, every 304 without body / Content-Range / '
              'Content-Length streamed or buffered, a raise always discards the entity, 412 never carries it; '
              'HeaderMap.elements in full (parameters, unquoting, stable sort, reversal, str): a permutation of the '
              'header-order elements in descending order, the decision independent of the order and equal to the simple '
              'split on parameter-free values, elements with parameters compared with their parameters; HTTPDate is '
              'injective on 1970..9999, so If-(Un)Modified-Since over dates is equality of the instants; If-Range is '
              'ignored; the multipart bytes are inverted by a delimiter-scanning receiver for every boundary text under '
              'the (necessary) hypothesis that the delimiter does not occur early in a piece. "A 304 carries no body" holds '
              'at full strength since the repair of F17d (b33ff58: finalize empties bodiless statuses also when streamed): '
              'every 304, handler-chosen or validator-dictated, streamed or not; the finalize of a tree without the repair '
              'is kept as a definition with its refutation. Partial: md5 and the boundary text are parameters; str.lower() of parameter names is '
              'ASCII-only in the model; fractional mtimes are compared only end to end.')
LEVEL_NOTE = ('Trusted: Lean kernel (axioms propext, Classical.choice, Quot.sound only); the hand models CpModel/Ranges.lean, '
              'Validators.lean, CondFlow.lean, CondElements.lean, HttpDate.lean as validated on every run by the differential '
              'streams (get_ranges, header_elements, HTTPDate directly; whole in-process WSGI requests over seven resource '
              'kinds x stream x handler scripts); CPython semantics of split/strip/lower/int/re.fullmatch/str comparison/'
              'datetime.fromtimestamp (whitespace and lower-case tables regenerated from the interpreter); md5 and the '
              'multipart boundary are parameters; the harness and its oracles.')
TRUSTED_BASE = [
    'md5 (autotags, incl. the md5 of the empty body) and the multipart boundary are inputs of the model, not modelled',
    'CPython str.split/strip/lower/int, re.fullmatch("[0-9]+"), str.__lt__ (code-point order), str.find/count/replace as '
    'transcribed in CpModel/Ranges.lean and CondElements.lean; the whitespace and lower-case tables are regenerated from '
    'the running interpreter on every run',
    'datetime.fromtimestamp(t, utc).timetuple() = proleptic Gregorian calendar as transcribed in CpModel/HttpDate.lean '
    '(compared with HTTPDate on generated integer timestamps every run)',
    'the order in which cherrypy runs handler, before_finalize hooks, HTTPRedirect/HTTPError.set_response and finalize, as '
    'transcribed in CpModel/CondFlow.lean (compared on every request of the Q stream)',
]
ASSUMPTIONS = [
    'byte positions have fewer than 4300 digits (beyond that CPython int() refuses the conversion and the header is ignored)',
    'the file does not change between os.stat and the reads of one request',
    'validators are compared for equality, as the statement says (no date ordering, no weak comparison)',
    'parameter names inside If-Match / If-None-Match elements contain no cased non-ASCII letters (str.lower() is modelled '
    'for ASCII only)',
    'mtimes are integers or carry a fraction that does not round up to the next second at microsecond precision',
]
RULE = ('R: Range header texts from the RFC 7233 byte-range grammar (first-last, first-, -suffix, lists, overlapping, '
        'out-of-order, beyond EOF, optional whitespace, boundary positions around the length) plus character/structure '
        'mutations, against lengths 0..70000 biased to boundaries; E: entity-tag lists with weak tags, quoted commas / '
        'semicolons, parameters (quoted, escaped, repeated names), repeated values; D: integer timestamps 0..9999-12-31 biased '
        'to month / year / leap boundaries; Q: requests = who serves and validates (seven resource kinds, handler scripts '
        'validating before / after the body) x response.stream x body shape x method x protocol x etags tool mode x '
        'validators (matching / non-matching / * / weak / lists / parameters / dates in other formats) x Range x If-Range x '
        'answer-neutral configuration; a case is non-trivial when the header is non-empty (R, E) or at least one of Range / '
        'conditional headers is present (Q); distinct = distinct (header text, length) resp. distinct request tuple')


# ----------------------------------------------------------------------------------------------
# generated Lean tables (from the live interpreter and the live cherrypy modules)
# ----------------------------------------------------------------------------------------------
UNIVERSE_304 = ['Accept-Ranges', 'Allow', 'Cache-Control', 'Content-Encoding', 'Content-Language',
                'Content-Length', 'Content-Location', 'Content-MD5', 'Content-Range', 'Content-Type',
                'Date', 'ETag', 'Expires', 'Last-Modified', 'Vary']


class _Hang(BaseException):
    """raised by the interval timer inside code under test that does not return"""


def _on_alarm(signum, frame):
    _HANGS['fired'] = True
    raise _Hang()


REQUEST_TIMEOUT_S = 15
_HANGS = {'n': 0, 'fired': False}


def guarded(fn, *args, timeout=REQUEST_TIMEOUT_S):
    """Run code under test: whatever it does (raise anything, not return) becomes an observation
    ('EXC', name) instead of a harness error.  A call normally takes milliseconds; after the first call that
    does not return the budget per call shrinks, after the fifth the remaining calls are not made at all (they
    are reported as 'not-run(after hangs)'), so that hanging code under test costs about a minute, not hours."""
    import signal
    import threading
    if _HANGS['n'] >= 5:
        return ('EXC', 'not-run(after hangs)')
    if _HANGS['n']:
        timeout = min(timeout, 3)
    timed = threading.current_thread() is threading.main_thread()
    if timed:
        old = signal.signal(signal.SIGALRM, _on_alarm)
        signal.setitimer(signal.ITIMER_REAL, timeout)
    _HANGS['fired'] = False
    try:
        try:
            r = fn(*args)
        except _Hang:
            r = None
        except Exception as e:
            r = ('EXC', type(e).__name__)
        if _HANGS['fired']:
            # the timer went off (the code under test may have turned the interruption into something else,
            # e.g. a 500 page): the call did not return by itself
            _HANGS['n'] += 1
            _HANGS['fired'] = False
            return ('EXC', 'hang(>%ds)' % timeout)
        return r
    finally:
        if timed:
            signal.setitimer(signal.ITIMER_REAL, 0)
            signal.signal(signal.SIGALRM, old)


def _fresh(method='GET'):
    import cherrypy
    from cherrypy import _cprequest
    from cherrypy.lib import httputil
    req = _cprequest.Request(httputil.Host('127.0.0.1', 80), httputil.Host('127.0.0.1', 1111))
    resp = _cprequest.Response()
    req.method = method
    cherrypy.serving.load(req, resp)
    return req, resp


def tables(ctx):
    import cherrypy
    from cherrypy import _cperror
    from cherrypy.lib import cptools
    sp = [ord(c) for c in PYWS]
    low = [(c, ord(chr(c).lower())) for c in range(0x110000)
           if chr(c).lower() in ('b', 'y', 't', 'e', 's')]
    def probe_304():
        req, resp = _fresh()
        for h in UNIVERSE_304:
            resp.headers[h] = 'x'
        cherrypy.HTTPRedirect([], 304).set_response()
        return (sorted(h for h in UNIVERSE_304 if h not in resp.headers),
                sorted(h for h in UNIVERSE_304 if h in resp.headers))

    def probe_keep(st):
        req, resp = _fresh()
        resp.headers['Content-Range'] = 'bytes */1'
        _cperror.clean_headers(st)
        return 'Content-Range' in resp.headers

    def probe_method(m):
        req, resp = _fresh(m)
        resp.headers['ETag'] = '"x"'
        req.headers['If-None-Match'] = '"x"'
        try:
            cptools.validate_etags()
            return 'pass'
        except cherrypy.HTTPRedirect as e:
            return e.status
        except cherrypy.HTTPError as e:
            return e.status

    # the probes execute code under test while the global Lean lock is held: a change that makes them raise or
    # hang must neither end in a harness error nor keep the lock; it shows up as a table the theorems reject
    try:
        r = guarded(probe_304, timeout=20)
        stripped, kept = ([], []) if isinstance(r, tuple) and r and r[0] == 'EXC' else r
        keeps = []
        for st in (400, 404, 412, 416, 500):
            r = guarded(probe_keep, st, timeout=20)
            keeps.append((st, bool(r) and not isinstance(r, tuple)))
        nm = []
        for m in ['GET', 'HEAD', 'POST', 'PUT', 'DELETE', 'OPTIONS', 'PATCH']:
            if guarded(probe_method, m, timeout=20) == 304:
                nm.append(m)
    finally:
        cherrypy.serving.clear()

    def strs(l):
        return '[' + ', '.join('"%s"' % x for x in l) + ']'
    src = '''/-
  GENERATED by harness/c16.py `tables()` from the live interpreter and the live cherrypy modules.
  Do not edit: the file is rewritten (only when its content changes) on every `./check C16`.
-/
namespace CpModel.Gen.C16

/-- code points `c` with `chr(c).isspace()` (what `str.strip()` removes), by exhaustive execution -/
def pySpace : List Nat := %s

/-- pairs (code point c, code point of chr(c).lower()) for every c whose lower() is one of b,y,t,e,s -/
def lowerToBytes : List (Nat × Nat) := %s

/-- response headers deleted by `HTTPRedirect([], 304).set_response()` out of the probe universe -/
def stripped304 : List String := %s

/-- probe-universe headers that survive a 304 -/
def kept304 : List String := %s

/-- does `clean_headers(status)` (HTTPError.set_response) keep Content-Range?  (status, kept) -/
def errorKeepsContentRange : List (Nat × Bool) := %s

/-- methods for which a matching If-None-Match / If-Modified-Since answers 304 rather than 412
    (probed by running validate_etags on GET, HEAD, POST, PUT, DELETE, OPTIONS, PATCH) -/
def notModifiedMethods : List String := %s

end CpModel.Gen.C16
''' % ('[' + ', '.join(str(c) for c in sp) + ']',
       '[' + ', '.join('(%d, %d)' % p for p in low) + ']',
       strs(stripped), strs(kept),
       '[' + ', '.join('(%d, %s)' % (s, 'true' if k else 'false') for s, k in keeps) + ']',
       strs(nm))
    return {'CpModel/Gen/C16Tables.lean': src}


# ----------------------------------------------------------------------------------------------
# line protocol helpers
# ----------------------------------------------------------------------------------------------
def enc_text(s):
    return '.'.join(str(ord(c)) for c in s) if s else '-'


def enc_opt(s):
    return 'N' if s is None else enc_text(s)


def enc_list(l):
    return '/'.join(enc_text(x) for x in l) if l else '[]'


def dec_text(s):
    return '' if s == '-' else ''.join(chr(int(x)) for x in s.split('.'))


# ----------------------------------------------------------------------------------------------
# stream R: get_ranges directly
# ----------------------------------------------------------------------------------------------
_SPEC = r'(?:[0-9]+-[0-9]*|-[0-9]+)'
_STRICT = re.compile(r'bytes=%s(?:[ \t]*,[ \t]*%s)*' % (_SPEC, _SPEC))
_WSCLASS = '[' + re.escape(PYWS) + ']*'
_TOL_ITEM = re.compile(r'(?:([0-9]+)%s-%s([0-9]*)|-%s([0-9]+))' % (_WSCLASS, _WSCLASS, _WSCLASS))
_UNIT = re.compile(r'bytes', re.I | re.A)


def parse_tolerant(h):
    """The byte-range-set of `h` read with optional whitespace around every token, empty list
    elements dropped and the unit compared ASCII-case-insensitively.  None = syntactically invalid.
    Returns a list of ('r', first, last|None) / ('s', suffix)."""
    if not h or '=' not in h:
        return None
    unit, _, rest = h.partition('=')
    if not _UNIT.fullmatch(unit.strip(PYWS)):
        return None
    specs = []
    for it in rest.split(','):
        t = it.strip(PYWS)
        if not t:
            continue
        m = _TOL_ITEM.fullmatch(t)
        if not m:
            return None
        if m.group(1) is not None:
            first = int(m.group(1))
            last = int(m.group(2)) if m.group(2) else None
            if last is not None and last < first:
                return None
            specs.append(('r', first, last))
        else:
            specs.append(('s', int(m.group(3))))
    return specs or None


def expected_slices(specs, n):
    """Satisfiable specs as Python slices (start, stop), in request order (statement: RFC 7233 2.1)."""
    out = []
    for sp in specs:
        if sp[0] == 'r':
            first, last = sp[1], sp[2]
            if first >= n:
                continue
            last = n - 1 if last is None else min(last, n - 1)
            out.append((first, last + 1))
        else:
            k = sp[1]
            if k == 0 or n == 0:
                continue
            out.append((max(0, n - k), n))
    return out


def allowed_ranges(h, n):
    """What the statement allows get_ranges(h, n) to return: a list of admissible results
    (None = header ignored, [] = unsatisfiable, list of slices)."""
    specs = parse_tolerant(h)
    if specs is None:
        return [None], 'invalid'
    exp = expected_slices(specs, n)
    allowed = [exp]
    cls = 'valid'
    if not _STRICT.fullmatch(h):
        # only valid under the tolerant reading (whitespace inside a spec / around '=', empty
        # list elements, unit in another case): ignoring the header is acceptable as well
        allowed.append(None)
        cls = 'tolerated'
    if n == 0 and any(sp[0] == 's' and sp[1] > 0 for sp in specs):
        # a suffix range on an empty entity: RFC 7233 calls it satisfiable although no 206 can
        # describe it; 416 and 200 are both accepted
        allowed.append(None)
    return allowed, cls


def canon_ranges(r):
    if r is None:
        return 'N'
    if isinstance(r, tuple) and r and r[0] == 'EXC':
        return 'EXC:' + r[1]
    if not r:
        return '[]'
    return ','.join('%d:%d' % (a, b) for a, b in r)


def real_get_ranges(h, n):
    from cherrypy.lib import httputil
    # the statement: an invalid header is ignored, never an exception (nor a hang)
    def call():
        r = httputil.get_ranges(h, n)
        return None if r is None else [(int(a), int(b)) for a, b in r]
    return guarded(call, timeout=20)


def unit_verdict(h, n, got):
    """None when the statement holds for this get_ranges result, else (what, signature)."""
    allowed, cls = allowed_ranges(h, n)
    if isinstance(got, tuple) and got[1].startswith('not-run'):
        return None
    if isinstance(got, tuple):
        return ('get_ranges(%r, %d) raised %s (a Range header is honoured, answered 416 or ignored, never an '
                'exception)' % (h, n, got[1]), 'get_ranges:exception:' + got[1])
    if got in allowed:
        return None
    if got is not None and any(not (0 <= a < b <= n) for a, b in got):
        what, sig = 'a slice outside the entity or empty', 'get_ranges:slice_out_of_bounds'
    elif cls == 'invalid':
        what, sig = 'a syntactically invalid header is honoured', 'get_ranges:invalid_honoured'
    elif got is None:
        what, sig = 'a valid header is ignored', 'get_ranges:valid_ignored'
    else:
        what, sig = 'wrong slices', 'get_ranges:wrong_slices'
    return ('get_ranges(%r, %d) = %s, statement allows %s: %s'
            % (h, n, canon_ranges(got), ' or '.join(canon_ranges(a) for a in allowed), what), sig)


def _may_shrink(ctx):
    n = getattr(ctx, '_c16_shrinks', 0)
    if n >= 6:
        return False
    try:
        ctx._c16_shrinks = n + 1
    except Exception:
        return False
    return True


def shrink_unit(h, n, sig):
    """Smaller (header, length) with the same failure signature."""
    def fails(h2, n2):
        v = unit_verdict(h2, n2, real_get_ranges(h2, n2))
        return v is not None and v[1] == sig
    for n2 in (0, 1, 2, 3, 5, 10, 14, 100):
        if n2 < n and fails(h, n2):
            n = n2
            break
    chars = common.shrink_list(list(h), lambda cs: fails(''.join(cs), n))
    h = ''.join(chars)
    # shorten digit runs
    for _ in range(3):
        m = re.search(r'[0-9]{2,}', h)
        if not m:
            break
        cand = h[:m.start()] + m.group(0)[:-1] + h[m.end():]
        if fails(cand, n):
            h = cand
        else:
            break
    return h, n


def shrink_request(case, sig):
    """Drop headers / simplify the request while the oracle still fails with `sig`."""
    def fails(c):
        try:
            return any(s == sig for _, s in oracle_request(c, run_request(c)))
        except Exception:
            return False
    cur = dict(case)
    progress = True
    while progress:
        progress = False
        cands = []
        for k in ('range', 'im', 'inm', 'ims', 'ius', 'ifr'):
            if cur.get(k) is not None:
                c = dict(cur)
                del c[k]
                cands.append(c)
        if cur.get('hetag') is not None:
            cands.append(dict(cur, hetag=None))
        if cur['etags']:
            cands.append(dict(cur, etags=cur['etags'] - 1))
        if cur['method'] != 'GET':
            cands.append(dict(cur, method='GET'))
        if cur.get('stream'):
            cands.append(dict(cur, stream=0))
        if cur.get('shape', 'bytes') != 'bytes':
            cands.append(dict(cur, shape='bytes'))
        if cur['kind'] == 'gen':
            sc = case_script(cur)
            for i in range(len(sc)):
                cands.append(dict(cur, script=sc[:i] + sc[i + 1:]))
            if cur.get('lm') is not None and 'S' not in sc:
                cands.append(dict(cur, lm=None))
        if cur['proto'] != '1.1':
            cands.append(dict(cur, proto='1.1'))
        if cur['kind'] in ('tool', 'fobj', 'index'):
            cands.append(dict(cur, kind='file'))
        for flag in ('dbg', 'disp', 'dname', 'precl', 'raw', 'cookie'):
            if cur.get(flag):
                cands.append({k: v for k, v in cur.items() if k != flag})
        n = len(content_bytes(cur))
        for n2 in (14, 3, 1):
            if n2 < n:
                c = {k: v for k, v in cur.items() if k not in ('hex', 'len', 'ca', 'cb')}
                c.update(len=n2, ca=1, cb=0)
                cands.append(c)
        if cur.get('range'):
            r = cur['range']
            for i in range(len(r)):
                cands.append(dict(cur, range=r[:i] + r[i + 1:]))
        for c in cands:
            if fails(c):
                cur = c
                progress = True
                break
    return cur


def check_unit(ctx, cases, compare=True):
    """cases: list of (header, length)."""
    lines = ['R %d %s' % (n, enc_opt(h)) for h, n in cases]
    model = ctx.model(lines) if compare else None
    for idx, (h, n) in enumerate(cases):
        got = real_get_ranges(h, n)
        allowed, cls = allowed_ranges(h, n)
        ctx.case({'op': 'R', 'header': h, 'length': n}, nontrivial=bool(h), key='R|%s|%d' % (h, n))
        ctx.count('R:class:' + cls)
        ctx.count('R:result:' + ('exc' if isinstance(got, tuple) else 'ignored' if got is None else
                                 'unsat' if not got else 'one' if len(got) == 1 else 'multi'))
        ctx.count('R:len:' + ('0' if n == 0 else '1-40' if n <= 40 else '41-65535' if n < 65536 else '65536+'))
        case = {'op': 'R', 'header': h, 'length': n}
        v = unit_verdict(h, n, got)
        if v is not None:
            what, sig = v
            if ctx.match_known(sig) is None and _may_shrink(ctx):
                h2, n2 = shrink_unit(h, n, sig)
                if (h2, n2) != (h, n):
                    case = {'op': 'R', 'header': h2, 'length': n2, '_shrunk_from': {'header': h, 'length': n}}
                    what = unit_verdict(h2, n2, real_get_ranges(h2, n2))[0]
            ctx.oracle_fail(case, what, sig)
        if model is not None and not (isinstance(got, tuple) and got[1].startswith('not-run')):
            ctx.compared()
            if canon_ranges(got) != model[idx]:
                ctx.disagree(case, canon_ranges(got), model[idx], 'get_ranges result')


# ----------------------------------------------------------------------------------------------
# stream E: header_elements split for entity-tag lists
# ----------------------------------------------------------------------------------------------
_ETAG_EL = re.compile(r'[ \t]*(\*|(?:W/)?"[^"]*"|[^",; \t]+)[ \t]*')


def oracle_elements(v):
    """RFC 7232 list of entity-tags / '*' / bare tokens; None when `v` is not such a list."""
    if not v:
        return []
    out, i = [], 0
    while True:
        m = _ETAG_EL.match(v, i)
        if not m:
            return None
        out.append(m.group(1))
        i = m.end()
        if i == len(v):
            return out
        if v[i] != ',':
            return None
        i += 1


def real_elements(name, v):
    from cherrypy.lib import httputil
    r = guarded(lambda: [str(x) for x in httputil.header_elements(name, v)], timeout=20)
    if isinstance(r, tuple):
        return ['<%s:%s>' % r]        # an observation no model list equals
    return r


def check_elements(ctx, values, compare=True):
    lines = ['E %s' % enc_opt(v) for v in values]
    model = ctx.model(lines) if compare else None
    full = ctx.model(['F %s' % enc_opt(v) for v in values]) if compare else None
    for idx, v in enumerate(values):
        got = real_elements('If-Match', v)
        want = oracle_elements(v)
        case = {'op': 'E', 'value': v}
        ctx.case(case, nontrivial=bool(v), key='E|%s' % v)
        if got and got[0].startswith('<EXC:'):
            if 'not-run' not in got[0]:
                ctx.oracle_fail(case, 'header_elements(%r) ended in %s' % (v, got[0]), 'elements:exception')
            continue
        ctx.count('E:n:%d' % min(len(got), 4))
        if want is not None and sorted(got) != sorted(want):
            ctx.oracle_fail(case, 'If-Match %r parsed into %r, its entity-tags are %r' % (v, got, want),
                            'elements:wrong_split')
        if model is not None and ';' not in (v or ''):
            ctx.compared()
            m = [] if model[idx] == '[]' else [dec_text(x) for x in model[idx].split('/')]
            if sorted(m) != sorted(got):
                ctx.disagree(case, sorted(got), sorted(m), 'header_elements split')
        if full is not None:
            # the whole of header_elements + str(): split, parameters, unquoting, the stable sort, its reversal
            ctx.compared()
            ctx.count('E:params' if ';' in (v or '') else 'E:plain')
            m = [] if full[idx] == '[]' else [dec_text(x) for x in full[idx].split('/')]
            if sorted(m) != sorted(got):
                ctx.disagree(case, sorted(got), sorted(m), 'header_elements: the elements as rendered (str(HeaderElement))')
            elif m != got:
                # the order (stable sort by value, reversed) is modelled and proved irrelevant to validate_etags
                # (`sorting_irrelevant`): a different order is recorded, it is not a violation of the property
                ctx.count('E:order_differs_from_model')
            else:
                ctx.count('E:order_as_modelled')


# ----------------------------------------------------------------------------------------------
# stream D: HTTPDate(t) for integer timestamps (the Last-Modified text)
# ----------------------------------------------------------------------------------------------
MAX_TS = 253402300799          # 9999-12-31 23:59:59, the last instant `datetime` can represent


def gen_timestamp(rng):
    import calendar
    r = rng.random()
    if r < 0.25:
        return rng.randint(0, MAX_TS)
    if r < 0.45:
        return rng.randint(0, 2 * 10 ** 9)
    y = rng.choice([1970, 1971, 1972, 1999, 2000, 2001, 2004, 2038, 2100, 2101, 2400, 9999, rng.randint(1970, 9999)])
    mo, d = rng.choice([(1, 1), (2, 28), (2, 29), (3, 1), (12, 31), (rng.randint(1, 12), rng.randint(1, 28)),
                        (rng.choice([4, 6, 9, 11]), 30), (rng.choice([1, 3, 5, 7, 8, 10, 12]), 31)])
    if (mo, d) == (2, 29) and not calendar.isleap(y):
        d = 28
    h, mi, sec = rng.choice([(0, 0, 0), (23, 59, 59), (rng.randint(0, 23), rng.randint(0, 59), rng.randint(0, 59))])
    return min(MAX_TS, calendar.timegm((y, mo, d, h, mi, sec)))


def real_httpdate(t):
    from cherrypy.lib import httputil
    try:
        return str(httputil.HTTPDate(t))
    except Exception as e:
        return 'EXC:' + type(e).__name__


def oracle_httpdate(t):
    """IMF-fixdate of the instant, computed independently of email.utils (RFC 7231 7.1.1.1)."""
    import calendar
    days, sod = divmod(t, 86400)
    y = 1970
    while True:
        n = 366 if calendar.isleap(y) else 365
        if days < n:
            break
        days -= n
        y += 1
    # (only used for small samples: the loop is linear in the year)
    mo = 1
    while days >= calendar.monthrange(y, mo)[1]:
        days -= calendar.monthrange(y, mo)[1]
        mo += 1
    wd = ['Thu', 'Fri', 'Sat', 'Sun', 'Mon', 'Tue', 'Wed'][(t // 86400) % 7]
    return '%s, %02d %s %04d %02d:%02d:%02d GMT' % (
        wd, days + 1, ['Jan', 'Feb', 'Mar', 'Apr', 'May', 'Jun', 'Jul', 'Aug', 'Sep', 'Oct', 'Nov', 'Dec'][mo - 1], y,
        sod // 3600, sod % 3600 // 60, sod % 60)


def check_dates(ctx, stamps, compare=True):
    model = ctx.model(['D %d' % t for t in stamps]) if compare else None
    for idx, t in enumerate(stamps):
        got = real_httpdate(t)
        case = {'op': 'D', 't': t}
        ctx.case(case, nontrivial=True, key='D|%d' % t)
        ctx.count('D:' + ('<2^31' if t < 2 ** 31 else '>=2^31'))
        if idx % 8 == 0 and got != oracle_httpdate(t):
            ctx.oracle_fail(case, 'HTTPDate(%d) = %r, the IMF-fixdate of that instant is %r' % (t, got, oracle_httpdate(t)),
                            'httpdate:wrong')
        if model is not None:
            ctx.compared()
            if dec_text(model[idx]) != got:
                ctx.disagree(case, got, dec_text(model[idx]), 'HTTPDate text')


# ----------------------------------------------------------------------------------------------
# stream Q: whole requests
# ----------------------------------------------------------------------------------------------
class _Env:
    """One cherrypy application + temp directory per process."""
    inst = None

    def __init__(self):
        import cherrypy
        from cherrypy.lib import static, cptools
        cherrypy.config.update({'environment': 'test_suite', 'log.screen': False})
        self.dir = tempfile.mkdtemp(prefix='c16-')
        self.files = {}
        env = self
        self.case = None

        class _Raw:
            """a file-like object without fileno(): serve_fileobj cannot tell its length"""

            def __init__(self, data):
                self._f = io.BytesIO(data)

            def read(self, n=-1):
                return self._f.read(n)

            def close(self):
                self._f.close()

        def prepare(c):
            resp = cherrypy.response
            if c['hetag'] is not None:
                resp.headers['ETag'] = c['hetag']
            if c.get('precl'):
                # a Content-Length somebody set before the file is served must not survive
                resp.headers['Content-Length'] = 999
            return dict(content_type='application/x-test', disposition=c.get('disp'), name=c.get('dname'),
                        debug=bool(c.get('dbg')))

        class H:
            @cherrypy.expose
            def file(self):
                c = env.case
                return static.serve_file(c['path'], **prepare(c))

            @cherrypy.expose
            def fobj(self):
                c = env.case
                return static.serve_fileobj(open(c['path'], 'rb'), **prepare(c))

            @cherrypy.expose
            def bio(self):
                c = env.case
                kw = prepare(c)
                return static.serve_fileobj(_Raw(c['content']) if c.get('raw') else io.BytesIO(c['content']), **kw)

            @cherrypy.expose
            def gen(self):
                # a handler-generated entity; the handler may validate by itself, before or after it
                # produced its body (the script), and hands the body over in one of four shapes
                c = env.case
                resp = cherrypy.response
                if c['base'] != 200:
                    resp.status = c['base']
                if c['hetag'] is not None:
                    resp.headers['ETag'] = c['hetag']
                if c['lm'] is not None:
                    resp.headers['Last-Modified'] = c['lm']
                resp.headers['Content-Type'] = 'application/x-test'
                if c.get('cookie'):
                    resp.cookie['c16'] = 'v'
                body_set = False
                for step in case_script(c):
                    if step == 'B':
                        resp.body = shaped_body(c['content'], c.get('shape', 'bytes'))
                        body_set = True
                    elif step == 'S':
                        cptools.validate_since()
                    elif step == 'E':
                        cptools.validate_etags()
                    elif step == 'A':
                        cptools.validate_etags(autotags=True)
                return resp.body if body_set else shaped_body(c['content'], c.get('shape', 'bytes'))

        class Root:
            pass

        conf = {}
        for dbg in (0, 1):
            for st in (0, 1):
                for k, extra in (('e0', {}), ('e1', {'tools.etags.on': True}),
                                 ('e2', {'tools.etags.on': True, 'tools.etags.autotags': True})):
                    k = 'd%ds%d%s' % (dbg, st, k)
                    setattr(Root, k, H())
                    conf['/' + k] = dict(extra)
                    if st:
                        conf['/' + k]['response.stream'] = True
                    if dbg and 'tools.etags.on' in extra:
                        conf['/' + k]['tools.etags.debug'] = True
                    sd = {'tools.staticdir.on': True, 'tools.staticdir.dir': self.dir,
                          'tools.staticdir.index': 'index.txt'}
                    if dbg:
                        # the other way to configure the same directory, with logging on
                        sd = {'tools.staticdir.on': True, 'tools.staticdir.root': os.path.dirname(self.dir),
                              'tools.staticdir.dir': os.path.basename(self.dir), 'tools.staticdir.index': 'index.txt',
                              'tools.staticdir.match': r'\.txt$|/$', 'tools.staticdir.debug': True,
                              'tools.staticdir.content_types': {'txt': 'text/plain', 'bin': 'application/x-bin'}}
                    conf['/%s/sd' % k] = sd
        self.app = cherrypy.Application(Root(), '', conf)

    @classmethod
    def get(cls):
        if cls.inst is None or cls.inst.pid != os.getpid():
            cls.inst = cls()
            cls.inst.pid = os.getpid()
        return cls.inst

    @classmethod
    def cleanup(cls):
        if cls.inst is not None and cls.inst.pid == os.getpid():
            shutil.rmtree(cls.inst.dir, ignore_errors=True)
            cls.inst = None

    def path_for(self, content, index=False):
        key = hashlib.sha1(content).hexdigest()[:16] + '_%d' % len(content) + ('i' if index else '')
        p = self.files.get(key)
        if p is None:
            if len(self.files) > 400:
                for q in self.files.values():
                    try:
                        os.unlink(q)
                        if q.endswith('index.txt'):
                            os.rmdir(os.path.dirname(q))
                    except OSError:
                        pass
                self.files.clear()
            if index:
                os.mkdir(os.path.join(self.dir, 'd_' + key))
                p = os.path.join(self.dir, 'd_' + key, 'index.txt')
            else:
                p = os.path.join(self.dir, 'f_' + key + '.txt')
            with open(p, 'wb') as f:
                f.write(content)
            self.files[key] = p
        return p


def case_script(case):
    """The steps a `gen` handler executes before returning the entity (see c16_gen.gen_script).  Cases
    recorded before the dimension existed: validate_since() before the body iff the handler sets Last-Modified."""
    if case.get('script') is not None:
        return case['script']
    return 'S' if case.get('lm') is not None else ''


def shaped_body(content, shape):
    if shape == 'list':
        k = len(content) // 3
        return [content[:k], b'', content[k:]]
    if shape == 'gen':
        def chunks():
            k = len(content) // 2
            yield content[:k]
            yield content[k:]
        return chunks()
    if shape == 'fobj':
        return io.BytesIO(content)
    return content


def wire_header(v):
    """A header value as a WSGI environ string; text outside printable Latin-1 travels RFC 2047 encoded."""
    if all(c == '\t' or ' ' <= c <= '~' or '\xa0' <= c <= '\xff' for c in v) and '=?' not in v:
        return v
    return '=?utf-8?b?' + base64.b64encode(v.encode('utf-8')).decode('ascii') + '?='


def delivered(v):
    """The field value as HTTP delivers it: optional whitespace around a field value is not part of
    it (cherrypy strips in Request.process_headers, before RFC 2047 decoding)."""
    if v is None:
        return None
    return v.strip() if wire_header(v) == v else v


def norm_case(case):
    c = dict(case)
    for k in ('range', 'im', 'inm', 'ims', 'ius', 'ifr'):
        if c.get(k) is not None:
            c[k] = delivered(c[k])
    return c


def run_request(case):
    """Execute one request on the real code; returns {'status', 'headers', 'body'}."""
    env = _Env.get()
    content = content_bytes(case)
    c = dict(case)
    c['content'] = content
    kind = case['kind']
    if kind in ('file', 'fobj', 'tool', 'index'):
        c['path'] = env.path_for(content, index=(kind == 'index'))
        os.utime(c['path'], (case['mtime'], case['mtime']))
        if case.get('missing') == 'nofile':
            c['path'] = os.path.join(env.dir, 'no-such-file.txt')
        elif case.get('missing') == 'dir':
            c['path'] = env.dir
    env.case = c
    ek = 'd%ds%de%d' % (1 if case.get('dbg') else 0, 1 if case.get('stream') else 0, case['etags'])
    if kind == 'tool':
        path = '/%s/sd/%s' % (ek, os.path.basename(c['path']))
        if case.get('missing') == 'nomatch':
            path = '/%s/sd/%s' % (ek, os.path.basename(c['path'])[:-4] + '.bin')
        elif case.get('missing') == 'dotdot':
            path = '/%s/sd/../%s' % (ek, os.path.basename(c['path']))
    elif kind == 'index':
        path = '/%s/sd/%s/' % (ek, os.path.basename(os.path.dirname(c['path'])))
    else:
        path = '/%s/%s' % (ek, kind)
    environ = {
        'REQUEST_METHOD': case['method'], 'PATH_INFO': path, 'SCRIPT_NAME': '', 'QUERY_STRING': '',
        'SERVER_NAME': 'localhost', 'SERVER_PORT': '80', 'SERVER_PROTOCOL': 'HTTP/' + case['proto'],
        'ACTUAL_SERVER_PROTOCOL': 'HTTP/1.1', 'HTTP_HOST': 'localhost',
        'wsgi.url_scheme': 'http', 'wsgi.input': io.BytesIO(b''), 'wsgi.errors': io.StringIO(),
        'wsgi.version': (1, 0), 'wsgi.multithread': False, 'wsgi.multiprocess': False,
        'wsgi.run_once': False, 'REMOTE_ADDR': '127.0.0.1', 'REMOTE_PORT': '1111',
    }
    if case['method'] not in ('GET', 'HEAD'):
        environ['CONTENT_LENGTH'] = '0'
    for name, key in (('HTTP_RANGE', 'range'), ('HTTP_IF_MATCH', 'im'), ('HTTP_IF_NONE_MATCH', 'inm'),
                      ('HTTP_IF_MODIFIED_SINCE', 'ims'), ('HTTP_IF_UNMODIFIED_SINCE', 'ius'), ('HTTP_IF_RANGE', 'ifr')):
        if case.get(key) is not None:
            environ[name] = wire_header(case[key])
    out = {}

    def start_response(status, headers, exc_info=None):
        out['status'] = status
        out['headers'] = headers
        return lambda data: None
    # whatever the code under test does (raise, hang, hand back odd types) is an observation
    def call():
        res = env.app(environ, start_response)
        try:
            body = b''.join(res)             # what the WSGI iterable actually delivers
        finally:
            if hasattr(res, 'close'):
                res.close()
        hd = {}
        for k, v in out['headers']:
            hd.setdefault(str(k).lower(), str(v))
        return {'status': int(str(out['status']).split()[0]), 'headers': hd, 'body': body}
    r = guarded(call)
    if isinstance(r, tuple):
        return {'status': 0, 'headers': {}, 'body': b'', 'exc': r[1]}
    return r


_CR = re.compile(r'bytes (\d+)-(\d+)/(\d+)\Z')
_CRU = re.compile(r'bytes \*/(\d+)\Z')


def parse_multipart(obs):
    """Decode a multipart/byteranges body: list of (first, last, total, payload) or None."""
    ct = obs['headers'].get('content-type', '')
    m = re.match(r'multipart/byteranges;\s*boundary=("?)([^";]+)\1\s*$', ct, re.I)
    if not m:
        return None
    delim = b'--' + m.group(2).encode('latin-1')
    body = obs['body']
    pieces = body.split(b'\r\n' + delim)
    # preamble, then one piece per part, the last piece starts with '--'
    if body.startswith(delim):
        pieces = [b''] + (b'\r\n' + body).split(b'\r\n' + delim)[1:]
    if len(pieces) < 2 or not pieces[-1].startswith(b'--'):
        return None
    parts = []
    for p in pieces[1:-1]:
        if not p.startswith(b'\r\n'):
            return None
        head, sep, payload = p[2:].partition(b'\r\n\r\n')
        if not sep:
            return None
        cr = None
        for line in head.split(b'\r\n'):
            name, _, val = line.partition(b':')
            if name.strip().lower() == b'content-range':
                cr = _CR.match(val.strip().decode('latin-1'))
        if not cr:
            return None
        parts.append((int(cr.group(1)), int(cr.group(2)), int(cr.group(3)), payload))
    return parts


def body_sig(b):
    return 'empty' if not b else 'b:%d:%d' % (len(b), zlib.adler32(b))


def canon_real(case, obs):
    st, hd = obs['status'], obs['headers']
    cr = hd.get('content-range')
    if cr is None:
        crs = 'N'
    else:
        m, u = _CR.match(cr), _CRU.match(cr)
        crs = '%s-%s/%s' % m.groups() if m else '*/%s' % u.group(1) if u else 'raw:' + cr
    multi = hd.get('content-type', '').lower().startswith('multipart/byteranges')
    cl = hd.get('content-length')
    if st >= 400 or multi or cl is None:
        cl = 'N'
    etag = hd.get('etag')
    if case['method'] == 'HEAD' or not obs['body']:
        body = 'empty'
    elif st >= 400:
        body = 'err'
    elif multi and st == 206:
        parts = parse_multipart(obs)
        body = 'p:unparsable' if parts is None else 'p:' + ';'.join(
            '%d-%d/%d:%d:%d' % (a, b, t, len(p), zlib.adler32(p)) for a, b, t, p in parts)
        # the exact framing bytes (boundary taken from the response) are compared as well
        body += ':m%d:%d' % (len(obs['body']), zlib.adler32(obs['body']))
    else:
        body = body_sig(obs['body'])
    return 's=%d cr=%s cl=%s etag=%s body=%s' % (st, crs, cl, enc_opt(etag), body)


def canon_model(line):
    line = line.replace('body=b:0:1', 'body=empty')
    f = dict(x.split('=', 1) for x in line.split(' '))
    if int(f['s']) >= 400:
        # the content of an error response (handler-set 4xx or error page) is not an observable here
        f['cl'] = 'N'
        if f['body'] != 'empty':
            f['body'] = 'err'
    return 's=%s cr=%s cl=%s etag=%s body=%s' % (f['s'], f['cr'], f['cl'], f['etag'], f['body'])


def multipart_boundary(obs):
    if obs is None:
        return None
    m = re.match(r'multipart/byteranges; boundary=(\S+)$', obs['headers'].get('content-type', ''))
    return m.group(1) if m and obs['status'] == 206 else None


def model_line(case, obs=None):
    case = norm_case(case)
    kind = case['kind']
    content = content_bytes(case)
    script = case_script(case) if kind == 'gen' else ''
    if kind == 'gen':
        lm, call = case['lm'], script == 'S'
    elif kind == 'bio':
        lm, call = None, False
    else:
        lm, call = httpdate(case['mtime']), False
    auto = '"%s"' % hashlib.md5(content).hexdigest()
    if 'hex' in case:
        cont = 'x' + (case['hex'] or '-')
    else:
        cont = 'f%d.%d.%d' % (case['len'], case['ca'], case['cb'])
    return ' '.join([
        'Q', 'gen' if kind == 'gen' else 'file', case['method'], case['proto'].replace('.', ''),
        '0' if kind == 'bio' else '1', str(case['base'] if kind == 'gen' else 200), '1' if call else '0',
        '1' if case['etags'] >= 1 else '0', '1' if case['etags'] == 2 else '0',
        enc_opt(case['hetag']), enc_text(auto), enc_opt(lm), enc_opt(case.get('im')), enc_opt(case.get('inm')),
        enc_opt(case.get('ims')), enc_opt(case.get('ius')), enc_opt(case.get('range')), cont,
        enc_opt(multipart_boundary(obs)), enc_text('text/plain' if kind in ('tool', 'index') else 'application/x-test'),
        '1' if case.get('stream') else '0', script or '-', enc_text(EMPTY_TAG), enc_opt(case.get('ifr'))])


EMPTY_TAG = '"%s"' % hashlib.md5(b'').hexdigest()


# ---- the request oracle ------------------------------------------------------------------------
def _cond_list(v):
    """entity-tag list of an If-Match / If-None-Match value: ('absent'|'star'|'list'|'odd', [tags])"""
    if v is None or v == '':
        return 'absent', []
    els = oracle_elements(v)
    if els is None:
        return 'odd', []
    if els == ['*']:
        return 'star', []
    if '*' in els:
        return 'odd', els
    return 'list', els


def validation_of(case):
    """Who evaluates which validator for this resource, read off the configuration (not off the code):
    (since_active, etag_active, candidates for the current ETag)."""
    kind = case['kind']
    content = content_bytes(case)
    md5tag = '"%s"' % hashlib.md5(content).hexdigest()
    if kind == 'gen':
        script = case_script(case)
        since_active = 'S' in script
        etag_active = case['etags'] >= 1 or 'E' in script or 'A' in script
        auto = case['etags'] == 2 or 'A' in script
        if not etag_active:
            cands = [None]
        elif case['hetag']:
            cands = [case['hetag']]
        else:
            cands = [md5tag] if auto and case['base'] == 200 else [None]
            if 'E' in script and None not in cands:
                cands.append(None)            # an evaluation before any tag exists
            if 'A' in script and 'B' not in script.split('A')[0] and case['base'] == 200:
                cands.append(EMPTY_TAG)       # autotag taken before the handler produced its body
        return since_active, etag_active, cands
    return kind != 'bio', case['etags'] >= 1, None


def oracle_request(case, obs):
    """The property statement evaluated on one observed response (what the WSGI iterable delivered).
    Returns [(what, signature)]."""
    bad = []
    case = norm_case(case)
    if obs.get('exc'):
        if obs['exc'].startswith('not-run'):
            return []
        return [('the request ended in %s instead of a response' % obs['exc'], 'req:exception:' + obs['exc'])]
    kind, method, st, hd, body = case['kind'], case['method'], obs['status'], obs['headers'], obs['body']
    content = content_bytes(case)
    n = len(content)
    gh = method in ('GET', 'HEAD')
    stream = bool(case.get('stream'))
    cl = hd.get('content-length')
    if st >= 500:
        return [('status %d' % st, 'req:5xx')]
    if case.get('missing'):
        # no such resource: no validator, no range, nothing but 404
        want = 403 if case['missing'] == 'dotdot' else 404
        if st != want:
            bad.append(('status %d for a resource that does not exist (%s), expected %d' % (st, case['missing'], want),
                        'req:missing_not_404'))
        return bad
    if method == 'HEAD' and body:
        bad.append(('HEAD answered with a %d-byte body' % len(body), 'req:head_with_body'))
    # ---- what would be served without conditional headers --------------------------------
    rng_allowed = None            # list of admissible get_ranges results
    if kind == 'gen':
        base = case['base']
    else:
        base = 200
        rh = case.get('range')
        if case['proto'] == '1.1' and kind != 'bio' and rh:
            rng_allowed, _ = allowed_ranges(rh, n)
        else:
            rng_allowed = [None]
    since_active, etag_active, etag_candidates = validation_of(case)
    if kind != 'gen' and case.get('ifr') is not None and rng_allowed != [None]:
        # If-Range is not part of the statement.  RFC 7233 3.2 lets a server that implements it answer the whole
        # entity when the validator it carries is not the current one; CherryPy ignores the header.  Both are
        # accepted unless the header carries the current validator (then the Range applies either way).
        cur = {httpdate(case['mtime'])} if kind != 'bio' else set()
        if case['hetag']:
            cur.add(case['hetag'])
        elif case['etags'] == 2:
            cur.add('"%s"' % hashlib.md5(content).hexdigest())
        if case['ifr'] not in cur and None not in rng_allowed:
            rng_allowed = rng_allowed + [None]
    if kind == 'gen':
        L = case['lm'] if since_active else None
    elif kind == 'bio':
        L = None
    else:
        L = httpdate(case['mtime'])
    if kind == 'gen' and not (200 <= base <= 299):
        # a handler that itself answers another status: the validators leave it alone (only a handler-set
        # 304 / 412 may be re-raised as 304 / 412 by validate_since)
        if base not in (304, 412):
            if st != base:
                bad.append(('handler status %d must not be changed by validators, got %d' % (base, st),
                            'req:non2xx_base_changed'))
            return bad
        if st not in (304, 412):
            bad.append(('handler status %d turned into %d' % (base, st), 'req:non2xx_base_changed'))
        elif st == 304 and body:
            # no 304 carries a body, whoever chose the status, streamed or not (finalize; F17d repaired in b33ff58)
            bad.append(('304 with a %d-byte body' % len(body), 'req:304_with_body'))
        return bad
    # ---- the current validators ------------------------------------------------------------
    if etag_candidates is None:
        etag_candidates = [None]
        if case['etags'] >= 1:
            if case['hetag']:
                etag_candidates = [case['hetag']]
            elif case['etags'] == 2:
                md5tag = '"%s"' % hashlib.md5(content).hexdigest()
                ranged = rng_allowed is not None and any(a for a in rng_allowed)   # may become a 206
                plain = rng_allowed is None or any(a is None for a in rng_allowed)
                etag_candidates = ([md5tag] if plain else []) + ([None] if ranged or not plain else [])
                if any(a == [] for a in (rng_allowed or [])) and None not in etag_candidates:
                    etag_candidates.append(None)
    # ---- what each conditional header dictates ---------------------------------------------
    nm = 304 if gh else 412
    dictated_sets = []
    for E in etag_candidates:
        D = set()
        gray = False
        if L:
            if case.get('ius') and case['ius'] != L:
                D.add(412)
            if case.get('ims') and case['ims'] == L:
                D.add(nm)
        if etag_active:
            k, tags = _cond_list(case.get('im'))
            if k == 'list' and E not in tags:
                D.add(412)
            elif k == 'odd':
                gray = True
            k, tags = _cond_list(case.get('inm'))
            if k == 'star' or (k == 'list' and E in tags):
                D.add(nm)
            elif k == 'odd':
                gray = True
        dictated_sets.append((D, gray))
    unsat_possible = rng_allowed is not None and any(a == [] for a in rng_allowed)
    allowed_status = set()
    for D, gray in dictated_sets:
        if gray:
            allowed_status |= {304 if gh else 412, 412, 'base'}
        if D:
            allowed_status |= D
            if unsat_possible:
                allowed_status.add(416)     # Range evaluated before the etag tool: either order accepted
        else:
            allowed_status.add('base')
    # ---- compare -------------------------------------------------------------------------------
    if st == 304:
        if 304 not in allowed_status:
            bad.append(('304 although no validator dictates it (allowed: %s)' % sorted(map(str, allowed_status)),
                        'req:304_not_dictated'))
        if body:
            bad.append(('304 with a %d-byte body' % len(body), 'req:304_with_body'))
        if 'content-range' in hd:
            bad.append(('304 with Content-Range %r' % hd['content-range'], 'req:304_content_range'))
        if cl is not None and cl not in ('0', str(n)):
            bad.append(('304 with Content-Length %s (entity: %d bytes)' % (cl, n), 'req:304_content_length'))
        return bad
    if st == 412:
        if 412 not in allowed_status:
            bad.append(('412 although no validator dictates it (allowed: %s)' % sorted(map(str, allowed_status)),
                        'req:412_not_dictated'))
        if 'content-range' in hd:
            bad.append(('412 with Content-Range %r' % hd['content-range'], 'req:412_content_range'))
        if method != 'HEAD' and cl is not None and cl != str(len(body)):
            bad.append(('412 with Content-Length %s and %d body bytes' % (cl, len(body)), 'req:412_content_length'))
        if n >= 1 and (body == content or (n >= 16 and content in body)):
            bad.append(('412 delivers the entity (%d bytes) all the same' % n, 'req:412_with_entity'))
        return bad
    if 'base' not in allowed_status and not (st == 416 and 416 in allowed_status):
        bad.append(('status %d although the validators dictate %s' % (st, sorted(map(str, allowed_status))),
                    'req:validator_ignored'))
        return bad
    # ---- the unconditional answer ----------------------------------------------------------------
    if kind == 'gen':
        if st != base:
            bad.append(('status %d, handler set %d' % (st, base), 'req:status'))
        elif method != 'HEAD' and base not in (204, 205) and body != content:
            bad.append(('body differs from the handler body (%d of %d bytes)' % (len(body), n), 'req:full_body'))
        elif base not in (204, 205) and cl not in (None, str(n)):
            bad.append(('Content-Length %s for a body of %d bytes' % (cl, n), 'req:200_content_length'))
        if 'content-range' in hd:
            bad.append(('%d with Content-Range %r' % (st, hd['content-range']), 'req:200_content_range'))
        return bad
    want_bodies = []
    for a in rng_allowed:
        if a is None:
            want_bodies.append((200, None))
        elif a == []:
            want_bodies.append((416, None))
        else:
            want_bodies.append((206, a))
    if st not in [w[0] for w in want_bodies]:
        bad.append(('status %d, expected %s for Range %r on %d bytes (HTTP/%s)'
                    % (st, ' or '.join(str(w[0]) for w in want_bodies), case.get('range'), n, case['proto']),
                    'req:range_status:%d_for_%d' % (st, want_bodies[0][0])))
        return bad
    if st == 200:
        if method != 'HEAD' and body != content:
            bad.append(('200 body is not the whole entity (%d of %d bytes)' % (len(body), n), 'req:full_body'))
        elif cl not in (None, str(n)):
            bad.append(('200 Content-Length %s for an entity of %d bytes' % (cl, n),
                        'req:200_content_length'))
        if 'content-range' in hd:
            bad.append(('200 with Content-Range %r' % hd['content-range'], 'req:200_content_range'))
    elif st == 416:
        if hd.get('content-range') != 'bytes */%d' % n:
            bad.append(('416 with Content-Range %r, expected "bytes */%d"' % (hd.get('content-range'), n),
                        'req:416_content_range'))
        if method != 'HEAD' and cl is not None and cl != str(len(body)):
            bad.append(('416 with Content-Length %s and %d body bytes' % (cl, len(body)), 'req:416_content_length'))
    elif st == 206:
        slices = [w[1] for w in want_bodies if w[0] == 206][0]
        multi = hd.get('content-type', '').lower().startswith('multipart/byteranges')
        if not multi:
            m = _CR.match(hd.get('content-range', ''))
            if not m:
                bad.append(('206 without a byte Content-Range (%r)' % hd.get('content-range'), 'req:206_content_range'))
                return bad
            a, b, t = map(int, m.groups())
            if len(slices) != 1 or (a, b + 1) != slices[0] or t != n:
                bad.append(('206 Content-Range %r, requested slices %s of %d' % (hd['content-range'], slices, n),
                            'req:206_content_range'))
            elif method != 'HEAD' and body != content[a:b + 1]:
                bad.append(('206 body is not content[%d:%d] (%d bytes delivered)' % (a, b + 1, len(body)),
                            'req:206_body'))
            elif cl not in (None, str(b + 1 - a)):
                bad.append(('206 Content-Length %s for %d bytes' % (cl, b + 1 - a),
                            'req:206_content_length'))
        elif method != 'HEAD':
            parts = parse_multipart(obs)
            if parts is None:
                bad.append(('multipart/byteranges body cannot be decoded', 'req:multipart_undecodable'))
                return bad
            covered, wanted = set(), set()
            for a, b, t, payload in parts:
                if not (0 <= a <= b < n) or t != n or payload != content[a:b + 1]:
                    bad.append(('part "bytes %d-%d/%d" carries %d bytes that are not content[%d:%d] of %d'
                                % (a, b, t, len(payload), a, b + 1, n), 'req:multipart_part_untruthful'))
                    return bad
                covered.add((a, b + 1))
            wanted = set(slices)
            if _union(covered) != _union(wanted):
                bad.append(('multipart parts %s do not cover the requested slices %s'
                            % (sorted(covered), sorted(wanted)), 'req:multipart_coverage'))
            if cl is not None and cl != str(len(body)):
                bad.append(('multipart 206 with Content-Length %s and %d body bytes' % (cl, len(body)),
                            'req:206_content_length'))
    return bad


def _union(slices):
    out = []
    for a, b in sorted(slices):
        if out and a <= out[-1][1]:
            out[-1][1] = max(out[-1][1], b)
        else:
            out.append([a, b])
    return out


def check_requests(ctx, cases, compare=True):
    observed = [run_request(c) for c in cases]
    model = ctx.model([model_line(c, o) for c, o in zip(cases, observed)]) if compare else None
    # the Lean reference receiver (proved to invert the framing) on the real multipart bodies
    mp = [i for i, (c, o) in enumerate(zip(cases, observed))
          if compare and not o.get('exc') and multipart_boundary(o) and c['method'] != 'HEAD' and len(o['body']) <= 20000]
    mp_out = ctx.model(['M %s %s %s' % (enc_text(multipart_boundary(observed[i])),
                                        enc_text('text/plain' if cases[i]['kind'] in ('tool', 'index') else 'application/x-test'),
                                        observed[i]['body'].hex() or '-') for i in mp]) if mp else None
    if mp_out is not None:
        for i, line in zip(mp, mp_out):
            ctx.compared()
            ctx.count('Q:multipart_decoded_by_model_receiver')
            parts = parse_multipart(observed[i])
            want = 'undecodable' if parts is None else 'p:' + ';'.join(
                '%d-%d/%d:%d:%d' % (a, b, t, len(pl), zlib.adler32(pl)) for a, b, t, pl in parts)
            if line != want:
                ctx.disagree(cases[i], want, line, 'multipart body as decoded by the scanning receiver')
    for idx, case in enumerate(cases):
        obs = observed[idx]
        conds = [k for k in ('range', 'im', 'inm', 'ims', 'ius', 'ifr') if case.get(k) is not None]
        ctx.case(case, nontrivial=bool(conds), key='Q|' + json.dumps(case, sort_keys=True))
        ctx.count('Q:status:%d' % obs['status'])
        ctx.count('Q:kind:%s' % case['kind'])
        ctx.count('Q:method:%s' % case['method'])
        ctx.count('Q:headers:' + ('+'.join(conds) or 'none'))
        ctx.count('Q:stream:%d' % (1 if case.get('stream') else 0))
        ctx.count('Q:proto:' + case['proto'])
        for flag in ('dbg', 'disp', 'precl', 'raw', 'cookie', 'missing'):
            if case.get(flag):
                ctx.count('Q:flag:' + flag)
        if case['kind'] == 'gen':
            ctx.count('Q:gen:script:%s' % (case_script(case) or '-'))
            ctx.count('Q:gen:shape:%s' % case.get('shape', 'bytes'))
            if obs['status'] in (304, 412):
                ctx.count('Q:gen:%d:stream=%d:%s' % (obs['status'], 1 if case.get('stream') else 0,
                                                     'after-body' if 'B' in case_script(case) or case['etags'] else 'before-body'))
        if obs['headers'].get('content-type', '').startswith('multipart/byteranges'):
            ctx.count('Q:multipart')
        for what, sig in oracle_request(case, obs):
            rep = case
            if ctx.match_known(sig) is None and _may_shrink(ctx):
                small = shrink_request(case, sig)
                if small != case:
                    rep = dict(small, _shrunk_from=case)
                    what = [w for w, s2 in oracle_request(small, run_request(small)) if s2 == sig][0]
            ctx.oracle_fail(rep, '%s  [%s %s HTTP/%s etags=%d]' % (what, rep['method'], rep['kind'],
                                                                   rep['proto'], rep['etags']), sig)
        if model is not None and not obs.get('exc') and not case.get('missing'):
            ctx.compared()
            real, mod = canon_real(case, obs), canon_model(model[idx])
            if real != mod:
                ctx.disagree(case, real, mod, 'response observables')


# ----------------------------------------------------------------------------------------------
# corpus / witnesses
# ----------------------------------------------------------------------------------------------
def corpus_cases():
    d = os.path.join(common.CORPUS, PROPERTY)
    out = []
    if os.path.isdir(d):
        for f in sorted(os.listdir(d)):
            if f.endswith('.json'):
                out.append(json.load(open(os.path.join(d, f))))
    return out


def run_case_list(ctx, cases, compare=True):
    unit = [(c['header'], c['length']) for c in cases if c.get('op') == 'R']
    els = [c['value'] for c in cases if c.get('op') == 'E']
    stamps = [c['t'] for c in cases if c.get('op') == 'D']
    if stamps:
        check_dates(ctx, stamps, compare)
    reqs = [c for c in cases if c.get('op', 'Q') == 'Q']
    if unit:
        check_unit(ctx, unit, compare)
    if els:
        check_elements(ctx, els, compare)
    if reqs:
        check_requests(ctx, reqs, compare)


def witness_cases(ctx):
    out = []
    for e in ctx.known:
        w = e.get('witness', {})
        if 'case' in w:
            out.append(dict(w['case']))
        for h in w.get('headers', []):
            if w.get('fileobj') == 'BytesIO':
                out.append({'op': 'Q', 'kind': 'bio', 'method': 'GET', 'proto': '1.1', 'etags': 0, 'base': 200,
                            'hetag': None, 'lm': None, 'mtime': 1000000000, 'range': h,
                            'len': w['length'], 'ca': 1, 'cb': 0})
            else:
                out.append({'op': 'R', 'header': h, 'length': w['length']})
                out.append({'op': 'Q', 'kind': 'file', 'method': 'GET', 'proto': '1.1', 'etags': 0, 'base': 200,
                            'hetag': None, 'lm': None, 'mtime': 1000000000, 'range': h,
                            'len': w['length'], 'ca': 1, 'cb': 0})
    return out


# ----------------------------------------------------------------------------------------------
def _worker(args):
    """Thorough tier: one slice of the generated streams in a forked process (no model access here:
    returns the cases' observations for the parent to compare)."""
    seed, what, lo, hi = args
    import random
    rng = random.Random(seed)
    sub = _SubCtx()
    cov = c16_cov.start()
    try:
        if what == 'unit':
            cases = []
            for _ in range(hi - lo):
                n = gen_len(rng)
                cases.append((gen_range_header(rng, n), n))
            check_unit(sub, cases, compare=True)
        elif what == 'exh':
            hs = enum_small_headers() + enum_medium_headers()
            cases = [(h, n) for n in range(lo, hi) for h in hs]
            check_unit(sub, cases, compare=True)
        else:
            cases = [gen_request(rng) for _ in range(hi - lo)]
            check_requests(sub, cases, compare=True)
    finally:
        _Env.cleanup()
        c16_cov.stop()
    d = sub.dump()
    d['cov'] = cov.hits()
    return d


class _SubCtx:
    """Collects what a worker would have reported to ctx; merged by the parent."""

    def __init__(self):
        self.nevals, self.keys, self.hist, self.fails, self.dis, self.ncomp = 0, set(), {}, [], [], 0
        self.driver = common.Driver(DRIVER)

    def model(self, lines):
        return self.driver(lines) if self.driver.available() else None

    def match_known(self, signature):
        return None

    def case(self, case, nontrivial=True, key=None):
        self.nevals += 1
        if nontrivial:
            # same digest as common.Ctx.case, so the parent can count distinct cases across workers
            self.keys.add(hashlib.sha1(str(key).encode('utf-8', 'replace')).digest()[:10])

    def count(self, k, n=1):
        self.hist[k] = self.hist.get(k, 0) + n

    def compared(self, n=1):
        self.ncomp += n

    def oracle_fail(self, case, what, sig=None):
        self.fails.append((case, what, sig))

    def disagree(self, case, impl, model, what=''):
        self.dis.append((case, impl, model, what))

    def dump(self):
        return {'nevals': self.nevals, 'keys': b''.join(sorted(self.keys)), 'hist': self.hist, 'fails': self.fails[:50], 'dis': self.dis[:50],
                'ncomp': self.ncomp, 'lines': self.driver.lines}


def merge(ctx, d):
    ctx.evaluations += d['nevals']
    ks = d['keys']
    ctx._nontrivial.update(ks[i:i + 10] for i in range(0, len(ks), 10))
    for k, v in d['hist'].items():
        ctx.count(k, v)
    for case, what, sig in d['fails']:
        ctx.oracle_fail(case, what, sig)
    for case, impl, model, what in d['dis']:
        ctx.disagree(case, impl, model, what)
    ctx.compared(d['ncomp'])
    if ctx.driver:
        ctx.driver.lines += d['lines']


def run(ctx):
    import time
    t0 = time.time()
    phases = {'lean_prepare': round(ctx.lean.wall, 1) if ctx.lean else None}

    def mark(name):
        nonlocal t0
        phases[name] = round(time.time() - t0, 1)
        t0 = time.time()
    ctx.extra['phase_wall_s'] = phases
    cov = c16_cov.start()
    try:
        if ctx.model(['R 1 N']) is None and ctx.lean is not None and ctx.lean.driver_ok:
            raise common.HarnessError('driver drv_c16 not available')
        run_case_list(ctx, witness_cases(ctx))
        run_case_list(ctx, corpus_cases())
        mark('witnesses+corpus')
        rng = ctx.rng
        # R: unit stream
        n_unit = ctx.budget(15000, 30000)
        cases = []
        for _ in range(n_unit):
            n = gen_len(rng)
            cases.append((gen_range_header(rng, n), n))
        check_unit(ctx, cases)
        mark('unit_generated')
        # systematic small scope, every run: every small-grammar header x lengths 0..6 (quick) / 0..40
        hs = enum_small_headers()
        if ctx.quick():
            check_unit(ctx, [(h, n) for n in range(0, 13) for h in hs])
            ctx.extra['small_scope_unit'] = 'lengths 0..12 x %d small-grammar headers' % len(hs)
        mark('unit_small_scope')
        # E: element lists
        check_elements(ctx, [gen_elements_value(rng) for _ in range(ctx.budget(600, 5000))])
        mark('elements')
        check_dates(ctx, [0, 1, 86399, 86400, 951782399, 951782400, 951868800, 2 ** 31 - 1, 2 ** 31, 4107542400, MAX_TS] +
                    [gen_timestamp(rng) for _ in range(ctx.budget(1500, 20000))])
        mark('dates')
        # Q: requests; first the systematic validator table (every tier), then generated ones
        table = enum_decision_table()
        check_requests(ctx, table if not ctx.quick() else table[ctx.seed % 2::2])
        ctx.extra['validator_table_requests'] = len(table) if not ctx.quick() else len(table[ctx.seed % 2::2])
        mark('requests_validator_table')
        flow = enum_flow_table()
        check_requests(ctx, flow)
        ctx.extra['flow_table_requests'] = len(flow)
        mark('requests_flow_table')
        check_requests(ctx, enum_extras_table())
        mark('requests_extras_table')
        check_requests(ctx, [gen_request(rng) for _ in range(ctx.budget(5000, 8000))])
        mark('requests_generated')
        if not ctx.quick():
            jobs = []
            base = ctx.rng.getrandbits(48)
            for i in range(48):
                jobs.append((base + i, 'unit', 0, 50000))
            for i in range(48):
                jobs.append((base + 100 + i, 'req', 0, 4000))
            for lo in range(0, 41, 3):
                jobs.append((0, 'exh', lo, min(lo + 3, 41)))
            c16_cov.stop()            # the forked workers install their own monitor
            for d in common.parallel_map(_worker, jobs):
                merge(ctx, d)
                cov.add_hits(d.get('cov', []))
            mark('thorough_parallel')
            ctx.extra['exhaustive_small_scope'] = ('lengths 0..40 x %d small-grammar headers (all lists of <= 2 specs '
                                                   'over 8 boundary positions, plus whitespace / invalid variants)'
                                                   % (len(hs) + len(enum_medium_headers())))
            ctx.extra['thorough_unit_strings'] = 48 * 50000
            ctx.extra['thorough_requests'] = 48 * 4000
        cov.report(ctx)
    finally:
        _Env.cleanup()
        c16_cov.stop()


def search(ctx, around=None):
    """Deeper oracle-only hunt (called when the proof or the correspondence broke)."""
    try:
        rng = ctx.rng
        if around is not None:
            run_case_list(ctx, [dict(around, op=around.get('op', 'Q'))], compare=False)
        hs = enum_small_headers()
        check_unit(ctx, [(h, n) for n in range(0, 12) for h in hs], compare=False)
        cases = []
        for _ in range(60000):
            n = gen_len(rng)
            cases.append((gen_range_header(rng, n), n))
        check_unit(ctx, cases, compare=False)
        check_elements(ctx, [gen_elements_value(rng) for _ in range(3000)], compare=False)
        check_requests(ctx, [gen_request(rng) for _ in range(8000)], compare=False)
    finally:
        _Env.cleanup()


def replay(ctx, case):
    try:
        op = case.get('op', 'Q')
        print('case   :', json.dumps(case, sort_keys=True))
        if op == 'R':
            got = real_get_ranges(case['header'], case['length'])
            allowed, cls = allowed_ranges(case['header'], case['length'])
            print('impl   :', canon_ranges(got))
            print('allowed:', ' or '.join(canon_ranges(a) for a in allowed), '(%s)' % cls)
            m = ctx.model(['R %d %s' % (case['length'], enc_opt(case['header']))])
            if m:
                print('model  :', m[0])
        elif op == 'E':
            print('impl   :', real_elements('If-Match', case['value']))
            print('oracle :', oracle_elements(case['value']))
        else:
            obs = run_request(case)
            print('impl   :', canon_real(case, obs))
            m = ctx.model([model_line(case, obs)])
            if m:
                print('model  :', canon_model(m[0]))
        run_case_list(ctx, [dict(case, op=op)])
    finally:
        _Env.cleanup()
