"""C01 - the WSGI boundary: what the server sees whatever the body iterator does, and InternalRedirect chains.

Two more plan vocabularies next to the fault plans of harness/pipeline_common.py (which stay as they are):

B-plans (`'k': 'b'`) - one request to one page whose handler returns a body of a given *shape* whose iterator
misbehaves in a given way, under response.stream on/off, tools, HEAD/GET, an explicit Content-Length, a no-body
status, an `on_end_resource` hook that leaves non-bytes in `response.output_status` / `response.header_list`;
the simulated server calls `next` `reads` times (None: to the end) and `close()` `closes` times.

    {'k': 'b', 'meth': 'get'|'head', 'tb': 0|1, 'stream': 0|1, 'tools': [...], 'cl': 0|1, 'status': None|n|str,
     'body': {'shape': SHAPE, 'items': 'bbsx', 'end': 0|1, 'close': 'absent'|'ok'|'raise'|'arg'},
     'tamper': [STATUS_T, HDR_T], 'reads': None|m, 'closes': n,
     'xk': 'ex'|'ir'|'hr'|'he'|'nf'|<builtin class name> (class of what the failing sites raise: the private
           ProbeError, InternalRedirect, HTTPRedirect, HTTPError, NotFound, or ValueError / TypeError / KeyError / ... with the
           marker message as args[0]), 'relx': the same for a failing on_end_request hook}
    SHAPE  = bytes | bytes0 | str | str0 | none | nonit | list | tuple | gen | iter | iterable | file
    items  = what successive `__next__` / `read()` calls produce: b bytes chunk, e b'', s a str, i an int, x raise
    end    = 1: at exhaustion an exception instead of StopIteration (iter/iterable), `read()` raises (file)
    close  = the iterator's own close(): absent, returns, raises, needs an argument; for `gen` 'raise' means the
             generator's `finally` block raises (at exhaustion, on `close()` mid-stream, after an own failure);
             for `file` it is the file object's close()

R-plans (`'k': 'r'`) - a site of pages whose handlers raise `InternalRedirect` by rule, a start URL with or without
query string:

    {'k': 'r', 'meth': 'get'|'post', 'tb': 0|1, 'sn': ''|'/app' (mount point), 'start': [path, qs], 'reads': None|m, 'closes': n,
     'pages': {path: [[COND, TARGET_PATH_ARG, TARGET_QS_ARG], ...]}}      # first matching rule fires
    COND = always | q (the request has a query string) | noq | v<k> (fewer than k requests so far)
    TARGET_PATH_ARG: absolute ('/b'), relative ('b', ''), may carry '?query'; '{q}' in a query = the current query
    string, '{n}' = the number of requests so far

Non-termination of the code under test is an observation, never a harness hang: a run that creates more than
MAX_REQUESTS Request objects, yields more than MAX_CHUNKS chunks, burns CPU_GUARD seconds of CPU or WALL_GUARD seconds of
wall clock is cut by a
BaseException raised from inside (`Runaway` / `Hang`) and reported as `hang:*` with the plan.
"""
import io
import signal
import sys
import time

from . import common
from . import pipeline_common as pc

import cherrypy
from cherrypy import _cprequest

MARK = pc.MARK
PAGE_CHUNK = pc.PAGE_CHUNK
ProbeError = pc.ProbeError
Runaway = pc.Runaway
MAX_REQUESTS = 40
MAX_CHUNKS = 60
# a run is cut after CPU_GUARD seconds of *CPU time of this process* (a spinning loop; immune to a loaded machine
# descheduling the check) or after WALL_GUARD seconds of wall clock (a blocking wait)
CPU_GUARD = 5.0
WALL_GUARD = 60.0


class Hang(BaseException):
    """Raised by the wall-clock guard inside the code under test (a BaseException: nothing swallows it)."""


class BRun(object):
    def __init__(self, plan):
        self.plan = plan
        self.reqs = []             # request objects, creation order
        self.urls = []             # (path_info, query_string) seen by each handler call
        self.starts = []
        self.inner_next = 0
        self.inner_close = 0
        self.file_read = 0
        self.file_close = 0
        self.gen_finally = 0
        self.released = 0
        self.chunk_before_start = False
        self.pages_served = []
        self.prebuilt = None       # the control-flow exception object of the plan, built while the request is live

    def exc(self, site):
        """What a failing site of the body iterator raises: the plan's exception kind (`xk`)."""
        kind = self.plan.get('xk', 'ex')
        if kind in pc.EX_CLASSES:
            return pc.EX_CLASSES[kind]('%s-%s' % (MARK, site))
        if kind == 'ex' or self.prebuilt is None:
            return ProbeError('%s-%s' % (MARK, site))
        return self.prebuilt


_cur = [None]


class BRequest(_cprequest.Request):
    def __init__(self, *a, **k):
        _cprequest.Request.__init__(self, *a, **k)
        run = _cur[0]
        if run is not None:
            run.reqs.append(self)
            if len(run.reqs) > MAX_REQUESTS:
                raise Runaway()


def _chunk(k):
    if k == 'b':
        return PAGE_CHUNK
    if k == 'e':
        return b''
    if k == 's':
        return 'VP-STR-CHUNK;'
    if k == 'i':
        return 7
    raise common.HarnessError('bad item %r' % k)


def _gen_body(run, items, fin_raises):
    try:
        for k in items:
            if k == 'x':
                raise run.exc('gen')
            yield _chunk(k)
    finally:
        run.gen_finally += 1
        if fin_raises and _cur[0] is run:      # (not when the garbage collector closes it after the run)
            raise run.exc('finally')


class _IterBase(object):
    def __init__(self, run, items, end, close_raises):
        self.run, self.items, self.pos, self.end, self.close_raises = run, items, 0, end, close_raises

    def __iter__(self):
        return self

    def __next__(self):
        self.run.inner_next += 1
        if self.pos < len(self.items):
            k = self.items[self.pos]
            self.pos += 1
            if k == 'x':
                raise self.run.exc('next')
            return _chunk(k)
        if self.end:
            self.end = 0
            raise self.run.exc('end')
        raise StopIteration


class IterNoClose(_IterBase):
    pass


class IterClose(_IterBase):
    def close(self):
        self.run.inner_close += 1
        if self.close_raises:
            raise self.run.exc('close')


class IterCloseArg(_IterBase):
    def close(self, how):
        self.run.inner_close += 1


def _mk_iter(run, spec):
    cls = {'absent': IterNoClose, 'ok': IterClose, 'raise': IterClose, 'arg': IterCloseArg}[spec['close']]
    return cls(run, spec['items'], spec['end'], spec['close'] == 'raise')


class Iterable(object):
    def __init__(self, run, spec):
        self.run, self.spec = run, spec

    def __iter__(self):
        return _mk_iter(self.run, self.spec)


class _FileBase(object):
    def __init__(self, run, items, end, close_raises):
        self.run, self.items, self.pos, self.end, self.close_raises = run, items, 0, end, close_raises

    def read(self, n=-1):
        self.run.file_read += 1
        if self.pos < len(self.items):
            k = self.items[self.pos]
            self.pos += 1
            if k == 'x':
                raise self.run.exc('read')
            return _chunk(k)
        if self.end:
            self.end = 0
            raise self.run.exc('end')
        return b''


class FileNoClose(_FileBase):
    pass


class FileClose(_FileBase):
    def close(self):
        self.run.file_close += 1
        if self.close_raises and _cur[0] is self.run:      # (file_generator.__del__ may run after the run)
            raise self.run.exc('fclose')


def make_body(run, spec):
    shape, items = spec['shape'], spec['items']
    if shape == 'bytes':
        return PAGE_CHUNK
    if shape == 'bytes0':
        return b''
    if shape == 'str':
        return 'VP-TEXT-PAGE'
    if shape == 'str0':
        return ''
    if shape == 'none':
        return None
    if shape == 'nonit':
        return 12345
    if shape == 'list':
        return [_chunk(k) for k in items]
    if shape == 'tuple':
        return tuple(_chunk(k) for k in items)
    if shape == 'gen':
        return _gen_body(run, items, spec['close'] == 'raise')
    if shape == 'iter':
        return _mk_iter(run, spec)
    if shape == 'iterable':
        return Iterable(run, spec)
    if shape == 'file':
        cls = FileNoClose if spec['close'] == 'absent' else FileClose
        return cls(run, items, spec['end'], spec['close'] == 'raise')
    raise common.HarnessError('bad shape %r' % shape)


TAMPER_STATUS = {'str': '200 OK', 'none': None, 'int': 200}
TAMPER_HDR = {'bytes': (b'X-Vp', b'1'), 'strkey': ('X-Vp', b'1'), 'strval': (b'X-Vp', '1'), 'unival': (b'X-Vp', 'caf€'),
              'strpair': ('X-Vp', 'caf€'), 'triple': (b'a', b'b', b'c'), 'nonpair': 7, 'intval': (b'X-Vp', 1)}


def _tamper_hook():
    run = _cur[0]
    if run is None or run.plan['k'] != 'b':
        return
    st, hd = run.plan['tamper']
    resp = cherrypy.serving.response
    if st != 'keep':
        resp.output_status = TAMPER_STATUS[st]
    if hd == 'nolist':
        resp.header_list = None
    elif hd != 'none':
        # never touch the class-level default list
        resp.header_list = list(resp.header_list) + [TAMPER_HDR[hd]]


def _ep_gen(text):
    yield text
    yield text


EP_CALLABLES = {
    'str': lambda **kw: 'VP-EP status=%(status)s tb=[%(traceback)s]' % kw,
    'bytes': lambda **kw: ('VP-EP status=%(status)s tb=[%(traceback)s]' % kw).encode('utf-8'),
    'iter': lambda **kw: _ep_gen('VP-EP tb=[%(traceback)s]' % kw),
    'iterbytes': lambda **kw: _ep_gen(('VP-EP tb=[%(traceback)s]' % kw).encode('utf-8')),
    'iterint': lambda **kw: iter([1, 2]),
    'int': lambda **kw: 12345,
    'none': lambda **kw: None,
}


# exception kinds of the failing sites: an ordinary Exception, and CherryPy's own control-flow classes (what
# Request.throws / the except clauses of respond() single out); KeyboardInterrupt / SystemExit are excluded by the statement
XKINDS = ['ex', 'ir', 'hr', 'he', 'nf']
# ... and, as further spellings of "an ordinary Exception", classes of the builtin hierarchy that CherryPy itself catches
# or uses internally (valid_status / header parsing: ValueError, dict lookups: KeyError, ...), each built with the marker
# message as args[0]: with tracebacks off none of it may reach the client, whatever the class
ORDINARY = [k for k in sorted(pc.EX_CLASSES) if k != 'ProbeError']


def build_exc(kind):
    if kind == 'ir':
        return cherrypy.InternalRedirect('/plain')
    if kind == 'hr':
        return cherrypy.HTTPRedirect('/elsewhere')
    if kind == 'he':
        return cherrypy.HTTPError(404, 'VPMSG-iterator')
    if kind == 'nf':
        return cherrypy.NotFound()
    return None


def _released_hook():
    run = _cur[0]
    if run is not None:
        run.released += 1
        kind = run.plan.get('relx') if run.plan['k'] == 'b' else None
        if kind and len(run.reqs) and cherrypy.serving.request is run.reqs[0]:
            # on_end_request of the page's request fails too (release_serving logs and drops it)
            raise (build_exc(kind) or pc.EX_CLASSES.get(kind, ProbeError)('%s-onendrequest' % MARK))


def _cond(cond, run, qs):
    if cond == 'always':
        return True
    if cond == 'q':
        return bool(qs)
    if cond == 'noq':
        return not qs
    if cond[:1] == 'v':
        return len(run.urls) < int(cond[1:])
    raise common.HarnessError('bad condition %r' % cond)


class Root(object):
    @cherrypy.expose
    def default(self, *args, **kwargs):
        run = _cur[0]
        req = cherrypy.serving.request
        plan = run.plan
        run.urls.append((req.path_info, req.query_string))
        if plan['k'] == 'b':
            if req.path_info != '/b':
                # the target of an InternalRedirect raised by the body iterator while finalize collapsed it
                return PAGE_CHUNK
            run.prebuilt = build_exc(plan.get('xk', 'ex'))
            if plan['status'] is not None:
                cherrypy.serving.response.status = plan['status']
            if plan['cl']:
                cherrypy.serving.response.headers['Content-Length'] = '14'
                cherrypy.serving.response.headers['Content-Range'] = 'bytes 0-13/14'
            return make_body(run, plan['body'])
        rules = plan['pages'].get(req.path_info)
        if rules is None:
            raise cherrypy.NotFound()
        n = len(run.urls)
        for cond, tpath, tqs in rules:
            if _cond(cond, run, req.query_string):
                sub = lambda s: s.replace('{q}', req.query_string).replace('{n}', str(n))
                raise cherrypy.InternalRedirect(sub(tpath), sub(tqs))
        run.pages_served.append(req.path_info)
        return PAGE_CHUNK


_apps = {}


def build_app(plan):
    pc._configure()
    if plan['k'] == 'b':
        key = ('b', plan['tb'], plan['stream'], tuple(plan['tools']), plan.get('ep'))
    else:
        key = ('r', plan['tb'], plan.get('sn', ''))
    app = _apps.get(key)
    if app is not None:
        return app
    sec = {'tools.trailing_slash.on': False, 'tools.log_tracebacks.on': False, 'tools.log_headers.on': False,
           'tools.encode.on': False, 'request.show_tracebacks': bool(plan['tb']),
           'hooks.on_end_request.0': _released_hook}
    if plan['k'] == 'b':
        sec['hooks.on_end_resource.0'] = _tamper_hook
        if plan['stream']:
            sec['response.stream'] = True
        if plan.get('ep'):
            sec['error_page.default'] = EP_CALLABLES[plan['ep']]
        for t in plan['tools']:
            if t == 'encode':
                sec['tools.encode.on'] = True
            elif t == 'gzip':
                sec['tools.gzip.on'] = True
            elif t == 'etags':
                sec['tools.etags.on'] = True
                sec['tools.etags.autotags'] = True
            else:
                raise common.HarnessError('bad tool %r' % t)
    app = cherrypy.Application(Root(), plan.get('sn', '') if plan['k'] == 'r' else '', {'/': sec})
    app.request_class = BRequest
    _apps[key] = app
    return app


def build_environ(plan):
    if plan['k'] == 'b':
        path, qs = '/b', ''
    else:
        path, qs = plan['start']
    meth = plan['meth'].upper()
    env = {
        'REQUEST_METHOD': meth, 'SCRIPT_NAME': plan.get('sn', '') if plan['k'] == 'r' else '', 'PATH_INFO': path,
        'QUERY_STRING': qs,
        'SERVER_NAME': 'localhost', 'SERVER_PORT': '80', 'SERVER_PROTOCOL': 'HTTP/1.1', 'HTTP_HOST': 'localhost',
        'wsgi.version': (1, 0), 'wsgi.url_scheme': 'http', 'wsgi.input': io.BytesIO(b''),
        'wsgi.errors': sys.stderr, 'wsgi.multithread': False, 'wsgi.multiprocess': False, 'wsgi.run_once': False,
    }
    if meth == 'POST':
        env['wsgi.input'] = io.BytesIO(b'a=1')
        env['CONTENT_LENGTH'] = '3'
        env['CONTENT_TYPE'] = 'application/x-www-form-urlencoded'
    if plan['k'] == 'b' and 'gzip' in plan['tools']:
        env['HTTP_ACCEPT_ENCODING'] = 'gzip'
    return env


def _alarm(signum, frame):
    raise Hang()


class WallGuard(object):
    """Guard around calls into the code under test: after CPU_GUARD seconds of CPU time or WALL_GUARD seconds of wall
    clock (and again after every such interval) `Hang` is raised inside whatever is running.  Main thread only
    (elsewhere it does nothing)."""

    def __init__(self, cpu=None, wall=None):
        self.cpu = cpu or CPU_GUARD
        self.wall = wall or WALL_GUARD
        self.on = False

    def __enter__(self):
        if hasattr(signal, 'setitimer'):
            try:
                self.old = signal.signal(signal.SIGALRM, _alarm)
                self.old_v = signal.signal(signal.SIGVTALRM, _alarm)
                # (an enclosing alarm of harness/common.py uses the real-time timer: it is put back on exit)
                self.prev = signal.setitimer(signal.ITIMER_REAL, self.wall, self.wall)
                signal.setitimer(signal.ITIMER_VIRTUAL, self.cpu, self.cpu)
                self.on = True
            except ValueError:        # not in the main thread
                self.on = False
        return self

    def __exit__(self, *exc):
        if self.on:
            signal.setitimer(signal.ITIMER_VIRTUAL, 0)
            signal.setitimer(signal.ITIMER_REAL, 0)
            signal.signal(signal.SIGVTALRM, self.old_v)
            signal.signal(signal.SIGALRM, self.old)
            if self.prev and self.prev[0] > 0:
                signal.setitimer(signal.ITIMER_REAL, *self.prev)
            self.on = False
        return False


def guarded(fn, *args, **kwargs):
    """(result, None) or (None, 'time: ...') when the call did not come back."""
    t0 = time.time()
    try:
        with WallGuard():
            return fn(*args, **kwargs), None
    except Hang:
        return None, 'time: no answer after %.0f s' % (time.time() - t0)


def _quiet_unraisable(unraisable):
    # a generator whose `finally` raises when the garbage collector closes it: CPython reports it here
    pass


def run_real(plan, app_wrapper=None):
    """Execute a B- or R-plan on the real code.  Every call into the code under test is wrapped: whatever it
    raises is an observation."""
    app = build_app(plan)
    cherrypy.config.update({'request.show_tracebacks': bool(plan['tb'])})
    wsgi_app = app_wrapper(app) if app_wrapper else app
    env = build_environ(plan)
    run = BRun(plan)
    _cur[0] = run
    chunks, escaped, hang, it = [], None, None, None
    ops = []
    old_hook = sys.unraisablehook
    sys.unraisablehook = _quiet_unraisable
    guard = WallGuard()
    guard.__enter__()
    t0 = time.time()
    try:
        def start_response(status, headers, exc_info=None):
            run.starts.append((status, headers, exc_info is not None))
            exc_info = None
            return lambda data: None

        try:
            try:
                it = wsgi_app(env, start_response)
                itr = iter(it)
                n = 0
                while plan['reads'] is None or n < plan['reads']:
                    try:
                        c = next(itr)
                    except StopIteration:
                        ops.append('stop')
                        break
                    if not run.starts:
                        run.chunk_before_start = True
                    chunks.append(c)
                    ops.append('chunk')
                    n += 1
                    if n > MAX_CHUNKS:
                        hang = 'chunks: the iterable yielded more than %d chunks' % MAX_CHUNKS
                        break
            except Exception as e:     # noqa: BLE001 - exactly what C01 forbids; recorded, not raised
                escaped = 'call/next: %s: %s' % (type(e).__name__, e)
            except Runaway:
                hang = 'requests: more than %d Request objects were created for one request' % MAX_REQUESTS
            for _ in range(plan['closes']):
                if it is not None and hasattr(it, 'close'):
                    try:
                        it.close()
                        ops.append('closed')
                    except Exception as e:     # noqa: BLE001
                        escaped = 'close: %s: %s' % (type(e).__name__, e)
                        ops.append('close-raised')
                    except Runaway:
                        hang = 'requests: more than %d Request objects were created during close()' % MAX_REQUESTS
        except Hang:
            hang = 'time: no answer after %.0f s' % (time.time() - t0)
        snapshot = {'next': run.inner_next, 'close': run.inner_close, 'fread': run.file_read, 'fclose': run.file_close,
                    'finally': run.gen_finally, 'released': run.released}
    finally:
        guard.__exit__()
        _cur[0] = None
        try:
            cherrypy.serving.clear()
        except Exception:     # noqa: BLE001
            pass
        it = itr = None
        sys.unraisablehook = old_hook
    return {'starts': run.starts, 'chunks': chunks, 'escaped': escaped, 'hang': hang,
            'chunk_before_start': run.chunk_before_start,
            'reqs': [{'show_tracebacks': bool(r.show_tracebacks)} for r in run.reqs],
            'urls': run.urls, 'served': run.pages_served, 'inner': snapshot, 'ops': ops, 'j': [], 'sites': []}


# ----------------------------------------------------------------------------------------------
# canonical forms
# ----------------------------------------------------------------------------------------------
def opt(x):
    return 'N' if x is None else str(x)


def tok(s):
    """A possibly empty string as one token of the line protocol."""
    return s if s else '-'


def model_comparable(plan):
    """Plans the Lean model covers (the rest is judged by the oracle only)."""
    if plan['k'] == 'b':
        if plan.get('xk') == 'StopIteration' and plan['body']['shape'] != 'gen':
            return False       # from __next__ / read() this is the end of the iteration, not a failure
        if plan.get('xk', 'ex') in XKINDS[1:] and not ((plan['stream'] or plan['cl']) and plan['status'] is None):
            # a control-flow exception raised while finalize consumes the body is handled by the request layer
            # (redirect, 404 page, internal redirect): oracle only.  Raised later (streamed / uncollapsed body:
            # next, close, finally) its class must make no difference: compared with the kind-free model
            return False
        return (not plan['tools'] and not plan.get('ep') and (plan['status'] is None or isinstance(plan['status'], int))
                and plan['tamper'][1] != 'strpair')
    return True


def plan_line(plan):
    if plan['k'] == 'b':
        b = plan['body']
        return ' '.join(['B', plan['meth'], str(plan['tb']), str(plan['stream']), str(plan['cl']), opt(plan['status']),
                         b['shape'], tok(b['items']), str(b['end']), b['close'], plan['tamper'][0], plan['tamper'][1],
                         opt(plan['reads']), str(plan['closes'])]
                        + (['xk=%s' % plan['xk']] if plan.get('xk', 'ex') != 'ex' else [])
                        + (['relx=%s' % plan['relx']] if plan.get('relx') else [])
                        + (['ep=%s' % plan['ep']] if plan.get('ep') else []) + (['tools=%s' % '+'.join(plan['tools'])] if plan['tools'] else []))
    out = ['R', plan['meth'], str(plan['tb']), tok(plan.get('sn', '')), plan['start'][0], tok(plan['start'][1]),
           opt(plan['reads']), str(plan['closes'])]
    for path in sorted(plan['pages']):
        rules = plan['pages'][path]
        out.append('|')
        out.append(path)
        for cond, tp, tq in rules:
            out.extend([cond, tok(tp), tok(tq)])
    return ' '.join(out)


def other_bytes(obs):
    """Did the server receive bytes that are not page chunks (an error page, the trapper's bare body)?  Judged by
    length, not by wording."""
    text = b''.join(c for c in obs['chunks'] if isinstance(c, bytes))
    return 1 if len(text) > text.count(PAGE_CHUNK) * len(PAGE_CHUNK) else 0


def canon_real(plan, obs):
    """The observables compared with the model.  Not among them: chunking, wording of any message or page, how often
    the probe file's close() runs (file_generator.__del__ adds calls at garbage-collection time), and how far a body
    iterator was consumed when the request ended in an error before the response started."""
    codes = [s[0][:3] if isinstance(s[0], str) else '???' for s in obs['starts']]
    starts = ','.join('%s.%d' % (c, 1 if s[2] else 0) for c, s in zip(codes, obs['starts']))
    inner = obs['inner']
    out = {'S': starts or '-', 'X': '1' if obs['escaped'] else '0', 'R': str(inner['released'])}
    full = plan['reads'] is None
    text = b''.join(c for c in obs['chunks'] if isinstance(c, bytes))
    if plan['k'] == 'b':
        out['K'] = str(inner['close'])
        if full:
            out['D'] = 'p%d.s%d.i%d.%d' % (text.count(PAGE_CHUNK), sum(1 for c in obs['chunks'] if isinstance(c, str)),
                                          sum(1 for c in obs['chunks'] if not isinstance(c, (str, bytes))), other_bytes(obs))
            if codes and codes[0][:1] in '123':
                out['N'] = str(inner['next'] + inner['fread'])
    else:
        out['U'] = ','.join('%s?%s' % u for u in obs['urls']) or '-'
        if full:
            out['D'] = 'p%d.%d' % (text.count(PAGE_CHUNK), other_bytes(obs))
    return out


def parse_model(line):
    return dict(p.split('=', 1) for p in line.split(' '))


def canon_model(plan, m):
    full = plan['reads'] is None
    keys = ['S', 'X', 'R'] + (['K'] if plan['k'] == 'b' else ['U'])
    if full:
        keys += ['D']
        if plan['k'] == 'b' and m.get('S', '-')[:1] in '123':
            keys += ['N']
    return {k: m.get(k) for k in keys}


# ----------------------------------------------------------------------------------------------
# generators
# ----------------------------------------------------------------------------------------------
SHAPES = ['bytes', 'bytes0', 'str', 'str0', 'none', 'nonit', 'list', 'tuple', 'gen', 'iter', 'iterable', 'file']
ITERATING = ('gen', 'iter', 'iterable', 'file')
CONSUME = [(None, 1), (None, 2), (None, 0), (0, 1), (0, 2), (1, 1), (1, 2), (2, 1), (1, 0), (3, 3), (0, 0)]


def b_plan(shape='bytes', items='', end=0, close='absent', meth='get', tb=0, stream=0, tools=(), cl=0, status=None,
           tamper=('keep', 'none'), reads=None, closes=1, ep=None, xk='ex', relx=None):
    pl = {'k': 'b', 'meth': meth, 'tb': tb, 'stream': stream, 'tools': list(tools), 'cl': cl, 'status': status,
          'body': {'shape': shape, 'items': items, 'end': end, 'close': close}, 'tamper': list(tamper),
          'reads': reads, 'closes': closes}
    if ep:
        pl['ep'] = ep       # an error_page.default callable returning str / bytes / an iterator / something else
    if xk != 'ex':
        pl['xk'] = xk       # class of the exception the failing sites of the body iterator raise (XKINDS)
    if relx:
        pl['relx'] = relx   # the on_end_request hook raises too (an XKINDS class)
    return pl


def body_specs(quick):
    """Every body shape with every way its iterator can misbehave (small scope: up to three items)."""
    out = [('bytes', '', 0, 'absent'), ('bytes0', '', 0, 'absent'), ('str', '', 0, 'absent'), ('str0', '', 0, 'absent'),
           ('none', '', 0, 'absent'), ('nonit', '', 0, 'absent')]
    for sh in ('list', 'tuple'):
        for items in ('', 'b', 'bb', 'bs', 'sb', 'bi', 'be'):
            out.append((sh, items, 0, 'absent'))
    seqs = ['', 'b', 'bb', 'bbb', 'x', 'bx', 'bbx', 'bs', 'sb', 'bi', 'bsx', 'eb'] if not quick else \
           ['', 'bb', 'x', 'bx', 'bs', 'bbb']
    for items in seqs:
        for close in ('ok', 'raise'):
            out.append(('gen', items, 0, close))
        for end in (0, 1):
            for close in ('absent', 'ok', 'raise', 'arg'):
                out.append(('iter', items, end, close))
            for close in (('absent', 'ok', 'raise') if not quick else ('raise',)):
                out.append(('iterable', items, end, close))
            for close in ('absent', 'ok', 'raise'):
                if 'e' not in items:
                    out.append(('file', items, end, close))
    return out


def grid_b_plans(quick):
    """Body shape x misbehaviour x stream x consumption schedule (x tools x HEAD x Content-Length in part)."""
    plans = []
    cons = CONSUME if not quick else [(None, 1), (0, 1), (1, 1), (1, 2), (None, 2), (1, 0)]
    for sh, items, end, close in body_specs(quick):
        for stream in (0, 1):
            for reads, closes in (cons if (stream or sh in ITERATING) else cons[:2]):
                if not stream and sh in ITERATING and (reads, closes) not in ((None, 1), (1, 1), (0, 2)):
                    continue
                plans.append(b_plan(sh, items, end, close, stream=stream, reads=reads, closes=closes))
        # the same body below a tool that wraps / buffers it, for HEAD, with an explicit Content-Length, with a
        # status that forbids a body
        for tools in (('encode',), ('gzip',), ('encode', 'gzip'), ('etags',)):
            for stream in (0, 1):
                for reads, closes in ((None, 1), (1, 1)):
                    if quick and (sh not in ITERATING or (stream, reads) == (0, 1)):
                        continue
                    plans.append(b_plan(sh, items, end, close, stream=stream, tools=tools, reads=reads, closes=closes))
        for stream in (0, 1):
            plans.append(b_plan(sh, items, end, close, meth='head', stream=stream))
            plans.append(b_plan(sh, items, end, close, cl=1, stream=stream, reads=None, closes=1))
            plans.append(b_plan(sh, items, end, close, cl=1, stream=stream, reads=1, closes=1))
            plans.append(b_plan(sh, items, end, close, status=204, stream=stream))
    for st in ('keep', 'str', 'none', 'int'):
        for hd in ('none', 'bytes', 'strkey', 'strval', 'unival', 'strpair', 'triple', 'nonpair', 'intval', 'nolist'):
            if (st, hd) == ('keep', 'none'):
                continue
            for sh, items, close in (('bytes', '', 'absent'), ('gen', 'bb', 'raise'), ('str', '', 'absent'), ('gen', 'x', 'ok')):
                for stream in (0, 1):
                    for tb in (0, 1):
                        plans.append(b_plan(sh, items, 0, close, tamper=(st, hd), stream=stream, tb=tb))
    # the failing sites of the body iterator (next on the first / a later chunk, exhaustion, close(), finally, read(),
    # the file's close()) and the on_end_request hook x the class of what they raise: CherryPy's own control-flow
    # exceptions must be contained like any other once the request layer is done with the response
    sites = [('gen', 'x', 0, 'ok'), ('gen', 'bx', 0, 'ok'), ('gen', 'bb', 0, 'raise'), ('iter', 'x', 0, 'ok'),
             ('iter', 'bbx', 0, 'absent'), ('iter', 'b', 1, 'ok'), ('iter', 'bb', 0, 'raise'), ('iterable', 'bx', 0, 'raise'),
             ('file', 'bx', 0, 'ok'), ('file', 'b', 1, 'ok'), ('file', 'bb', 0, 'raise')]
    for xk in XKINDS[1:]:
        for sh, items, end, close in sites:
            for stream, cl in ((1, 0), (0, 1), (0, 0)):
                for reads, closes in ((None, 1), (1, 1), (0, 2), (2, 2), (None, 0)):
                    if not (stream or cl) and (reads, closes) != (None, 1):
                        continue
                    for tb in ((0, 1) if reads is None else (0,)):
                        plans.append(b_plan(sh, items, end, close, stream=stream, cl=cl, tb=tb, reads=reads, closes=closes, xk=xk))
            plans.append(b_plan(sh, items, end, close, stream=1, meth='head', xk=xk))
            plans.append(b_plan(sh, items, end, close, stream=1, status=204, xk=xk))
            for tools in (('encode',), ('gzip',)):
                plans.append(b_plan(sh, items, end, close, stream=1, tools=tools, xk=xk))
    # ... and the class of an *ordinary* failure: collapse / flush time (inside finalize), stream time, close()
    for xk in ORDINARY:
        for sh, items, end, close in sites:
            if xk == 'StopIteration' and sh != 'gen':
                continue
            for stream, cl, status in ((0, 0, None), (0, 0, 204), (1, 0, None), (1, 0, 304), (0, 1, None)):
                for tb in (0, 1):
                    plans.append(b_plan(sh, items, end, close, stream=stream, cl=cl, status=status, tb=tb, xk=xk))
            plans.append(b_plan(sh, items, end, close, stream=1, tb=0, reads=1, closes=2, xk=xk))
            for tools in (('gzip',), ('etags',), ('encode',)):
                plans.append(b_plan(sh, items, end, close, stream=0, tools=tools, tb=0, xk=xk))
    for relx in XKINDS + ORDINARY:
        for sh, items, close in (('bytes', '', 'absent'), ('gen', 'bb', 'raise'), ('iter', 'bx', 'raise'), ('str', '', 'absent')):
            for stream in (0, 1):
                for reads, closes in ((None, 1), (1, 2), (0, 1)):
                    plans.append(b_plan(sh, items, 0, close, stream=stream, reads=reads, closes=closes, relx=relx,
                                        xk=relx if (relx != 'ex' and not (relx == 'StopIteration' and sh != 'gen')) else 'ex'))
    # failures answered through an error_page callable of every return type
    for ep in sorted(EP_CALLABLES):
        for sh, items, st in (('str', '', None), ('bytes', '', 99), ('gen', 'bx', None), ('list', 'bs', None)):
            for stream in (0, 1):
                for tb in (0, 1):
                    for reads, closes in ((None, 1), (1, 2)):
                        plans.append(b_plan(sh, items, 0, 'ok', status=st, stream=stream, tb=tb, ep=ep, reads=reads, closes=closes))
    for status in (99, 600, 201, 304, 100, '299 caf€', '200 a\r\nX-Injected: 1', 'banana', '', 0, '1000 x', '200'):
        for sh, items in (('bytes', ''), ('gen', 'bb'), ('gen', 'bx')):
            for stream in (0, 1):
                plans.append(b_plan(sh, items, 0, 'ok', status=status, stream=stream))
    return plans


def gen_b_plan(rng):
    sh = rng.choice(SHAPES + list(ITERATING) * 3)
    n = rng.choice([0, 1, 1, 2, 2, 3, 4])
    alphabet = 'bbbbsiex' if sh in ITERATING else 'bbbsie'
    items = ''.join(rng.choice(alphabet) for _ in range(n)) if sh not in ('bytes', 'bytes0', 'str', 'str0', 'none', 'nonit') else ''
    if sh == 'file':
        items = items.replace('e', 'b')
    if sh == 'gen':
        close = rng.choice(['ok', 'raise'])
    elif sh == 'file':
        close = rng.choice(['absent', 'ok', 'raise'])
    elif sh in ('iter', 'iterable'):
        close = rng.choice(['absent', 'ok', 'raise', 'raise', 'arg'])
    else:
        close = 'absent'
    tamper = ('keep', 'none')
    if rng.random() < 0.15:
        tamper = (rng.choice(['keep', 'str', 'none', 'int']),
                  rng.choice(['none', 'bytes', 'strkey', 'strval', 'unival', 'strpair', 'triple', 'nonpair', 'intval', 'nolist']))
    tools = rng.choices([(), ('encode',), ('gzip',), ('encode', 'gzip'), ('etags',)], weights=[60, 15, 10, 8, 7])[0]
    ep = rng.choice(sorted(EP_CALLABLES)) if rng.random() < 0.08 else None
    r = rng.random()
    xk = rng.choice(XKINDS[1:]) if r < 0.25 else (rng.choice(ORDINARY) if r < 0.6 else 'ex')
    if xk == 'StopIteration' and sh != 'gen':
        xk = 'ValueError'
    relx = rng.choice(XKINDS + ORDINARY) if rng.random() < 0.1 else None
    return b_plan(sh, items, rng.choice([0, 0, 1]) if sh in ('iter', 'iterable', 'file') else 0, close, ep=ep, xk=xk, relx=relx,
                  meth=rng.choices(['get', 'head'], weights=[85, 15])[0], tb=rng.choice([0, 1]),
                  stream=rng.choice([0, 1, 1]), tools=tools, cl=1 if rng.random() < 0.15 else 0,
                  status=rng.choices([None, 201, 204, 304, 99], weights=[80, 5, 6, 5, 4])[0], tamper=tamper,
                  reads=rng.choices([None, 0, 1, 2, 3], weights=[40, 15, 20, 15, 10])[0],
                  closes=rng.choices([1, 2, 3, 0], weights=[55, 25, 8, 12])[0])


def r_plan(start, pages, meth='get', tb=0, reads=None, closes=1, sn=''):
    # sn: the mount point of the application (SCRIPT_NAME); part of the keys the redirector records and compares
    return {'k': 'r', 'meth': meth, 'tb': tb, 'sn': sn, 'start': list(start), 'reads': reads, 'closes': closes,
            'pages': pages}


QSS = ['', 'x=1', 'x=2', 'next=/a', 'a=1&b=2']


def grid_r_plans(quick):
    """Chains and loops over up to three pages: the repeated target with / without a query string, changing /
    unchanged query strings, absolute / relative targets, the start URL with / without a query string."""
    plans = []
    A = 'always'
    for tb in (0, 1):
        for sq in ('', 'x=1', 'x=2'):
            # self loops
            for tgt in ('/a', '/a?x=1', '/a?x=2', 'a', 'a?x=1', '', '?x=1', '/a?{q}', '?{q}'):
                plans.append(r_plan(('/a', sq), {'/a': [[A, tgt, '']]}, tb=tb))
            for tq in ('x=1', '{q}'):
                plans.append(r_plan(('/a', sq), {'/a': [[A, '/a', tq]]}, tb=tb))
            # two-cycles and a chain into a cycle
            for t1 in ('/b', '/b?x=1', 'b?x=2'):
                for t2 in ('/a', '/a?x=1', 'a?x=2', '/b?x=1', '/b'):
                    plans.append(r_plan(('/a', sq), {'/a': [[A, t1, '']], '/b': [[A, t2, '']]}, tb=tb))
            for t3 in ('/b?x=1', '/c?x=1', '/c', '/a?x=1'):
                plans.append(r_plan(('/a', sq), {'/a': [[A, '/b?x=1', '']], '/b': [[A, '/c?x=1', '']], '/c': [[A, t3, '']]},
                                    tb=tb))
            # login-style: redirect unless a query string is present / while it is present; terminating chains
            plans.append(r_plan(('/a', sq), {'/a': [['noq', '/login?next=/a', '']], '/login': [[A, '/login?next=/login', '']]},
                                tb=tb))
            plans.append(r_plan(('/a', sq), {'/a': [['noq', '/a?x=1', '']]}, tb=tb))
            plans.append(r_plan(('/a', sq), {'/a': [['q', '/a', '']]}, tb=tb))
            plans.append(r_plan(('/a', sq), {'/a': [['q', '/a', ''], ['noq', '/a?x=1', '']]}, tb=tb))
            plans.append(r_plan(('/a', sq), {'/a': [['v4', '/a?n={n}', '']]}, tb=tb))
            plans.append(r_plan(('/a', sq), {'/a': [['v3', '/b?n={n}', '']], '/b': [['v3', '/a?n={n}', '']]}, tb=tb))
            plans.append(r_plan(('/a', sq), {'/a': [[A, '/nosuch?x=1', '']]}, tb=tb))
            # relative targets below a directory
            plans.append(r_plan(('/d/a', sq), {'/d/a': [[A, 'b?x=1', '']], '/d/b': [[A, 'a', '']]}, tb=tb))
            plans.append(r_plan(('/d/a', sq), {'/d/a': [[A, 'b?x=1', '']], '/d/b': [[A, 'b?x=1', '']]}, tb=tb))
            plans.append(r_plan(('/d/', sq), {'/d/': [[A, 'a?x=1', '']], '/d/a': [[A, '/d/?x=1', '']]}, tb=tb))
    # the same loops in an application mounted below a script name
    for sn in ('/app', '/x/y'):
        for sq in ('', 'x=1'):
            for tgt in ('/a', '/a?x=1', 'a?x=1', '?x=1', '/a?{q}'):
                plans.append(r_plan(('/a', sq), {'/a': [[A, tgt, '']]}, sn=sn))
            plans.append(r_plan(('/a', sq), {'/a': [[A, '/b?x=1', '']], '/b': [[A, '/a?x=1', '']]}, sn=sn))
            plans.append(r_plan(('/a', sq), {'/a': [['v3', '/a?n={n}', '']]}, sn=sn))
    for meth in ('post',):
        plans.append(r_plan(('/a', 'x=1'), {'/a': [[A, '/a?x=1', '']]}, meth=meth))
        plans.append(r_plan(('/a', ''), {'/a': [[A, '/b?x=1', '']], '/b': [[A, '/b?x=1', '']]}, meth=meth))
    for reads, closes in ((0, 1), (None, 2), (1, 0)):
        plans.append(r_plan(('/a', ''), {'/a': [[A, '/b?x=1', '']], '/b': [[A, '/b?x=1', '']]}, reads=reads, closes=closes))
    return plans


PATHS = ['/a', '/b', '/c', '/d/a', '/d/b', '/d/']


def gen_r_plan(rng):
    n = rng.choice([1, 2, 2, 3, 3, 4])
    paths = rng.sample(PATHS, n)
    pages = {}
    for p in paths:
        rules = []
        for _ in range(rng.choice([0, 1, 1, 1, 2])):
            tgt = rng.choice(paths + paths + ['/nosuch'])
            if rng.random() < 0.35:
                # relative form of the same target where there is one
                base = p.rsplit('/', 1)[0] + '/'
                if tgt.startswith(base) and '/' not in tgt[len(base):]:
                    tgt = tgt[len(base):]
            q = rng.choice(['', '', 'x=1', 'x=1', 'x=2', '{q}', 'a=1&b=2'])
            cond = rng.choices(['always', 'q', 'noq', 'v3', 'v5'], weights=[55, 12, 12, 12, 9])[0]
            if cond[:1] == 'v' and rng.random() < 0.5:
                q = 'n={n}'
            if rng.random() < 0.6:
                rules.append([cond, tgt + ('?' + q if q else ''), ''])
            else:
                rules.append([cond, tgt, q])
        pages[p] = rules
    start = rng.choice(paths) if rng.random() < 0.95 else '/nosuch'
    return r_plan((start, rng.choice(['', '', 'x=1', 'x=2', 'a=1&b=2'])), pages, sn=rng.choice(['', '', '/app', '/x/y']),
                  meth=rng.choices(['get', 'post', 'head'], weights=[75, 15, 10])[0], tb=rng.choice([0, 1]),
                  reads=rng.choices([None, 0, 1], weights=[75, 12, 13])[0], closes=rng.choices([1, 2, 0], weights=[75, 15, 10])[0])


def shrink(plan, still_fails):
    """Greedy simplification of a failing B-/R-plan."""
    import copy
    cur = copy.deepcopy(plan)

    def attempt(cand):
        nonlocal cur
        try:
            if cand != cur and still_fails(cand):
                cur = cand
                return True
        except common.HarnessError:
            pass
        return False

    for _ in range(4):
        changed = False
        if cur['k'] == 'b':
            for opt_key in ('ep', 'relx'):
                if cur.get(opt_key):
                    cand = copy.deepcopy(cur)
                    del cand[opt_key]
                    changed |= attempt(cand)
            for key, dflt in (('tools', []), ('cl', 0), ('status', None), ('tamper', ['keep', 'none']), ('meth', 'get'),
                              ('closes', 1), ('reads', None), ('stream', 0)):
                if cur[key] != dflt:
                    cand = copy.deepcopy(cur)
                    cand[key] = dflt
                    changed |= attempt(cand)
            items = cur['body']['items']
            for i in range(len(items)):
                cand = copy.deepcopy(cur)
                cand['body']['items'] = items[:i] + items[i + 1:]
                if attempt(cand):
                    changed = True
                    break
            if cur['body']['end']:
                cand = copy.deepcopy(cur)
                cand['body']['end'] = 0
                changed |= attempt(cand)
        else:
            for key, dflt in (('meth', 'get'), ('closes', 1), ('reads', None), ('sn', '')):
                if cur.get(key, dflt) != dflt:
                    cand = copy.deepcopy(cur)
                    cand[key] = dflt
                    changed |= attempt(cand)
            for p in list(cur['pages']):
                if p != cur['start'][0]:
                    cand = copy.deepcopy(cur)
                    del cand['pages'][p]
                    if attempt(cand):
                        changed = True
                        continue
                rules = cur['pages'].get(p, [])
                for i in range(len(rules)):
                    cand = copy.deepcopy(cur)
                    del cand['pages'][p][i]
                    if attempt(cand):
                        changed = True
                        break
        if not changed:
            break
    return cur
